"""C14 — phenotyping (G_E_Phenotyping, TruePhenotyping) and breeding-value estimation
(MeanPhenotypicBreedingValue, TrueBreedingValue) preserve truth and alignment.

Case kinds
  pheno    population + additive genomic model + trial layout; the normal draws are oracle inputs
           (scripted dyadic values / a recorded genuine generator / all variances zero)
  h2       set_h2 / set_H2 on a population
  meanbv   a phenotype table (hand-built, rows shuffled, labels unsorted, extra and missing taxa)
           estimated three times: as is, rows permuted, genotype taxa permuted
  pipeline phenotype() of the real code feeds estimate() of the real code
  stat     large layouts with a genuine generator: realised variance components vs requested
           (a statistical test of the "converge" clause, 7-sigma acceptance band)
  reject   configurations that the code is meant to refuse (nrep <= 0, nrep of the wrong length, a target above 1,
           a negative variance): the model's `none` against the implementation's exception (correspondence only)
  phist    a multi-step HISTORY on one G_E_Phenotyping object (plus one TruePhenotyping / TrueBreedingValue object):
           phenotype, re-assign nenv / nrep / var_* through the setters, set_h2 / set_H2, read-only statistics (cache
           priming), in-place edits of the founder matrix, replacement of the genomic model, copy / deepcopy / HDF5 round
           trip of the protocol, in-place edits of frames returned earlier; every phenotype / set_h2 step is judged like a
           single-call case against the state of the population and configuration AT THAT STEP, and every frame returned
           earlier must still read the same at the end
  ehist    the same for one MeanPhenotypicBreedingValue object: estimate, edit the SAME data-frame object in place,
           re-assign trait_cols / taxa_grp_col, estimate another table, overwrite a matrix returned earlier
Round 4: `pheno` / `phist` carry `cfg_ops` = setter calls made after construction (nenv lowered / raised over a scalar, a
constant or a non-constant replicate array, nrep and the variances re-assigned); a trial requested while an environment has
no replicate count must be REFUSED (D60 repaired: the nenv setter makes the replicate array follow, phenotype() checks the
configuration).  Every noisy frame is also read through the noise-structure oracle (`c14.spec_noise`): zero-variance
components are absent per trait, positive-variance components give pairwise distinct effects (genuine generator).  `h2` cases
run on a CONFIGURED protocol (non-zero var_env / var_rep, any layout, copy / hdf5 clones, the target set twice); `stat` cases
add the replicate-pair statistic (Var of the difference of a taxon's two records = 2 var_err), cloned protocols and error
variances that come from a heritability target; `meanbv` tables may be unbalanced (unequal records per environment).
Options of the single-call kinds (`forms`): numpy scalar / narrow / unsigned / strided array arguments, copy / deepcopy /
HDF5-restored protocol, miscout, rng=None, ploidy 1-4, custom column names, str / tuple / generator trait_cols, shuffled /
string / filtered data-frame index, str / category label dtype, integer trait columns, phased genotype matrix as gtobj;
magnitudes (`mag`): common offsets 25000 and 1e9 with differences of 0.5, values of 1e-8, exact ties; sizes past 127 /
255 / 1024 / 4096 and the counts 49 / 98 / 103 / 107.
"""
import os
import tempfile
import contextlib
import json
import math
from fractions import Fraction

import numpy

from .. import canon, compat
from ..core import Prop

compat.install()

SITE_EST = "MeanPhenotypicBreedingValue.estimate"


def _mods():
    compat.import_pybrops()
    import pandas
    import pybrops.breed.prot.pt.G_E_Phenotyping as gep
    import pybrops.breed.prot.pt.TruePhenotyping as tp
    import pybrops.breed.prot.bv.MeanPhenotypicBreedingValue as mbv
    import pybrops.breed.prot.bv.TrueBreedingValue as tbv
    import pybrops.model.gmod.DenseAdditiveLinearGenomicModel as dalgm
    import pybrops.model.gmod.DenseAdditiveDominanceLinearGenomicModel as dadlgm
    import pybrops.popgen.gmat.DensePhasedGenotypeMatrix as dpgm
    import pybrops.popgen.gmat.DenseGenotypeMatrix as dgm
    return {"pandas": pandas, "gep": gep, "tp": tp, "mbv": mbv, "tbv": tbv, "dalgm": dalgm, "dadlgm": dadlgm, "dpgm": dpgm,
            "dgm": dgm}


def _f(x):
    return float(Fraction(x))


# ---------------------------------------------------------------------------------------- generators
class _Scripted(numpy.random.Generator):
    """genuine numpy Generator subclass whose multivariate_normal pops scripted values and logs the call"""

    def __init__(self, script):
        super().__init__(numpy.random.PCG64(0))
        self.script = list(script)
        self.log = []
        self.draws = []

    def multivariate_normal(self, mean, cov, size=None, **kw):
        self.log.append({"mean": numpy.array(mean, dtype=float).tolist(),
                         "cov": numpy.array(cov, dtype=float).tolist(),
                         "size": None if size is None else int(size)})
        if not self.script:
            raise RuntimeError("scripted generator exhausted: the code draws more often than the model")
        out = numpy.array(self.script.pop(0), dtype=float)
        self.draws.append(out)
        return out


class _Recording(numpy.random.Generator):
    """genuine generator; records what it hands out"""

    def __init__(self, seed):
        super().__init__(numpy.random.PCG64(int(seed)))
        self.log = []
        self.draws = []
        self.script = []

    def multivariate_normal(self, mean, cov, size=None, **kw):
        out = super().multivariate_normal(mean, cov, size, **kw)
        self.log.append({"mean": numpy.array(mean, dtype=float).tolist(),
                         "cov": numpy.array(cov, dtype=float).tolist(),
                         "size": None if size is None else int(size)})
        self.draws.append(numpy.array(out, dtype=float))
        return out


class _RecordingRS(numpy.random.RandomState):
    """genuine legacy RandomState; records what it hands out"""

    def __init__(self, seed):
        super().__init__(int(seed) % (2 ** 32))
        self.log = []
        self.draws = []
        self.script = []

    def multivariate_normal(self, mean, cov, size=None, **kw):
        out = super().multivariate_normal(mean, cov, size, **kw)
        self.log.append({"mean": numpy.array(mean, dtype=float).tolist(),
                         "cov": numpy.array(cov, dtype=float).tolist(),
                         "size": None if size is None else int(size)})
        self.draws.append(numpy.array(out, dtype=float))
        return out


def _flatten_script(script):
    out = []
    for e in script:
        out.append([_f(v) for v in e["env"]])
        for r in e["reps"]:
            out.append([_f(v) for v in r["rep"]])
            out.append([[_f(v) for v in row] for row in r["err"]])
    return out


def _enc_draws(draws):
    out = []
    for d in draws:
        d = numpy.asarray(d)
        out.append({"v": canon.enc(d)} if d.ndim == 1 else {"m": canon.enc(d)})
    return out


# ---------------------------------------------------------------------------------------- builders
def _population(m, pop):
    geno = numpy.array(pop["geno"], dtype="int8")
    n, p = geno.shape[1], geno.shape[2]
    taxa = None if pop.get("taxa") is None else numpy.array(pop["taxa"], dtype=object)
    grp = None if pop.get("grp") is None else numpy.array(pop["grp"], dtype=int)
    pg = m["dpgm"].DensePhasedGenotypeMatrix(
        geno, taxa=taxa, taxa_grp=grp,
        vrnt_chrgrp=numpy.ones(p, dtype=int), vrnt_phypos=numpy.arange(p) + 1)
    trait = None if pop.get("trait") is None else numpy.array(pop["trait"], dtype=object)
    beta = numpy.array([[_f(v) for v in r] for r in pop["beta"]], dtype=float)
    u_a = numpy.array([[_f(v) for v in r] for r in pop["u"]], dtype=float)
    if pop.get("ud") is not None:         # additive + dominance model: genotypic value != breeding value
        gm = m["dadlgm"].DenseAdditiveDominanceLinearGenomicModel(
            beta=beta, u_misc=None, u_a=u_a,
            u_d=numpy.array([[_f(v) for v in r] for r in pop["ud"]], dtype=float), trait=trait)
    else:
        gm = m["dalgm"].DenseAdditiveLinearGenomicModel(beta=beta, u_misc=None, u_a=u_a, trait=trait)
    return pg, gm


def _gv_exact(pop, dominance=True):
    """true genotypic values Z u_a (+ [Z == 1] u_d) + location in exact arithmetic
    (location = beta[0] + mean-contrast of the other fixed effects); dominance=False: breeding values"""
    geno = pop["geno"]
    n, p = len(geno[0]), len(geno[0][0])
    t = len(pop["u"][0]) if p else len(pop["beta"][0])
    q = len(pop["beta"])
    loc = [Fraction(pop["beta"][0][j]) + sum(Fraction(pop["beta"][k][j]) for k in range(1, q)) / q for j in range(t)]
    out = []
    for i in range(n):
        z = [sum(ph[i][k] for ph in geno) for k in range(p)]
        row = [sum(z[k] * Fraction(pop["u"][k][j]) for k in range(p)) + loc[j] for j in range(t)]
        if dominance and pop.get("ud") is not None:
            row = [row[j] + sum(Fraction(pop["ud"][k][j]) for k in range(p) if z[k] == 1) for j in range(t)]
        out.append(row)
    return out


def _var(x, t, form=None):
    """var_* argument of the constructor / setter from its JSON form; `form` selects an equivalent argument form
    (only where the values are exactly representable in it)"""
    if x is None:
        return None
    if isinstance(x, list):
        vals = [Fraction(v) for v in x]
        if form == "int" and all(v.denominator == 1 for v in vals):
            return numpy.array([int(v) for v in vals], dtype="int64")
        if form == "float32" and all(Fraction(float(numpy.float32(float(v)))) == v for v in vals):
            return numpy.array([float(v) for v in vals], dtype="float32")
        if form == "strided":
            buf = numpy.full(2 * len(vals), 77.0, dtype=float)
            buf[::2] = [float(v) for v in vals]
            return buf[::2]
        return numpy.array([float(v) for v in vals], dtype=float)
    v = Fraction(x)
    if form in ("int", "pyint") and v.denominator == 1:
        return int(v)
    if form == "float32" and Fraction(float(numpy.float32(float(v)))) == v:
        return numpy.float32(float(v))
    if form in ("np_scalar", "strided"):
        return numpy.float64(float(v))
    return float(v)


def _var_vec(x, t):
    if x is None:
        return [Fraction(0)] * t
    if isinstance(x, list):
        return [Fraction(v) for v in x]
    return [Fraction(x)] * t


def _nrep_arg(x, form=None):
    if isinstance(x, list):
        if form == "strided":
            buf = numpy.full(2 * len(x), 99, dtype=int)
            buf[::2] = x
            return buf[::2]
        if form in ("int8", "uint8", "int32", "uint64") and max(x) < 128:
            return numpy.array(x, dtype=form)
        return numpy.array(x, dtype=int)
    if form in ("int8", "int32", "uint8", "np_scalar") and int(x) < 128:
        return {"int8": numpy.int8, "int32": numpy.int32, "uint8": numpy.uint8, "np_scalar": numpy.int64}[form](int(x))
    return int(x)


def _nrep_list(nenv, x):
    return list(x) if isinstance(x, list) else [int(x)] * nenv


def _cfg_ops(case):
    """setter calls made on the protocol after construction, in order ({"attr": nenv|nrep|var_env|var_rep|var_err, "value"});
    `nenv_after` (older replay files) = one `nenv` assignment"""
    ops = list(case.get("cfg_ops") or [])
    if case.get("nenv_after") is not None:
        ops = [{"attr": "nenv", "value": int(case["nenv_after"])}] + ops
    return ops


def _cfg_state(case):
    """(nenv, replicate array or None, {var_*: JSON form}) the configuration ASKS for after the constructor and the setter
    calls.  A scalar `nrep` means that many replicates in EVERY environment, also in environments added later by an `nenv`
    assignment (the stored form of a scalar is a constant array, so a constant array means the same); fewer environments
    keep the counts of the first ones; more environments over a NON-constant array leave the new environments without a
    count until `nrep` is assigned: the array is then None (undefined - phenotype() has to refuse, not to return a frame
    for fewer environments than `nenv`)."""
    nenv = int(case["nenv"])
    arr = _nrep_list(nenv, case["nrep"])
    var = {k: case.get(k) for k in ("var_env", "var_rep", "var_err")}
    for op in _cfg_ops(case):
        a, v = op["attr"], op["value"]
        if a == "nenv":
            n = int(v)
            if n < len(arr):
                arr = arr[:n]
            elif len(arr) < n and len(set(arr)) == 1:
                arr = [arr[0]] * n
            nenv = n
        elif a == "nrep":
            arr = _nrep_list(nenv, v)
        else:
            var[a] = v
    return nenv, (arr if len(arr) == nenv else None), var


def _layout(case):
    """replicate counts per environment the configuration asks for (None: undefined, see `_cfg_state`)"""
    return _cfg_state(case)[1]


def _cell(v):
    """one label cell of a data frame -> JSON (None / NaN -> None)"""
    if v is None:
        return None
    if isinstance(v, (float, numpy.floating)) and math.isnan(v):
        return None
    if isinstance(v, (int, numpy.integer)):
        return int(v)
    if isinstance(v, (float, numpy.floating)) and float(v).is_integer():
        return int(v)
    return str(v)


def _frame_rows(df, trait_cols, taxa_col="taxa", grp_col="taxa_grp"):
    rows = []
    has_grp = grp_col is not None and grp_col in df.columns
    for k in range(len(df)):
        rows.append({
            "taxa": str(df[taxa_col].iloc[k]),
            "grp": _cell(df[grp_col].iloc[k]) if has_grp else None,
            "env": int(df["env"].iloc[k]) if "env" in df.columns else 0,
            "rep": int(df["rep"].iloc[k]) if "rep" in df.columns else 0,
            "vals": [canon.enc(float(df[c].iloc[k])) for c in trait_cols],
        })
    return rows


def _bv_obs(bv):
    mat = bv.unscale()
    return {"taxa": None if bv.taxa is None else [str(x) for x in bv.taxa],
            "grp": None if bv.taxa_grp is None else [int(x) for x in bv.taxa_grp],
            "trait": None if bv.trait is None else [str(x) for x in bv.trait],
            "rows": [[None if math.isnan(float(v)) else canon.enc(float(v)) for v in r] for r in mat]}


def _rows_close(a, b, rel=1e-9, abs_=1e-12):
    """two lists of rows whose entries are canonical rationals or None (NaN)"""
    if a is None or b is None or len(a) != len(b):
        return False
    for ra, rb in zip(a, b):
        if ra is None or rb is None:
            # a whole missing row (model) against a row of NaN entries (implementation)
            ra_ = ra if ra is not None else [None] * (len(rb) if rb is not None else 0)
            rb_ = rb if rb is not None else [None] * (len(ra) if ra is not None else 0)
            ra, rb = ra_, rb_
        if len(ra) != len(rb):
            return False
        for x, y in zip(ra, rb):
            if (x is None) != (y is None):
                return False
            if x is not None and not canon.close(canon.dec(x), canon.dec(y), rel, abs_):
                return False
    return True


def _scale_of(*xs):
    """largest magnitude among the numbers of nested encoded structures (None / markers skipped)"""
    m = Fraction(0)
    stack = list(xs)
    while stack:
        x = stack.pop()
        if x is None or isinstance(x, bool):
            continue
        if isinstance(x, dict):
            stack.extend(x.values())
        elif isinstance(x, (list, tuple)):
            stack.extend(x)
        elif isinstance(x, str):
            if x in ("nan", "inf", "-inf") or not (x.lstrip("-")[:1].isdigit()):
                continue
            try:
                v = abs(canon.dec(x))
            except Exception:
                continue
            m = max(m, v)
        elif isinstance(x, (int, float, Fraction)):
            m = max(m, abs(Fraction(x)))
    return m


def _tight(a, b, scale):
    """rows equal up to 1e-12 of the largest operand magnitude (binary64 sums of a handful of terms err by a few ulp of
    the largest operand; a tolerance relative to the RESULT would be wrong under cancellation and blind under offsets)"""
    return _rows_close(a, b, rel=0, abs_=Fraction(scale) / 10 ** 12)


def _popvar(col):
    n = len(col)
    mu = sum(col, Fraction(0)) / n
    return sum(((x - mu) ** 2 for x in col), Fraction(0)) / n


def _var_exact(pop, dominance):
    """population variance (ddof = 0) of each column of the exact true values: var_A (breeding values) / var_G"""
    gv = _gv_exact(pop, dominance=dominance)
    t = len(gv[0])
    return [_popvar([row[j] for row in gv]) for j in range(t)]


class C14(Prop):
    PID = "C14"
    MODULE = "PybropsModel.Props.C14"
    N_QUICK = 400
    N_THOROUGH = 2000
    RULE = ("pheno: 1-7 taxa (sizes 9/10/11/100/101 for default names; 1025 taxa, 130/260 environments, 130 replicates, 4100 "
            "records in the corpus) x 1-5 markers x 1-3 traits (11 in the corpus), ploidy 1-5, additive or additive+dominance "
            "genomic model, 1-2 fixed effects, clones / partly inbred taxa / a trait without marker effects, common offsets "
            "25000 and 1e9 with effects of 0.5, effects of 1e-8, unsorted unique names incl. case / whitespace / unicode-"
            "normalisation twins and 'nan'/'NA'/'None' (10% with one repeated name) or no names, groups present/absent (negative "
            "and large labels), 1-4 environments with scalar or per-environment (unequal) replicate counts, 22 % of the genuine-"
            "generator cases with 1-3 setter calls after construction (nenv lowered / raised over scalar, constant and "
            "non-constant replicate arrays - the last must be refused unless nrep is re-assigned), variances "
            "None/scalar/per-trait array/zero/2^-30, draws scripted (dyadic), genuine (recorded) or all-zero variance, 35 % through an "
            "equivalent argument form (numpy scalars, int8/uint8/int32/uint64/strided arrays, float32/int variances) or a "
            "secondary route (copy, deepcopy, to_hdf5+from_hdf5, miscout, rng=None); h2: targets in (0,1] scalar or per trait "
            "incl. 1, 1-2^-30, 2^-27, populations of 2-130 taxa incl. 49/98/103/107, tiny / offset true values, traits with "
            "var_A = 0, half of them on a protocol configured with non-zero var_env / var_rep and any layout (clones, target set "
            "twice); meanbv: hand-built tables (balanced or with unequal numbers of records per environment) with shuffled rows, unsorted labels, duplicate names inside one group, taxa "
            "absent from the table and from the genotype matrix, trait columns reordered, 25 % NaN cells, 25 % special "
            "magnitudes (25000+x, 1e9+-0.5, 1e-9, exact ties), a taxon with 49-300 records (1030 in the corpus), constant "
            "columns, partially grouped tables, 35 % other argument forms (str/tuple/generator trait_cols, custom column names, "
            "extra column, shuffled/string/offset index, str/category labels, integer columns, phased genotype matrix), "
            "estimated as is / rows permuted / genotype taxa permuted; thorough tier: exhaustive enumeration of all tables "
            "of 1-4 records over 2 names x 2 groups against all genotype lists of 1-2 entries and three of 3 (10 880 cases); pipeline: real "
            "phenotype() or TruePhenotyping output, optionally row-permuted / sampled / filtered with the index kept, into "
            "real estimate(); phist / ehist: 3-12 step histories on ONE protocol / estimator object (setters, set_h2, in-place "
            "edits of founders / frames, model replacement, clones, overwritten outputs); stat: 2000-3000 records with a "
            "genuine generator, equal or unequal replicate counts, per-trait variances incl. zeros, 40 % configured "
            "through the setters after construction, 20 % through copy / deepcopy / HDF5, 20 % with the error variance set by a "
            "heritability target; statistics: within-cell, replicate, environment and replicate-pair variances.  Non-trivial = pheno with >= 2 taxa and >= 2 (env,rep) cells and names "
            "not in sorted order; h2 with var_A > 0 and target < 1; meanbv with a taxon having >= 2 records and genotype order "
            "different from group-by order; histories with >= 2 judged steps")
    TRUSTED = [
        "pandas DataFrame construction / column access / groupby().agg(mean) entered through the contract "
        "'one row per distinct key, per-column arithmetic mean, rows with a missing key dropped' (re-checked on every "
        "case by the Spec oracle on the implementation's output)",
        "numpy Generator.multivariate_normal delivers independent N(mean, cov) variates (the covariance arguments the "
        "code passes are recorded and compared with diag(var_*) on every case; given that contract the almost-sure limit "
        "of the realised error variance is PROVED (realised_error_variance_converges_to_requested), the replicate / "
        "environment limits up to mean-error terms; the `stat` stream tests the same statistically on the real code)",
        "the genomic model's gegv()/var_A()/var_G() (C04) are observed, not modelled, apart from the additive closed form "
        "Z u + location used to cross-check the observed true values",
        "BreedingValueMatrix.from_numpy / unscale round trip (C15): outputs are read through unscale() with 1e-9 tolerance",
    ]
    ASSUMPTIONS = [
        "taxon identity: a name that occurs under two different group labels while taxa_grp_col is set (8 % of the grouped "
        "meanbv tables, all such tables of the exhaustive scope) is judged by the Spec under EITHER reading of `each taxon's "
        "mean over its records` - all records of the name, or the records of the (name, group) pair of the genotype matrix "
        "entry; the repaired code (D61) pools the records of the name, which the correspondence pins exactly; without "
        "genotype matrix such tables are correspondence-only (one row per (name, group) pair)",
        "configurations are built by the constructor and, in 22 % of the `real` pheno cases and in the histories, modified "
        "through the public setters afterwards (nenv lowered / raised, nrep and the variances re-assigned, 1-3 calls): a "
        "scalar (= constant) nrep means that many replicates in every environment, also in environments added later; fewer "
        "environments keep the counts of the first ones; raising nenv over a non-constant nrep array leaves the new "
        "environments without a count until nrep is assigned - a trial requested in that state has to be refused "
        "(ValueError), never answered with fewer environments than nenv (D60, repaired)",
        "phenotype tables may hold NaN cells: the model follows pandas' skip-NaN group mean (`meanBVNan`); the Spec accepts "
        "skip-NaN mean or missing where only some records of a taxon lack the value (the property does not say)",
        "math.ceil(math.log10(n)) is the least k with n <= 10**k (exercised at n = 1, 9, 10, 11, 101)",
        "float arithmetic: inputs are integers / dyadic rationals so most sums are exact; values are compared with an absolute "
        "tolerance of 1e-12 x the largest operand magnitude (true values, draws, table column), variances and error "
        "variances with a relative 1e-9; zero-noise records are compared EXACTLY with the true values the model reports",
        "heritability targets are passed as Python floats / float64 (a float32 target makes numpy evaluate (1-h2)/h2 in single "
        "precision - the caller's choice of precision, not generated)",
        "histories: every step is valid on its own (setters receive accepted values; after nenv is changed the replicate array "
        "is re-assigned or a trial in the undefined state is expected to be refused); data frames / matrices returned earlier are only overwritten "
        "through their own public interface (DataFrame.loc, matrix.mat[...]) and must not change otherwise",
    ]

    # set while a self-test mutant is active: cases that trigger the known finding D18 fail on the unchanged tree
    # already, so they are neutralised there - a mutant has to be flagged by some OTHER case to count as killed
    _selftest_active = False

    # ================================================================================ corpus
    def corpus(self):
        pop3 = {"geno": [[[1, 0, 1], [0, 0, 1], [1, 1, 0]], [[1, 1, 0], [0, 1, 0], [1, 0, 0]]],
                "taxa": ["d", "b", "a"], "grp": [2, 1, 2], "trait": ["y1", "y2"],
                "beta": [[10, 20]], "u": [[1, -2], [3, 1], [-1, 4]]}
        pop_nolab = dict(pop3, taxa=None, grp=None, trait=None)
        script = [{"env": [1, 2], "reps": [{"rep": ["1/2", "1/4"], "err": [[1, 1], [2, 2], [3, 3]]},
                                           {"rep": ["1/8", 0], "err": [[0, 0], [0, 1], [1, 0]]}]},
                  {"env": [-1, "1/2"], "reps": [{"rep": [0, 0], "err": [["-1/2", 0], [0, 0], [2, -2]]}]}]
        table = {"taxa": ["b", "a", "b", "c", "a", "b"], "grp": [1, 2, 1, 3, 2, 1],
                 "env": [1, 1, 2, 1, 2, 3], "rep": [1, 1, 1, 1, 1, 1],
                 "cols": ["y1", "y2"], "vals": [[1, 10], [2, 20], [4, 40], [8, 80], [3, 30], [7, "141/2"]]}
        return [
            {"kind": "pheno", "pop": pop3, "nenv": 2, "nrep": [2, 1], "var_env": 1, "var_rep": [2, 3], "var_err": "1/2",
             "mode": "scripted", "script": script},
            {"kind": "pheno", "pop": pop3, "nenv": 2, "nrep": [2, 1], "var_env": None, "var_rep": 0, "var_err": [0, 0],
             "mode": "zero", "seed": 5},
            {"kind": "pheno", "pop": pop_nolab, "nenv": 3, "nrep": 2, "var_env": 1, "var_rep": 1, "var_err": 1,
             "mode": "real", "seed": 11},
            {"kind": "pheno", "pop": {"geno": [[[1]], [[0]]], "taxa": ["solo"], "grp": None, "trait": ["t"],
                                      "beta": [[0]], "u": [[3]]},
             "nenv": 1, "nrep": 1, "var_env": None, "var_rep": None, "var_err": None, "mode": "zero", "seed": 1},
            # D60 (repaired; regression cases - they must PASS now): nenv raised through its setter after construction with
            # a scalar nrep: every environment is owed that many replicates
            {"kind": "pheno", "pop": pop3, "nenv": 2, "nrep": 1, "nenv_after": 4, "var_env": 1, "var_rep": 1, "var_err": 1,
             "mode": "real", "seed": 7},
            {"kind": "pheno", "pop": pop3, "nenv": 1, "nrep": 2, "cfg_ops": [{"attr": "nenv", "value": 3}],
             "var_env": None, "var_rep": None, "var_err": None, "mode": "zero", "seed": 7},
            {"kind": "pheno", "pop": pop3, "nenv": 3, "nrep": [2, 1, 2], "nenv_after": 2, "var_env": 1, "var_rep": 1,
             "var_err": 1, "mode": "real", "seed": 8},
            # ... over a constant array (indistinguishable from a broadcast scalar), down and up again, nrep re-assigned
            {"kind": "pheno", "pop": pop3, "nenv": 2, "nrep": [3, 3], "cfg_ops": [{"attr": "nenv", "value": 3}],
             "var_env": 1, "var_rep": [0, 1], "var_err": 1, "mode": "real", "seed": 9},
            {"kind": "pheno", "pop": pop3, "nenv": 3, "nrep": 2,
             "cfg_ops": [{"attr": "nenv", "value": 1}, {"attr": "var_rep", "value": [1, 4]}, {"attr": "nenv", "value": 4}],
             "var_env": 1, "var_rep": 0, "var_err": 1, "mode": "real", "seed": 10},
            {"kind": "pheno", "pop": pop3, "nenv": 2, "nrep": [2, 1],
             "cfg_ops": [{"attr": "nenv", "value": 3}, {"attr": "nrep", "value": [1, 1, 2]}],
             "var_env": 1, "var_rep": 1, "var_err": 1, "mode": "real", "seed": 11},
            # ... over a NON-constant array without assigning nrep: the third environment has no replicate count; the
            # repaired phenotype() refuses (the old code silently returned two environments)
            {"kind": "pheno", "pop": pop3, "nenv": 2, "nrep": [2, 1], "cfg_ops": [{"attr": "nenv", "value": 3}],
             "var_env": 1, "var_rep": 1, "var_err": 1, "mode": "real", "seed": 12},
            {"kind": "pheno", "pop": pop3, "nenv": 3, "nrep": [2, 1, 2],
             "cfg_ops": [{"attr": "nenv", "value": 2}, {"attr": "nenv", "value": 3}],
             "var_env": 1, "var_rep": 1, "var_err": 1, "mode": "real", "seed": 13},
            {"kind": "h2", "pop": pop3, "which": "h2", "h2": "1/2"},
            {"kind": "h2", "pop": pop3, "which": "H2", "h2": [1, "1/4"]},
            {"kind": "h2", "pop": dict(pop3, u=[[1, 0], [3, 0], [-1, 0]]), "which": "h2", "h2": "3/4"},
            {"kind": "meanbv", "table": table, "taxa_col": "taxa", "grp_col": "taxa_grp", "trait_cols": ["y2", "y1"],
             "gt": {"taxa": ["c", "zz", "a", "b"], "grp": [7, 8, 9, 6]}, "row_perm": [5, 3, 1, 0, 4, 2],
             "gt_perm": [2, 0, 3, 1]},
            {"kind": "meanbv", "table": dict(table, vals=[[1, None], [None, 20], [4, None], [None, None], [3, 30], [7, None]]),
             "taxa_col": "taxa", "grp_col": "taxa_grp", "trait_cols": ["y2", "y1"],
             "gt": {"taxa": ["c", "zz", "a", "b"], "grp": [7, 8, 9, 6]}, "row_perm": [5, 3, 1, 0, 4, 2],
             "gt_perm": [2, 0, 3, 1]},
            {"kind": "meanbv", "table": dict(table, vals=[[1, None], [None, 20], [4, None], [None, None], [3, 30], [7, None]]),
             "taxa_col": "taxa", "grp_col": None, "trait_cols": ["y1", "y2"], "gt": None,
             "row_perm": [5, 3, 1, 0, 4, 2], "gt_perm": None},
            {"kind": "meanbv", "table": table, "taxa_col": "taxa", "grp_col": None, "trait_cols": ["y1"],
             "gt": None, "row_perm": [1, 0, 2, 5, 4, 3], "gt_perm": None},
            # unbalanced trial: taxon b has two records in environment 1 and one in environment 2 (mean over records = 4,
            # mean of environment means = 4.75)
            {"kind": "meanbv", "table": dict(table, env=[1, 1, 1, 1, 2, 2], rep=[1, 1, 2, 1, 1, 1]), "taxa_col": "taxa",
             "grp_col": "taxa_grp", "trait_cols": ["y1", "y2"], "gt": {"taxa": ["b", "a", "zz", "c"], "grp": None},
             "row_perm": [2, 0, 5, 4, 3, 1], "gt_perm": [3, 1, 0, 2]},
            # D61 (repaired; regression case - must PASS now): the name b is used under the group labels 1 and 5 while
            # taxa_grp_col is set: the old join kept the LAST group (mean of record 6 alone = 7); the records of b are pooled (4)
            {"kind": "meanbv", "table": dict(table, grp=[1, 2, 1, 3, 2, 5]), "taxa_col": "taxa", "grp_col": "taxa_grp",
             "trait_cols": ["y1", "y2"], "gt": {"taxa": ["c", "zz", "a", "b"], "grp": [3, 8, 2, 1]},
             "row_perm": [5, 3, 1, 0, 4, 2], "gt_perm": [2, 0, 3, 1]},
            # D18: population without groups, estimator told to group by the (all-missing) taxa_grp column
            {"kind": "meanbv", "table": dict(table, grp=None), "taxa_col": "taxa", "grp_col": "taxa_grp",
             "trait_cols": ["y1", "y2"], "gt": {"taxa": ["c", "zz", "a", "b"], "grp": None},
             "row_perm": [5, 3, 1, 0, 4, 2], "gt_perm": [2, 0, 3, 1]},
            {"kind": "meanbv", "table": dict(table, grp=None), "taxa_col": "taxa", "grp_col": "taxa_grp",
             "trait_cols": ["y1"], "gt": None, "row_perm": [5, 3, 1, 0, 4, 2], "gt_perm": None},
            {"kind": "pipeline", "pop": dict(pop3, grp=None), "nenv": 2, "nrep": 2, "var_env": 1, "var_rep": 1,
             "var_err": 1, "seed": 3, "use_grp": True, "gt_perm": [2, 0, 1]},
            {"kind": "pipeline", "pop": pop3, "nenv": 2, "nrep": 2, "var_env": 1, "var_rep": 1,
             "var_err": 1, "seed": 3, "use_grp": True, "gt_perm": [2, 0, 1]},
        ] + self._corpus_round3(pop3, table)

    @staticmethod
    def _corpus_round3(pop3, table):
        """round 3: histories on one object, magnitudes that interact with tolerances, sizes past internal constants,
        rarely used argument forms, secondary entry points (fixed, hand-written cases; the generators add random ones)"""
        import random as _r
        rr = _r.Random(14)
        big_n = 1025
        pop_big = {"geno": [[[rr.randint(0, 1), rr.randint(0, 1)] for _ in range(big_n)] for _ in range(2)],
                   "taxa": [f"t{(i * 7919) % 100003}" for i in range(big_n)], "grp": None, "trait": ["y"],
                   "beta": [[3]], "u": [[1], [2]]}
        pop2 = {"geno": [[[1, 0]], [[0, 1]]] and [[[1, 0], [0, 0]], [[0, 1], [1, 1]]], "taxa": ["q", "c"], "grp": [5, 4],
                "trait": None, "beta": [[7]], "u": [[2], [-3]]}
        pop_e9 = dict(pop3, beta=[[10 ** 9, 25000]], u=[["1/2", "-1/4"], ["3/2", "1/4"], ["-1/2", "1/2"]])
        pop_tiny = dict(pop3, u=[[f"1/{2 ** 27}", f"-2/{2 ** 27}"], [f"3/{2 ** 27}", f"1/{2 ** 27}"],
                                 [f"-1/{2 ** 27}", f"4/{2 ** 27}"]])
        script_e9 = [{"env": ["1/2", 0], "reps": [{"rep": ["-1/2", "1/4"], "err": [["1/2", 0], ["-1/2", "1/8"], [0, "-1/8"]]}]}]
        many = {"taxa": ["b"] * 1030 + ["a", "c", "a"], "grp": [1] * 1030 + [2, 3, 2],
                "env": list(range(1, 1031)) + [1, 1, 2], "rep": [1] * 1033, "cols": ["y"],
                "vals": [[10 ** 9 + (i % 3 - 1) * 0.5] for i in range(1030)] + [[10 ** 9 + 0.5], [10 ** 9 - 0.5], [10 ** 9]]}
        many["vals"] = [[canon.enc(Fraction(v[0]))] for v in many["vals"]]
        wide_names = [f"g{(i * 613) % 1009:04d}" for i in range(300)]
        wide = {"taxa": list(wide_names), "grp": None, "env": [1] * 300, "rep": [1] * 300, "cols": ["y"],
                "vals": [[(i * 37) % 101] for i in range(300)]}
        gt_wide = [wide_names[(i * 7) % 300] for i in range(300)]
        tiny_tab = dict(table, vals=[[f"{a}/{2 ** 27}", f"{b}/{2 ** 27}"] for a, b in
                                     [(1, 10), (2, 20), (4, 40), (8, 80), (3, 30), (7, 71)]])
        hist_pop = {"geno": [[[1, 0, 1], [0, 0, 1], [1, 1, 0], [0, 1, 0]], [[1, 1, 0], [0, 1, 0], [1, 0, 0], [0, 0, 0]]],
                    "taxa": ["d", "b", "a", "c"], "grp": [2, 1, 2, 1], "trait": ["y1", "y2"],
                    "beta": [[10, 20]], "u": [[1, -2], [3, 1], [-1, 4]]}
        clone01 = [[ph, 1, k, None, 0] for ph in range(2) for k in range(3)]
        hist = {"kind": "phist", "pop": hist_pop, "seed": 21, "u2": [[2, 1], [-1, 5], [4, -3]], "beta2": [[0, 3]],
                "nenv": 2, "nrep": 1, "var_env": None, "var_rep": None, "var_err": None}
        e0 = {"taxa": ["b", "a", "b", "c", "a"], "grp": [1, 2, 1, 3, 2], "env": [1, 1, 2, 1, 2], "rep": [1] * 5,
              "cols": ["y1", "y2"], "vals": [[1, 10], [2, 20], [4, 40], [8, 80], [3, 30]]}
        e1 = {"taxa": ["c", "b", "zz"], "grp": [3, 1, 9], "env": [1, 1, 1], "rep": [1] * 3,
              "cols": ["y1", "y2"], "vals": [[5, 50], [6, 60], [7, 70]]}
        return [
            # ---- sizes: 1025 taxa (past 1024), 130 / 260 environments and 130 replicates (past 127 / 255), 4100 records
            {"kind": "pheno", "pop": pop_big, "nenv": 1, "nrep": 1, "var_env": None, "var_rep": 0, "var_err": None,
             "mode": "zero", "seed": 1},
            {"kind": "pheno", "pop": pop2, "nenv": 130, "nrep": 1, "var_env": 1, "var_rep": 1, "var_err": 1,
             "mode": "real", "seed": 2},
            {"kind": "pheno", "pop": pop2, "nenv": 260, "nrep": 1, "var_env": 0, "var_rep": None, "var_err": 0,
             "mode": "zero", "seed": 2},
            {"kind": "pheno", "pop": pop2, "nenv": 2, "nrep": [130, 1], "var_env": 0, "var_rep": 0, "var_err": 0,
             "mode": "zero", "seed": 3},
            {"kind": "pheno", "pop": dict(pop3, taxa=["d", "b", "d"]), "nenv": 41, "nrep": [34] * 40 + [7],
             "var_env": 1, "var_rep": [0, 1], "var_err": ["1/4", 0], "mode": "real", "seed": 4},
            # a SCALAR replicate count past 127 (broadcast by the nrep setter), raised nenv afterwards
            {"kind": "pheno", "pop": pop2, "nenv": 1, "nrep": 130, "cfg_ops": [{"attr": "nenv", "value": 2}],
             "var_env": 0, "var_rep": 0, "var_err": 0, "mode": "zero", "seed": 3},
            # heritability set on a configured protocol (non-zero environment / replicate variances in force)
            {"kind": "h2", "pop": pop3, "which": "h2", "h2": "1/2",
             "init": {"nenv": 2, "nrep": [2, 1], "var_env": 4, "var_rep": [1, 2], "var_err": 1}},
            {"kind": "h2", "pop": pop3, "which": "H2", "h2": ["1/4", "3/4"], "twice": True,
             "init": {"nenv": 1, "nrep": 2, "var_env": [100, 100], "var_rep": 9, "var_err": None, "via": "hdf5"}},
            # ---- magnitudes: common offset 1e9 / 25000 with effects of 0.5, effects of 1e-8
            {"kind": "pheno", "pop": pop_e9, "nenv": 1, "nrep": 1, "var_env": [1, 0], "var_rep": 1, "var_err": 1,
             "mode": "scripted", "script": script_e9},
            {"kind": "pheno", "pop": pop_e9, "nenv": 2, "nrep": [1, 2], "var_env": 0, "var_rep": 0, "var_err": 0,
             "mode": "zero", "seed": 6},
            {"kind": "pheno", "pop": pop_tiny, "nenv": 2, "nrep": 1, "var_env": None, "var_rep": None, "var_err": None,
             "mode": "zero", "seed": 7},
            {"kind": "h2", "pop": pop_tiny, "which": "h2", "h2": canon.enc(1 - Fraction(1, 2 ** 30))},
            {"kind": "h2", "pop": pop_tiny, "which": "H2", "h2": [canon.enc(Fraction(1, 2 ** 27)), "1/2"]},
            {"kind": "h2", "pop": pop_e9, "which": "h2", "h2": canon.enc(1 - Fraction(1, 2 ** 17))},
            {"kind": "h2", "pop": pop3, "which": "h2", "h2": 1, "h2_form": "int"},
            {"kind": "meanbv", "table": many, "taxa_col": "taxa", "grp_col": "taxa_grp", "trait_cols": ["y"],
             "gt": {"taxa": ["c", "b", "zz", "a"], "grp": None}, "row_perm": list(range(1032, -1, -1)), "gt_perm": [3, 1, 0, 2]},
            {"kind": "meanbv", "table": wide, "taxa_col": "taxa", "grp_col": None, "trait_cols": ["y"],
             "gt": {"taxa": gt_wide, "grp": None}, "row_perm": [(i * 11) % 300 for i in range(300)],
             "gt_perm": [(i * 13) % 300 for i in range(300)]},
            {"kind": "meanbv", "table": tiny_tab, "taxa_col": "taxa", "grp_col": "taxa_grp", "trait_cols": ["y2", "y1"],
             "gt": {"taxa": ["c", "zz", "a", "b"], "grp": [7, 8, 9, 6]}, "row_perm": [5, 3, 1, 0, 4, 2],
             "gt_perm": [2, 0, 3, 1]},
            # ---- argument forms and secondary entry points
            {"kind": "pheno", "pop": pop3, "nenv": 2, "nrep": [2, 1], "var_env": 1, "var_rep": [2, 3], "var_err": "1/2",
             "mode": "real", "seed": 8, "forms": {"nenv": "np64", "nrep": "uint8", "var": "float32", "via": "hdf5"}},
            {"kind": "pheno", "pop": pop3, "nenv": 3, "nrep": [1, 3, 2], "var_env": 4, "var_rep": [1, 0], "var_err": 2,
             "mode": "real", "seed": 9, "forms": {"nrep": "strided", "var": "int", "via": "deepcopy", "miscout": True}},
            {"kind": "pheno", "pop": pop3, "nenv": 2, "nrep": 2, "var_env": 1, "var_rep": 1, "var_err": [1, 2],
             "mode": "real", "seed": 10, "forms": {"nrep": "np_scalar", "var": "strided", "via": "copy"}},
            {"kind": "pheno", "pop": dict(pop3, geno=[pop3["geno"][0]]), "nenv": 1, "nrep": 2, "var_env": 0, "var_rep": 0,
             "var_err": 0, "mode": "zero", "seed": 11, "rng_none": True},
            {"kind": "pheno", "pop": dict(pop3, geno=pop3["geno"] + pop3["geno"][::-1] + pop3["geno"][:1]), "nenv": 2,
             "nrep": 1, "var_env": 1, "var_rep": 0, "var_err": 1, "mode": "real", "seed": 12},
            {"kind": "meanbv", "table": table, "taxa_col": "line", "grp_col": "family", "trait_cols": ["y2"],
             "gt": {"taxa": ["c", "zz", "a", "b"], "grp": [7, 8, 9, 6]}, "row_perm": [5, 3, 1, 0, 4, 2], "gt_perm": [2, 0, 3, 1],
             "forms": {"trait": "str", "names": True, "extra_col": True, "index": "shuffled", "taxa_dtype": "category",
                       "gt_kind": "dpgm", "miscout": True}},
            {"kind": "meanbv", "table": dict(table, grp=[1, None, 1, 3, None, 1]), "taxa_col": "taxa", "grp_col": "taxa_grp",
             "trait_cols": ["y1", "y2"], "gt": {"taxa": ["c", "zz", "a", "b"], "grp": None}, "row_perm": [5, 3, 1, 0, 4, 2],
             "gt_perm": [2, 0, 3, 1]},
            {"kind": "pipeline", "pop": pop3, "nenv": 1, "nrep": 1, "var_env": None, "var_rep": None, "var_err": None,
             "seed": 3, "use_grp": True, "gt_perm": [2, 0, 1], "src": "true", "frame_op": "iloc_perm", "frame_seed": 5},
            {"kind": "pipeline", "pop": pop3, "nenv": 2, "nrep": [2, 1], "var_env": 1, "var_rep": 1, "var_err": 1,
             "seed": 3, "use_grp": False, "gt_perm": [1, 2, 0], "frame_op": "mask", "frame_seed": 6},
            # eleven traits without names (default trait labels Trait01 .. Trait11), one marker
            {"kind": "pheno", "pop": {"geno": [[[1], [0], [1]], [[1], [1], [0]]], "taxa": None, "grp": [3, 1, 2], "trait": None,
                                      "beta": [list(range(11))], "u": [[(-1) ** j * (j + 1) for j in range(11)]]},
             "nenv": 2, "nrep": [1, 2], "var_env": None, "var_rep": None, "var_err": None, "mode": "zero", "seed": 13},
            # ---- histories on one object
            dict(hist, steps=[{"op": "set_h2", "which": "h2", "h2": "1/2", "pg": "A"}, {"op": "gpmod"},
                              {"op": "set_h2", "which": "h2", "h2": "1/4", "pg": "A"},
                              {"op": "edit", "pg": "A", "cells": clone01},
                              {"op": "set_h2", "which": "h2", "h2": "3/4", "pg": "A"}, {"op": "pheno", "pg": "A"}]),
            dict(hist, steps=[{"op": "pheno", "pg": "A"}, {"op": "set", "attr": "var_err", "value": [1, 4]},
                              {"op": "pheno", "pg": "A"}, {"op": "set", "attr": "var_err", "value": None},
                              {"op": "edit", "pg": "A", "cells": clone01}, {"op": "pheno", "pg": "A"},
                              {"op": "gpmod"}, {"op": "pheno", "pg": "A"}]),
            dict(hist, nrep=[2, 1], steps=[{"op": "pheno", "pg": "A"}, {"op": "set", "attr": "nenv", "value": 3},
                                           {"op": "set", "attr": "nrep", "value": [1, 1, 2]}, {"op": "pheno", "pg": "A"},
                                           {"op": "clone", "how": "copy"}, {"op": "pheno", "pg": "A"},
                                           {"op": "mutate_out", "which": 0}, {"op": "set", "attr": "nenv", "value": 1},
                                           {"op": "pheno", "pg": "A"}]),
            dict(hist, steps=[{"op": "read", "what": "var_A", "pg": "A"}, {"op": "read", "what": "gegv", "pg": "A"},
                              {"op": "edit", "pg": "A", "cells": [[0, 2, 0, 0], [1, 2, 0, 0]]},
                              {"op": "set_h2", "which": "H2", "h2": ["1/2", 1], "pg": "A"}, {"op": "pheno", "pg": "A"}]),
            {"kind": "ehist", "tables": [e0, e1], "gt": {"taxa": ["c", "zz", "a", "b"], "grp": [7, 8, 9, 6]},
             "taxa_col": "taxa", "grp_col": "taxa_grp", "trait_cols": ["y2", "y1"],
             "steps": [{"op": "est", "table": 0, "gt": True}, {"op": "edit", "table": 0, "cells": [[0, "y1", 100], [4, "y2", -7]]},
                       {"op": "est", "table": 0, "gt": True}, {"op": "est", "table": 1, "gt": True},
                       {"op": "zero_out", "which": 1}, {"op": "set", "attr": "trait_cols", "value": ["y1"]},
                       {"op": "est", "table": 0, "gt": False}, {"op": "relabel", "table": 0, "row": 3, "to": "a"},
                       {"op": "set", "attr": "taxa_grp_col", "value": None}, {"op": "est", "table": 0, "gt": True}]},
        ]

    # ================================================================================ generation
    NAME_POOL = ["zeta", "Alpha", "mu", "beta", "B73", "b73", "Mo17", "10", "9", "a", "Z", "é", "line 2", "x_1", "x_10",
                 "x_2", "taxon", "Taxon1", "omega", "K", "nan", "NA", "None", " a", "é"]

    @classmethod
    def _names(cls, rng, n):
        pool = cls.NAME_POOL
        names = rng.sample(pool, n) if n <= len(pool) else [f"n{rng.randrange(10**6)}_{i}" for i in range(n)]
        return names

    def _pop(self, rng, n=None, named=None, mag=None, nphase=None):
        n = n if n is not None else rng.choice([1, 2, 2, 3, 3, 4, 5, 7])
        p = rng.choice([1, 2, 3, 3, 5])
        t = rng.choice([1, 1, 2, 2, 3])
        nphase = nphase if nphase is not None else (2 if rng.random() < 0.85 else rng.choice([1, 3, 4]))
        geno = [[[rng.randint(0, 1) for _ in range(p)] for _ in range(n)] for _ in range(nphase)]
        r = rng.random()
        if n >= 3 and r < 0.10:            # clones: two taxa with the same genotype (ties in the true values)
            i, j = rng.sample(range(n), 2)
            for ph in geno:
                ph[j] = list(ph[i])
        elif n >= 2 and r < 0.20:          # partly inbred: some taxa homozygous at every locus, the others not
            for i in range(n):
                if rng.random() < 0.5:
                    for ph in geno[1:]:
                        ph[i] = list(geno[0][i])
        # make the taxa genetically distinct where possible so that a mix-up of rows is visible
        u = [[rng.choice([-3, -2, -1, 1, 2, 3, 5]) * (2 ** k if rng.random() < 0.5 else 1) for _ in range(t)]
             for k in range(p)]
        if t >= 2 and rng.random() < 0.12:   # a trait without any marker effect next to varying ones (constant column)
            j = rng.randrange(t)
            for row in u:
                row[j] = 0
        q = rng.choice([1, 1, 1, 2])
        beta = [[rng.randint(-5, 20) for _ in range(t)]] + [[2 * rng.randint(-3, 3) for _ in range(t)] for _ in range(q - 1)]
        if mag == "offset25k":
            beta[0] = [25000 + rng.randint(0, 3) for _ in range(t)]
        elif mag == "offset1e9":
            beta[0] = [10 ** 9 for _ in range(t)]
            u = [[canon.enc(Fraction(x, 2)) for x in row] for row in u]
        elif mag == "tiny":
            u = [[canon.enc(Fraction(x, 2 ** 27)) for x in row] for row in u]
        named = (rng.random() < 0.8) if named is None else named
        taxa = self._names(rng, n) if named else None
        grp = [rng.choice([1, 2, 3, -1, 40000]) for _ in range(n)] if rng.random() < 0.6 else None
        trait = [f"tr{j}" for j in rng.sample(range(10), t)] if rng.random() < 0.7 else None
        pop = {"geno": geno, "taxa": taxa, "grp": grp, "trait": trait, "beta": beta, "u": u}
        if nphase == 2 and mag is None and rng.random() < 0.25:
            pop["ud"] = [[rng.choice([-2, -1, 0, 1, 4]) for _ in range(t)] for _ in range(p)]
            pop["beta"] = beta[:1]
        return pop

    @staticmethod
    def _t(pop):
        return len(pop["u"][0])

    def _variance(self, rng, t, allow_zero=True):
        r = rng.random()
        # (2^-30 ~ 9.3e-10: a variance below numpy.isclose's absolute tolerance that is nevertheless not zero)
        vals = [0, 1, 2, Fraction(1, 2), Fraction(9, 4), 4, Fraction(1, 2 ** 30)] if allow_zero else \
            [1, 2, Fraction(1, 2), Fraction(9, 4), 4, Fraction(1, 2 ** 30)]
        if r < 0.15:
            return None
        if r < 0.50:
            return canon.enc(rng.choice(vals))
        return [canon.enc(rng.choice(vals)) for _ in range(t)]

    @staticmethod
    def _forms(rng, p=0.35):
        """equivalent argument forms / construction routes of the protocol (DESIGN class 4/5)"""
        if rng.random() >= p:
            return None
        f = {}
        if rng.random() < 0.4:
            f["nenv"] = rng.choice(["np64", "np32"])
        if rng.random() < 0.5:
            f["nrep"] = rng.choice(["int8", "uint8", "int32", "uint64", "strided", "np_scalar"])
        if rng.random() < 0.5:
            f["var"] = rng.choice(["float32", "int", "strided", "np_scalar", "pyint"])
        if rng.random() < 0.45:
            f["via"] = rng.choice(["copy", "deepcopy", "hdf5"])
        if rng.random() < 0.3:
            f["miscout"] = True
        return f or None

    def _gen_pheno(self, rng):
        r = rng.random()
        mag = rng.choice(["offset25k", "offset1e9", "tiny"]) if rng.random() < 0.15 else None
        if r < 0.06:
            pop = self._pop(rng, n=rng.choice([9, 10, 11, 100, 101]), named=False, mag=mag)
        else:
            pop = self._pop(rng, mag=mag)
        t = self._t(pop)
        n = len(pop["geno"][0])
        if pop["taxa"] is not None and n >= 2 and rng.random() < 0.1:     # two taxa sharing one name
            pop["taxa"][rng.randrange(n)] = pop["taxa"][rng.randrange(n)]
        nenv = rng.choice([1, 2, 2, 3, 4])
        nrep = rng.choice([1, 2, 3]) if rng.random() < 0.4 else [rng.randint(1, 3) for _ in range(nenv)]
        if isinstance(nrep, list) and nenv >= 2 and len(set(nrep)) == 1 and rng.random() < 0.7:
            nrep[rng.randrange(nenv)] += 1                                  # per-environment counts that differ
        mode = rng.choice(["scripted", "scripted", "real", "zero"])
        case = {"kind": "pheno", "pop": pop, "nenv": nenv, "nrep": nrep, "mode": mode}
        forms = self._forms(rng)
        if forms:
            case["forms"] = forms
        if mode == "zero":
            for k in ("var_env", "var_rep", "var_err"):
                case[k] = rng.choice([None, 0, [0] * t])
            case["seed"] = rng.randrange(2 ** 31)
            if rng.random() < 0.2 and not (forms and forms.get("via") == "hdf5"):
                case["rng_none"] = True        # rng=None: the package-level generator (no noise is drawn from it anyway)
            return case
        for k in ("var_env", "var_rep", "var_err"):
            case[k] = self._variance(rng, t)
        if mode == "real":
            case["seed"] = rng.randrange(2 ** 31)
            case["legacy_rng"] = rng.random() < 0.3
            if rng.random() < 0.22 and not forms:        # setters called after construction, before the trial
                case["cfg_ops"] = self._gen_cfg_ops(rng, nenv, nrep, t)
            return case
        ve, vr, vx = (_var_vec(case[k], t) for k in ("var_env", "var_rep", "var_err"))
        den = 4 * (2 ** 27 if mag == "tiny" else 1)

        def z(v):
            return [canon.enc(Fraction(rng.randint(-12, 12), den)) if x != 0 else 0 for x in v]
        script = []
        for e, k in enumerate(_nrep_list(nenv, nrep)):
            script.append({"env": z(ve), "reps": [{"rep": z(vr), "err": [z(vx) for _ in range(n)]} for _ in range(k)]})
        case["script"] = script
        return case

    def _gen_cfg_ops(self, rng, nenv, nrep, t, allow_undefined=True):
        """1-3 setter calls on a constructed protocol: `nenv` lowered / raised (over a scalar, a constant array, a
        non-constant array - then mostly followed by an `nrep` assignment, sometimes not: phenotype() must refuse), `nrep`
        re-assigned, variances re-assigned"""
        ops = []
        cur, arr = nenv, _nrep_list(nenv, nrep)
        for _ in range(rng.choice([1, 1, 2, 3])):
            r = rng.random()
            if r < 0.55:
                new = rng.choice([x for x in (1, 2, 3, 4, 5) if x != cur])
                ops.append({"attr": "nenv", "value": new})
                const = len(set(arr)) == 1
                if new < len(arr):
                    arr = arr[:new]
                elif const:
                    arr = [arr[0]] * new
                elif not (allow_undefined and rng.random() < 0.3):
                    arr = [rng.randint(1, 3) for _ in range(new)]
                    ops.append({"attr": "nrep", "value": list(arr)})
                cur = new
                if len(arr) != cur:
                    break                      # undefined layout: stop here, the trial must be refused
            elif r < 0.75:
                val = rng.choice([1, 2, 3]) if rng.random() < 0.5 else [rng.randint(1, 3) for _ in range(cur)]
                arr = _nrep_list(cur, val)
                ops.append({"attr": "nrep", "value": val})
            else:
                ops.append({"attr": rng.choice(["var_env", "var_rep", "var_err"]), "value": self._variance(rng, t)})
        return ops

    H2_TARGETS = [1, Fraction(1, 2), Fraction(1, 4), Fraction(3, 4), Fraction(1, 8), Fraction(1, 1024),
                  Fraction(0.3), Fraction(0.9), Fraction(0.05), Fraction(0.999),
                  1 - Fraction(1, 2 ** 30), Fraction(1, 2 ** 27), Fraction(1, 2 ** 17), 1 - Fraction(1, 2 ** 17)]

    def _gen_h2(self, rng):
        mag = rng.choice(["offset25k", "offset1e9", "tiny"]) if rng.random() < 0.3 else None
        pop = self._pop(rng, n=rng.choice([2, 3, 4, 5, 7, 49, 98, 103, 107, 130]), mag=mag)
        t = self._t(pop)
        if rng.random() < 0.15:      # a trait without genetic variance
            j = rng.randrange(t)
            for row in pop["u"]:
                row[j] = 0
        targets = self.H2_TARGETS
        h2 = canon.enc(rng.choice(targets)) if rng.random() < 0.5 else [canon.enc(rng.choice(targets)) for _ in range(t)]
        case = {"kind": "h2", "pop": pop, "which": rng.choice(["h2", "H2"]), "h2": h2}
        if rng.random() < 0.3:
            # (no float32 forms: numpy then evaluates (1 - h2)/h2 in float32, a precision the caller chose)
            case["h2_form"] = rng.choice(["np64", "int", "np64"])
        if rng.random() < 0.5:
            # the protocol is not a fresh default one: a trial layout and non-zero environment / replicate / error variances
            # are in force when the heritability is set (the target concerns genetic over genetic-plus-ERROR variance:
            # var_env and var_rep neither enter the error variance nor are they touched)
            nenv = rng.choice([1, 2, 3])
            case["init"] = {"nenv": nenv, "nrep": rng.choice([1, 2]) if rng.random() < 0.5 else [rng.randint(1, 3) for _ in range(nenv)],
                            "var_env": self._variance(rng, t, allow_zero=False), "var_rep": self._variance(rng, t, allow_zero=False),
                            "var_err": self._variance(rng, t)}
            if rng.random() < 0.3:
                case["init"]["via"] = rng.choice(["copy", "deepcopy", "hdf5"])
            if rng.random() < 0.3:
                case["twice"] = True          # set the same target twice in a row (the second call starts from the first's result)
        return case

    def _gen_meanbv(self, rng):
        ntax = rng.choice([1, 2, 3, 4, 5, 6])
        names = self._names(rng, ntax + 2)
        table_names, extra = names[:ntax], names[ntax:]
        ncol = rng.choice([1, 2, 3])
        cols = [f"c{j}" for j in rng.sample(range(10), ncol)]
        with_grp = rng.random() < 0.65
        gmap = {nm: rng.choice([1, 2, 3, 4, -2, 70000]) for nm in table_names}
        mag = rng.choice(["offset25k", "offset1e9", "tiny", "ties"]) if rng.random() < 0.25 else None
        big = rng.choice(table_names) if rng.random() < 0.10 else None       # one taxon with very many records
        int_vals = mag is None and rng.random() < 0.15

        def val():
            if mag == "offset25k":
                return 25000 + Fraction(rng.randint(-8, 8), 4)
            if mag == "offset1e9":
                return 10 ** 9 + Fraction(rng.randint(-3, 3), 2)
            if mag == "tiny":
                return Fraction(rng.randint(-40, 40), 2 ** 30)
            if mag == "ties":
                return Fraction(rng.choice([3, 5]))
            if int_vals:
                return Fraction(rng.randint(-40, 40))
            return Fraction(rng.randint(-40, 40), rng.choice([1, 2, 4]))
        taxa, grp, env, rep, vals = [], [], [], [], []
        # one record per environment, or an UNBALANCED trial: unequal numbers of records per environment (the mean over a
        # taxon's records is then not the mean of its environment means)
        balanced = rng.random() < 0.5
        for nm in table_names:
            cnt = rng.choice([49, 98, 103, 107, 128, 130, 257, 300]) if nm == big else rng.choice([1, 1, 2, 3, 5])
            seen = {}
            for k in range(cnt):
                e = k + 1 if balanced else rng.choice([1, 1, 1, 2, 3])
                seen[e] = seen.get(e, 0) + 1
                taxa.append(nm)
                grp.append(gmap[nm])
                env.append(e)
                rep.append(seen[e])
                vals.append([canon.enc(val()) for _ in range(ncol)])
        if ncol >= 2 and rng.random() < 0.1:       # a constant trait column next to varying ones
            j = rng.randrange(ncol)
            for row in vals:
                row[j] = vals[0][j]
        has_nan = False
        if rng.random() < 0.25 and not int_vals:        # missing phenotype values (NaN cells); pandas' mean skips them
            has_nan = True
            for row in vals:
                for j in range(ncol):
                    if rng.random() < 0.3:
                        row[j] = None
            if rng.random() < 0.5:     # a taxon without any value for one trait
                nm, j = rng.choice(table_names), rng.randrange(ncol)
                for row, who in zip(vals, taxa):
                    if who == nm:
                        row[j] = None
        order = list(range(len(taxa)))
        rng.shuffle(order)
        taxa, grp, env, rep, vals = ([x[i] for i in order] for x in (taxa, grp, env, rep, vals))
        table = {"taxa": taxa, "grp": grp if with_grp else None, "env": env, "rep": rep, "cols": cols, "vals": vals}
        use_grp = with_grp and rng.random() < 0.7
        tcols = rng.sample(cols, rng.randint(1, ncol))
        case = {"kind": "meanbv", "table": table, "taxa_col": "taxa", "grp_col": "taxa_grp" if use_grp else None,
                "trait_cols": tcols}
        if rng.random() < 0.8:
            gt_names = [nm for nm in table_names if rng.random() < 0.8] + [nm for nm in extra if rng.random() < 0.6]
            if not gt_names:
                gt_names = [table_names[0]]
            if rng.random() < 0.2 and gt_names:        # the same taxon twice in the genotype matrix
                gt_names.append(rng.choice(gt_names))
            rng.shuffle(gt_names)
            case["gt"] = {"taxa": gt_names,
                          "grp": [rng.randint(1, 9) for _ in gt_names] if rng.random() < 0.6 else None}
            perm = list(range(len(gt_names)))
            rng.shuffle(perm)
            case["gt_perm"] = perm
            if with_grp and use_grp and rng.random() < 0.15:
                # partially grouped table: every record of some taxa lacks the group label (NaN in a float column)
                who = {nm for nm in table_names if rng.random() < 0.4}
                table["grp"] = [None if nm in who else g for nm, g in zip(taxa, grp)]
                if all(g is None for g in table["grp"]):
                    table["grp"] = grp
        else:
            case["gt"] = None
            case["gt_perm"] = None
        if use_grp and case["gt"] is not None and not has_nan and table["grp"] is not None and None not in table["grp"] \
                and rng.random() < 0.08:
            # ONE NAME UNDER TWO GROUP LABELS (D61, repaired): some records of a taxon carry another group label
            cnt = {}
            for nm in taxa:
                cnt[nm] = cnt.get(nm, 0) + 1
            multi = [nm for nm in table_names if cnt[nm] >= 2]
            if multi:
                nm = rng.choice(multi)
                idx = [i for i, x in enumerate(taxa) if x == nm]
                other = rng.choice([g for g in (1, 2, 3, 4, -2, 70000) if g != gmap[nm]])
                for i in rng.sample(idx, rng.randint(1, len(idx) - 1)):
                    table["grp"][i] = other
                if nm not in case["gt"]["taxa"]:
                    case["gt"]["taxa"].append(nm)
                    if case["gt"]["grp"] is not None:
                        case["gt"]["grp"].append(rng.choice([gmap[nm], other, 9]))
                    case["gt_perm"] = list(range(len(case["gt"]["taxa"])))
                    rng.shuffle(case["gt_perm"])
        perm = list(range(len(taxa)))
        rng.shuffle(perm)
        case["row_perm"] = perm
        if rng.random() < 0.35:
            f = {}
            if rng.random() < 0.5:
                f["trait"] = rng.choice(["str", "tuple", "gen", "nparray"]) if len(tcols) == 1 else \
                    rng.choice(["tuple", "gen", "nparray"])
            if rng.random() < 0.4:
                f["names"] = True                      # custom column names for taxa / group columns
                case["taxa_col"] = "line"
                if case["grp_col"] is not None:
                    case["grp_col"] = "family"
            if rng.random() < 0.4:
                f["extra_col"] = True                  # a non-numeric column that is not a trait
            if rng.random() < 0.5:
                f["index"] = rng.choice(["shuffled", "str", "offset"])
            if rng.random() < 0.4:
                f["taxa_dtype"] = rng.choice(["str", "category"])
            if int_vals and not has_nan:
                f["val_dtype"] = "int"
            if rng.random() < 0.3:
                f["gt_kind"] = "dpgm"
            if rng.random() < 0.3:
                f["miscout"] = True
            if case["gt"] is not None and case["gt"]["grp"] is not None and rng.random() < 0.3:
                f["gt_grouped"] = True       # group_taxa() called on the genotype matrix (sorted by group, metadata set)
            if f:
                case["forms"] = f
        return case

    def _gen_pipeline(self, rng, finding=False):
        mag = rng.choice(["offset25k", "offset1e9", "tiny"]) if rng.random() < 0.12 else None
        pop = self._pop(rng, n=rng.choice([2, 3, 4, 5]), named=True, mag=mag)
        if finding:
            pop["grp"] = None
        t = self._t(pop)
        n = len(pop["geno"][0])
        nenv = rng.choice([1, 2, 3])
        perm = list(range(n))
        rng.shuffle(perm)
        case = {"kind": "pipeline", "pop": pop, "nenv": nenv,
                "nrep": rng.choice([1, 2, 3]) if rng.random() < 0.6 else [rng.randint(1, 3) for _ in range(nenv)],
                "var_env": self._variance(rng, t), "var_rep": self._variance(rng, t), "var_err": self._variance(rng, t),
                "seed": rng.randrange(2 ** 31), "use_grp": True if finding else (pop["grp"] is not None and rng.random() < 0.6),
                "gt_perm": perm}
        r = rng.random()
        if r < 0.25:
            case["src"] = "true"               # TruePhenotyping frame (one record per taxon) into estimate()
        elif r < 0.35:
            case["nenv"], case["nrep"] = 1, 1  # one record per taxon out of the field trial
        if rng.random() < 0.5:
            case["frame_op"] = rng.choice(["iloc_perm", "sample", "mask", "reset", "sort_values"])
            case["frame_seed"] = rng.randrange(2 ** 31)
        return case

    def _gen_stat(self, rng):
        t = rng.choice([1, 2, 3])
        mag = "offset25k" if rng.random() < 0.2 else None
        pop = self._pop(rng, n=rng.choice([3, 4]), mag=mag, nphase=2)
        pop.pop("ud", None)
        pop["u"] = [row[:1] * t for row in pop["u"]]
        pop["beta"] = [row[:1] * t for row in pop["beta"]]
        pop["trait"] = None
        zero_ok = rng.random() < 0.5

        def v():
            out = [canon.enc(rng.choice([Fraction(1, 4), 1, 4, 9] + ([0] if zero_ok else []))) for _ in range(t)]
            return out if rng.random() < 0.8 else out[0]
        r = rng.random()
        if r < 0.40:
            nenv, nrep = rng.choice([350, 450]), 2
        elif r < 0.75:
            nenv = rng.choice([450, 600])
            nrep = [rng.choice([1, 2, 3]) for _ in range(nenv)]
        else:
            # very many single-replicate environments of few taxa (the replicate effect is then confounded with the
            # environment effect, its variance must still be in the records)
            nenv, nrep = 1500, 1
            pop["geno"] = [[row for row in ph[:2]] for ph in pop["geno"]]
            for key in ("taxa", "grp"):
                if pop.get(key) is not None:
                    pop[key] = pop[key][:2]
        case = {"kind": "stat", "pop": pop, "nenv": nenv, "nrep": nrep,
                "var_env": v(), "var_rep": v(), "var_err": v(), "seed": rng.randrange(2 ** 31)}
        r2 = rng.random()
        if r2 < 0.4:
            # the protocol is constructed with OTHER variances (and a smaller trial) and brought to the requested
            # configuration through its setters, in a random order, before the trial is run
            case["init"] = {"var_env": v(), "var_rep": v(), "var_err": v(), "nenv": 2, "nrep": 1}
            order = ["var_env", "var_rep", "var_err", "layout"]
            rng.shuffle(order)
            case["post"] = order
        elif r2 < 0.6:
            # a secondary route to the same protocol (copy / deepcopy / HDF5 round trip)
            case["forms"] = {"via": rng.choice(["copy", "deepcopy", "hdf5"])}
        elif r2 < 0.8 and any(any(Fraction(x) != 0 for x in row) for row in pop["u"]):
            # the error variance comes from a heritability target: the realised error variance must then be
            # (1 - h2)/h2 * var_A of the phenotyped population, i.e. genetic/(genetic + realised error) variance = target
            case["h2"] = canon.enc(rng.choice([Fraction(1, 2), Fraction(1, 4), Fraction(3, 4), Fraction(1, 8)]))
            case["h2_which"] = rng.choice(["h2", "H2"])
        return case

    def _gen_reject(self, rng):
        pop = self._pop(rng, n=rng.choice([2, 3]))
        t = self._t(pop)
        what = rng.choice(["nrep_zero", "nrep_array_zero", "nrep_array_length", "h2_above_one", "negative_variance"])
        case = {"kind": "reject", "pop": pop, "what": what, "nenv": rng.choice([2, 3])}
        if what == "nrep_zero":
            case["nrep"] = 0
        elif what == "nrep_array_zero":
            case["nrep"] = [1] * (case["nenv"] - 1) + [0]
        elif what == "nrep_array_length":
            case["nrep"] = [1] * (case["nenv"] + rng.choice([-1, 1]))
        elif what == "h2_above_one":
            case["h2"] = [canon.enc(rng.choice([Fraction(3, 2), 2, Fraction(9, 8)]))] * t
        else:
            case["var_err"] = [-1] * t
        return case

    # ---------------------------------------------------------------- histories on one object
    def _gen_phist(self, rng, d60=False):
        mag = rng.choice(["offset25k", "tiny"]) if rng.random() < 0.1 else None
        pop = self._pop(rng, n=rng.choice([2, 3, 3, 4, 5]), mag=mag, nphase=2)
        t = self._t(pop)
        n = len(pop["geno"][0])
        p = len(pop["geno"][0][0])
        case = {"kind": "phist", "pop": pop, "seed": rng.randrange(2 ** 31)}
        if rng.random() < 0.5:                # a second population over the same markers (other taxa, other size)
            nb = rng.choice([2, 3, 4])
            case["popB"] = {"geno": [[[rng.randint(0, 1) for _ in range(p)] for _ in range(nb)] for _ in range(2)],
                            "taxa": self._names(rng, nb) if pop["taxa"] is not None else None,
                            "grp": [rng.randint(1, 3) for _ in range(nb)] if pop["grp"] is not None else None}
        # a second genomic model of the same shape (other effects, other intercept)
        case["u2"] = [[rng.choice([-4, -1, 1, 2, 6]) for _ in range(t)] for _ in range(p)]
        case["beta2"] = [[rng.randint(-5, 20) for _ in range(t)]]
        if "ud" in pop:
            case["ud2"] = [[rng.choice([-1, 0, 2]) for _ in range(t)] for _ in range(p)]
        nenv = rng.choice([1, 2, 3])
        nrep = rng.choice([1, 2]) if (d60 or rng.random() < 0.5) else [rng.randint(1, 2) for _ in range(nenv)]
        case["nenv"], case["nrep"] = nenv, nrep
        zero_start = rng.random() < 0.4
        for k in ("var_env", "var_rep", "var_err"):
            case[k] = rng.choice([None, 0]) if zero_start else self._variance(rng, t)
        pgs = ["A", "B"] if "popB" in case else ["A"]
        if d60:
            # regression histories for the repaired D60: nenv raised over a broadcast scalar nrep, nothing else
            case["steps"] = ([{"op": "pheno", "pg": "A"}] if rng.random() < 0.5 else []) + \
                [{"op": "set", "attr": "nenv", "value": nenv + rng.choice([1, 2])}, {"op": "pheno", "pg": rng.choice(pgs)}]
            return case
        forms = self._forms(rng, 0.2)
        if forms:
            case["forms"] = forms
        st = {"nenv": nenv, "npheno": 0, "arr": _nrep_list(nenv, nrep)}
        steps = []

        def pheno(pg=None):
            st["npheno"] += 1
            return {"op": "pheno", "pg": pg or rng.choice(pgs)}

        def set_h2(pg=None):
            return {"op": "set_h2", "which": rng.choice(["h2", "h2", "H2"]), "h2": self._h2_value(rng, t),
                    "pg": pg or rng.choice(pgs)}

        def edit(who):
            nn = n if who == "A" else len(case["popB"]["geno"][0])
            if nn >= 2 and rng.random() < 0.5:       # one taxon becomes a clone of another
                i, j = rng.sample(range(nn), 2)
                return {"op": "edit", "pg": who, "cells": [[ph, i, k, None, j] for ph in range(2) for k in range(p)]}
            return {"op": "edit", "pg": who,
                    "cells": [[rng.randrange(2), rng.randrange(nn), rng.randrange(p), rng.randint(0, 1)]
                              for _ in range(rng.randint(1, 2 * p))]}

        def setter():
            """one or two setter calls that leave a consistent configuration"""
            attr = rng.choice(["nenv", "nrep", "nrep", "var_env", "var_rep", "var_err", "var_err"])
            if attr == "nenv":
                new = rng.choice([x for x in (1, 2, 3, 4) if x != st["nenv"]])
                st["nenv"] = new
                arr = st["arr"]
                if new < len(arr):                      # fewer environments: the counts of the first ones are kept
                    st["arr"] = arr[:new]
                    if rng.random() < 0.6:
                        return [{"op": "set", "attr": "nenv", "value": new}]
                elif len(set(arr)) == 1 and rng.random() < 0.6:     # more environments over a constant array: re-broadcast
                    st["arr"] = [arr[0]] * new
                    return [{"op": "set", "attr": "nenv", "value": new}]
                elif len(set(arr)) != 1 and rng.random() < 0.25:
                    # more environments over a NON-constant array: no count for the new ones - a trial is refused until
                    # `nrep` is assigned
                    val = [rng.randint(1, 2) for _ in range(new)]
                    st["arr"] = val
                    return [{"op": "set", "attr": "nenv", "value": new}, {"op": "pheno", "pg": rng.choice(pgs)},
                            {"op": "set", "attr": "nrep", "value": val}]
                val = rng.choice([1, 2]) if rng.random() < 0.5 else [rng.randint(1, 2) for _ in range(new)]
                st["arr"] = _nrep_list(new, val)
                return [{"op": "set", "attr": "nenv", "value": new}, {"op": "set", "attr": "nrep", "value": val}]
            if attr == "nrep":
                val = rng.choice([1, 2, 3]) if rng.random() < 0.5 else [rng.randint(1, 3) for _ in range(st["nenv"])]
                st["arr"] = _nrep_list(st["nenv"], val)
                return [{"op": "set", "attr": "nrep", "value": val}]
            return [{"op": "set", "attr": attr,
                     "value": rng.choice([None, 0]) if rng.random() < 0.4 else self._variance(rng, t)}]

        def disturb(who):
            """something that must invalidate whatever the object remembered about the previous call"""
            r = rng.random()
            if r < 0.40:
                return [edit(who)]
            if r < 0.70:
                return [{"op": "gpmod"}]
            if r < 0.85:
                return setter()
            return [{"op": "read", "what": rng.choice(["var_A", "var_G", "gegv", "gebv", "attrs"]), "pg": who}, edit(who)]

        for _ in range(rng.randint(1, 3)):
            r = rng.random()
            who = rng.choice(pgs)
            if r < 0.30:        # heritability set, state disturbed, heritability set again on the SAME founder object
                steps += [set_h2(who)] + disturb(who) + [set_h2(who)]
                if rng.random() < 0.5:
                    steps.append(pheno(who))
            elif r < 0.60:      # trial, state disturbed, trial again on the SAME population object
                steps += [pheno(who)] + disturb(who) + [pheno(who)]
            elif r < 0.70:      # a frame returned earlier is overwritten by its owner
                steps += [pheno(who), {"op": "mutate_out", "which": st["npheno"] - 1}, pheno(who)]
            elif r < 0.82:      # the protocol is cloned (copy / deepcopy / HDF5 round trip) mid-way
                steps += setter() + [{"op": "clone", "how": rng.choice(["copy", "deepcopy", "hdf5"])}, pheno(who)]
            elif r < 0.92:
                steps += setter() + [pheno(who)] + setter() + [pheno(rng.choice(pgs))]
            else:
                steps += [{"op": "read", "what": rng.choice(["var_A", "var_G", "gegv", "gebv", "attrs"]), "pg": who},
                          set_h2(who), pheno(who)]
        case["steps"] = steps
        return case

    def _h2_value(self, rng, t):
        targets = self.H2_TARGETS[:10]
        return canon.enc(rng.choice(targets)) if rng.random() < 0.6 else [canon.enc(rng.choice(targets)) for _ in range(t)]

    def _gen_ehist(self, rng):
        def unfit(c):
            # (histories keep one group label per name: tables with a name under two labels - D61 - are single-call cases)
            tb = c["table"]
            return any(v is None for row in tb["vals"] for v in row) or len(tb["taxa"]) > 40 \
                or (tb["grp"] is not None and None in tb["grp"]) or bool(self._split_names(tb, "taxa_grp"))
        base = self._gen_meanbv(rng)
        while base["gt"] is None or unfit(base):
            base = self._gen_meanbv(rng)
        other = self._gen_meanbv(rng)
        while unfit(other):
            other = self._gen_meanbv(rng)
        t0 = base["table"]
        # the second table carries the columns of the first (so that one estimator configuration serves both) and shares
        # some taxa with it
        t1 = dict(other["table"])
        t1["cols"] = list(t0["cols"])
        ncol = len(t0["cols"])
        t1["vals"] = [[canon.enc(Fraction(rng.randint(-40, 40), 2)) for _ in range(ncol)] for _ in t1["taxa"]]
        names0 = sorted(set(t0["taxa"]))
        ren = {nm: rng.choice(names0) for nm in set(t1["taxa"]) if rng.random() < 0.5}
        gm0 = {}
        if t0["grp"] is not None:
            for nm, g in zip(t0["taxa"], t0["grp"]):
                gm0[nm] = g
        t1["taxa"] = [ren.get(nm, nm) for nm in t1["taxa"]]
        if t0["grp"] is None:
            t1["grp"] = None
        else:
            # one group label per name in the second table too (taxon identity = name)
            gm1 = {}
            for nm in t1["taxa"]:
                gm1.setdefault(nm, gm0.get(nm, rng.randint(1, 4)))
            t1["grp"] = [gm1[nm] for nm in t1["taxa"]]
        case = {"kind": "ehist", "tables": [t0, t1], "gt": base["gt"], "taxa_col": "taxa", "grp_col": base["grp_col"] and "taxa_grp",
                "trait_cols": base["trait_cols"]}
        steps = [{"op": "est", "table": 0, "gt": True}]
        nest = 1
        for _ in range(rng.randint(2, 5)):
            r = rng.random()
            if r < 0.30:
                tb = rng.randrange(2)
                tab = case["tables"][tb]
                cells = [[rng.randrange(len(tab["taxa"])), rng.choice(tab["cols"]), canon.enc(Fraction(rng.randint(-80, 80), 2))]
                         for _ in range(rng.randint(1, 4))]
                steps.append({"op": "edit", "table": tb, "cells": cells})
                steps.append({"op": "est", "table": tb, "gt": rng.random() < 0.8})
                nest += 1
            elif r < 0.45:
                tb = rng.randrange(2)
                steps.append({"op": "relabel", "table": tb, "row": rng.randrange(len(case["tables"][tb]["taxa"])),
                              "to": rng.choice(names0)})
                steps.append({"op": "est", "table": tb, "gt": True})
                nest += 1
            elif r < 0.60:
                steps.append({"op": "set", "attr": "trait_cols", "value": rng.sample(t0["cols"], rng.randint(1, ncol))})
                steps.append({"op": "est", "table": rng.randrange(2), "gt": True})
                nest += 1
            elif r < 0.70 and t0["grp"] is not None:
                steps.append({"op": "set", "attr": "taxa_grp_col", "value": rng.choice([None, "taxa_grp"])})
                steps.append({"op": "est", "table": rng.randrange(2), "gt": True})
                nest += 1
            elif r < 0.80:
                steps.append({"op": "zero_out", "which": rng.randrange(nest)})
            else:
                steps.append({"op": "est", "table": rng.randrange(2), "gt": rng.random() < 0.8})
                nest += 1
        case["steps"] = steps
        return case

    def generate(self, rng, n, tier):
        out = []
        for i in range(n):
            r = rng.random()
            if r < 0.03:
                out.append(self._gen_reject(rng))
            elif r < 0.36:
                out.append(self._gen_pheno(rng))
            elif r < 0.50:
                out.append(self._gen_h2(rng))
            elif r < 0.76:
                out.append(self._gen_meanbv(rng))
            elif r < 0.855:
                out.append(self._gen_pipeline(rng))
            elif r < 0.87:
                out.append(self._gen_pipeline(rng, finding=True))
            elif r < 0.925:
                out.append(self._gen_phist(rng))
            elif r < 0.935:
                out.append(self._gen_phist(rng, d60=True))
            elif r < 0.975:
                out.append(self._gen_ehist(rng))
            else:
                out.append(self._gen_stat(rng))
        return out

    # ================================================================================ exhaustive small scope
    def exhaustive(self, tier):
        """thorough tier: EVERY phenotype table of 1-4 records over 2 names x 2 groups (record i carries the value 2**i, so a
        mean identifies the set of records it was taken over), estimated without and with the group column, against EVERY
        genotype list of 1-2 entries over {a, b, c} (c never phenotyped), three lists of 3 entries and no genotype matrix: 10 880 cases.
        With the group column, tables in which one name occurs under both groups are judged by `_spec_two_groups` when a
        genotype matrix is supplied (D61, repaired: the records of the name are pooled) and kept as correspondence-only cases
        without one (the aggregated frame then has one row per (name, group) pair)."""
        if tier != "thorough":
            return None
        import itertools
        keys = [(nm, g) for nm in ("a", "b") for g in (1, 2)]
        # (row i of the result depends on gtTaxa[i] only - `meanBV_aligned` - so all lists of 1-2 entries plus a few of 3)
        gts = [list(x) for k in (1, 2) for x in itertools.product("abc", repeat=k)] + \
            [["c", "a", "b"], ["b", "b", "a"], ["a", "c", "c"]] + [None]
        out = []
        for nrec in (1, 2, 3, 4):
            for recs in itertools.product(keys, repeat=nrec):
                table = {"taxa": [r[0] for r in recs], "grp": [r[1] for r in recs], "env": list(range(1, nrec + 1)),
                         "rep": [1] * nrec, "cols": ["y"], "vals": [[2 ** i] for i in range(nrec)]}
                functional = all(len({g for nm2, g in recs if nm2 == nm}) <= 1 for nm in ("a", "b"))
                for grp_col in (None, "taxa_grp"):
                    for gt in gts:
                        c = {"kind": "meanbv", "table": table, "taxa_col": "taxa", "grp_col": grp_col, "trait_cols": ["y"],
                             "gt": None if gt is None else {"taxa": gt, "grp": None},
                             "gt_perm": None if gt is None else list(range(1, len(gt))) + [0],
                             "row_perm": list(range(nrec))[::-1], "_exhaustive": True}
                        if grp_col is not None and not functional and gt is None:
                            c["corr_only"] = True
                        out.append(c)
        return out

    # ================================================================================ implementation
    def _protocol(self, m, case, gm, rng_obj):
        t = self._t(case["pop"])
        f = case.get("forms") or {}
        nenv = int(case["nenv"])
        if f.get("nenv") == "np64":
            nenv = numpy.int64(nenv)
        elif f.get("nenv") == "np32":
            nenv = numpy.int32(nenv)
        vf = f.get("var")
        pt = m["gep"].G_E_Phenotyping(
            gm, nenv=nenv, nrep=_nrep_arg(case["nrep"], f.get("nrep")),
            var_env=_var(case.get("var_env"), t, vf), var_rep=_var(case.get("var_rep"), t, vf),
            var_err=_var(case.get("var_err"), t, vf), rng=rng_obj)
        return self._via(m, pt, f.get("via"), gm, rng_obj)

    @staticmethod
    def _via(m, pt, how, gm, rng_obj):
        """the same protocol reached through a secondary route: copy(), deepcopy(), to_hdf5() + from_hdf5()"""
        if how == "copy":
            pt = pt.copy()
        elif how == "deepcopy":
            pt = pt.deepcopy()
        elif how == "hdf5":
            fd, fn = tempfile.mkstemp(suffix=".h5", prefix="c14_")
            os.close(fd)
            os.remove(fn)
            try:
                pt.to_hdf5(fn)
                pt = m["gep"].G_E_Phenotyping.from_hdf5(fn, gpmod=pt.gpmod)
            finally:
                if os.path.exists(fn):
                    os.remove(fn)
            pt.rng = rng_obj
        return pt

    @staticmethod
    def _apply_cfg_ops(pt, ops, t, vf=None):
        for op in ops:
            a, v = op["attr"], op["value"]
            if a == "nenv":
                pt.nenv = int(v)
            elif a == "nrep":
                pt.nrep = _nrep_arg(v)
            else:
                setattr(pt, a, _var(v, t, vf))

    @staticmethod
    def _refused_obs(pt, e):
        return {"raised": canon.exc_tag(e), "nrep": [int(x) for x in pt.nrep], "nenv_attr": int(pt.nenv),
                "var": {kk: canon.enc(getattr(pt, kk)) for kk in ("var_env", "var_rep", "var_err")}}

    def _trait_names(self, df):
        return [c for c in df.columns if c not in ("taxa", "taxa_grp", "env", "rep")]

    def _observe_pheno(self, m, pg, gm, pt, g, tp, tbv, log_from=0, miscout=False):
        """one phenotype() call on `pt` + the noiseless protocols, in the shape the `pheno` judge reads"""
        geno0 = pg.mat.copy()
        df = pt.phenotype(pg, miscout={}) if miscout else pt.phenotype(pg)
        gv = gm.gegv(pg).unscale()
        tcols = self._trait_names(df)
        tdf = tp.phenotype(pg)
        tb = tbv.estimate(None, pg)
        log = [] if g is None else g.log[log_from:]
        draws = [] if g is None else g.draws[log_from:]
        obs = {"cols": [str(c) for c in df.columns], "rows": _frame_rows(df, tcols),
               "gv": canon.enc(gv), "nrep": [int(x) for x in pt.nrep], "nenv_attr": int(pt.nenv),
               "var": {kk: canon.enc(getattr(pt, kk)) for kk in ("var_env", "var_rep", "var_err")},
               "log": log, "draws": _enc_draws(draws), "leftover": 0 if g is None else len(g.script),
               "true_cols": [str(c) for c in tdf.columns],
               "true_rows": _frame_rows(tdf, [c for c in tdf.columns if c not in ("taxa", "taxa_grp")]),
               "truebv": _bv_obs(tb),
               "input_untouched": bool((geno0 == pg.mat).all())}
        return obs, df

    def run_impl(self, case):
        m = _mods()
        k = case["kind"]
        if k == "pheno":
            pg, gm = _population(m, case["pop"])
            if case.get("rng_none"):
                g = None
            elif case["mode"] == "scripted":
                g = _Scripted(_flatten_script(case["script"]))
            elif case.get("legacy_rng"):
                g = _RecordingRS(case["seed"])
            else:
                g = _Recording(case["seed"])
            pt = self._protocol(m, case, gm, g)
            self._apply_cfg_ops(pt, _cfg_ops(case), self._t(case["pop"]))      # public setters, after construction
            args = (m["tp"].TruePhenotyping(gm), m["tbv"].TrueBreedingValue(gm))
            mo = bool((case.get("forms") or {}).get("miscout"))
            try:
                obs, _ = self._observe_pheno(m, pg, gm, pt, g, *args, miscout=mo)
            except Exception as e:
                if isinstance(e, ValueError) and _layout(case) is None:
                    # a configuration without a replicate count for every environment is MEANT to be refused
                    return self._refused_obs(pt, e)
                if case["mode"] != "scripted":
                    raise
                # the scripted stream assumes the call order of the model; a rewrite that draws in another order is a broken
                # correspondence, not a crash of the code: observe the same configuration with a genuine generator
                g2 = _Recording(20240914)
                pt.rng = g2
                obs, _ = self._observe_pheno(m, pg, gm, pt, g2, *args, miscout=mo)
                obs["script_failed"] = f"{type(e).__name__}: {e}"[:200]
            return obs
        if k == "h2":
            pg, gm = _population(m, case["pop"])
            init = case.get("init")
            if init:
                g0 = numpy.random.default_rng(0)
                pt = self._protocol(m, dict(case, **init, forms={"via": init.get("via")}), gm, g0)
            else:
                pt = m["gep"].G_E_Phenotyping(gm, nenv=1, nrep=1, rng=numpy.random.default_rng(0))
            before = {kk: canon.enc(getattr(pt, kk)) for kk in ("var_env", "var_rep")}
            lay0 = ([int(x) for x in pt.nrep], int(pt.nenv))
            for _ in range(2 if case.get("twice") else 1):
                arg = self._h2_arg(case["h2"], case.get("h2_form"))
                if case["which"] == "h2":
                    va = gm.var_A(pg)
                    pt.set_h2(arg, pg)
                else:
                    va = gm.var_G(pg)
                    pt.set_H2(arg, pg)
            after = {kk: canon.enc(getattr(pt, kk)) for kk in ("var_env", "var_rep")}
            return {"varA": canon.enc(va), "varErr": canon.enc(pt.var_err), "gv": canon.enc(gm.gegv(pg).unscale()),
                    "others_untouched": before == after and lay0 == ([int(x) for x in pt.nrep], int(pt.nenv))}
        if k == "meanbv":
            return self._run_meanbv(m, case)
        if k == "pipeline":
            return self._run_pipeline(m, case)
        if k == "stat":
            return self._run_stat(m, case)
        if k == "phist":
            return self._run_phist(m, case)
        if k == "ehist":
            return self._run_ehist(m, case)
        if k == "reject":
            pg, gm = _population(m, case["pop"])
            t = self._t(case["pop"])
            try:
                if case["what"].startswith("nrep"):
                    m["gep"].G_E_Phenotyping(gm, nenv=int(case["nenv"]), nrep=_nrep_arg(case["nrep"]),
                                             rng=numpy.random.default_rng(0))
                elif case["what"] == "h2_above_one":
                    pt = m["gep"].G_E_Phenotyping(gm, nenv=1, nrep=1, rng=numpy.random.default_rng(0))
                    pt.set_h2(numpy.array([_f(v) for v in case["h2"]]), pg)
                    return {"raised": None, "varErr": canon.enc(pt.var_err), "varA": canon.enc(gm.var_A(pg))}
                else:
                    m["gep"].G_E_Phenotyping(gm, nenv=1, nrep=1, var_err=_var(case["var_err"], t),
                                             rng=numpy.random.default_rng(0))
                return {"raised": None}
            except (ValueError, TypeError) as e:       # inputs that are MEANT to be rejected
                return {"raised": canon.exc_tag(e)}
        raise ValueError(k)

    @staticmethod
    def _h2_arg(h2, form=None):
        if isinstance(h2, list):
            vals = [Fraction(v) for v in h2]
            if form == "f32array" and all(Fraction(float(numpy.float32(float(v)))) == v for v in vals):
                return numpy.array([float(v) for v in vals], dtype="float32")
            return numpy.array([float(v) for v in vals], dtype=float)
        v = Fraction(h2)
        if form == "int" and v == 1:
            return 1
        if form == "np32" and Fraction(float(numpy.float32(float(v)))) == v:
            return numpy.float32(float(v))
        if form == "np64":
            return numpy.float64(float(v))
        return float(v)

    # ---------------------------------------------------------------- pipeline
    def _run_pipeline(self, m, case):
        pg, gm = _population(m, case["pop"])
        if case.get("src") == "true":
            df = m["tp"].TruePhenotyping(gm).phenotype(pg)
            tcols = [c for c in df.columns if c not in ("taxa", "taxa_grp")]
            if "taxa_grp" not in df.columns:
                df["taxa_grp"] = None
        else:
            pt = self._protocol(m, case, gm, numpy.random.default_rng(int(case["seed"])))
            df = pt.phenotype(pg)
            tcols = self._trait_names(df)
        rows0 = _frame_rows(df, tcols)
        op = case.get("frame_op")
        fr = numpy.random.default_rng(int(case.get("frame_seed", 0)))
        if op == "iloc_perm":
            df = df.iloc[fr.permutation(len(df))]                # rows permuted, index labels kept
        elif op == "sample":
            df = df.sample(frac=1.0, random_state=int(case.get("frame_seed", 0)))
        elif op == "mask":
            keep = fr.random(len(df)) < 0.6
            keep[int(fr.integers(len(df)))] = True
            df = df[keep]                                          # a subset, index labels kept
        elif op == "reset":
            df = df.iloc[fr.permutation(len(df))].reset_index(drop=True)
        elif op == "sort_values":
            df = df.sort_values(by=[tcols[0], "taxa"], kind="stable")
        perm = case["gt_perm"]
        gt = m["dgm"].DenseGenotypeMatrix(
            numpy.zeros((len(perm), 1), dtype="int8"),
            taxa=numpy.array([case["pop"]["taxa"][i] for i in perm], dtype=object),
            taxa_grp=None if case["pop"]["grp"] is None else numpy.array([case["pop"]["grp"][i] for i in perm], dtype=int))
        est = m["mbv"].MeanPhenotypicBreedingValue("taxa", "taxa_grp" if case["use_grp"] else None, tcols)
        bv = est.estimate(df, gt)
        return {"rows": rows0, "rows_est": _frame_rows(df, tcols), "tcols": [str(c) for c in tcols], "bv": _bv_obs(bv),
                "gt_taxa": [str(x) for x in gt.taxa],
                "gt_grp": None if gt.taxa_grp is None else [int(x) for x in gt.taxa_grp],
                "gv": canon.enc(gm.gegv(pg).unscale())}

    # ---------------------------------------------------------------- mean-phenotype estimation
    def _table_df(self, m, table, order=None, taxa_col="taxa", grp_name="taxa_grp", forms=None):
        pandas = m["pandas"]
        forms = forms or {}
        idx = list(range(len(table["taxa"]))) if order is None else list(order)
        d = {taxa_col: numpy.array([table["taxa"][i] for i in idx], dtype=object)}
        if table.get("grp") is None:
            d[grp_name] = None                      # what phenotype() emits for an ungrouped population
        elif any(g is None for g in table["grp"]):
            d[grp_name] = numpy.array([float("nan") if table["grp"][i] is None else float(table["grp"][i]) for i in idx])
        else:
            d[grp_name] = numpy.array([table["grp"][i] for i in idx], dtype=int)
        d["env"] = numpy.array([table["env"][i] for i in idx], dtype=int)
        d["rep"] = numpy.array([table["rep"][i] for i in idx], dtype=int)
        if forms.get("extra_col"):
            d["note"] = numpy.array([f"plot {i}" for i in idx], dtype=object)
        for j, c in enumerate(table["cols"]):
            col = [float("nan") if table["vals"][i][j] is None else _f(table["vals"][i][j]) for i in idx]
            if forms.get("val_dtype") == "int":
                d[c] = numpy.array([int(v) for v in col], dtype="int64")
            else:
                d[c] = numpy.array(col, dtype=float)
        df = pandas.DataFrame(d)
        if forms.get("taxa_dtype") == "str":
            df[taxa_col] = df[taxa_col].astype("str")
        elif forms.get("taxa_dtype") == "category":
            df[taxa_col] = df[taxa_col].astype("category")
        ix = forms.get("index")
        if ix == "shuffled":
            lab = list(range(len(df)))
            numpy.random.default_rng(len(df)).shuffle(lab)
            df.index = lab
        elif ix == "str":
            df.index = [f"r{i}" for i in range(len(df))][::-1]
        elif ix == "offset":
            df.index = [1000 + 3 * i for i in range(len(df))]
        return df

    def _gt(self, m, gt, order=None, kind=None, grouped=False):
        idx = list(range(len(gt["taxa"]))) if order is None else list(order)
        taxa = numpy.array([gt["taxa"][i] for i in idx], dtype=object)
        grp = None if gt.get("grp") is None else numpy.array([gt["grp"][i] for i in idx], dtype=int)
        if kind == "dpgm":
            out = m["dpgm"].DensePhasedGenotypeMatrix(numpy.zeros((2, len(idx), 1), dtype="int8"), taxa=taxa, taxa_grp=grp)
        else:
            out = m["dgm"].DenseGenotypeMatrix(numpy.zeros((len(idx), 1), dtype="int8"), taxa=taxa, taxa_grp=grp)
        if grouped and grp is not None:
            out.group_taxa()
        return out

    @staticmethod
    def _gt_seen(gt):
        """the labels of the genotype matrix AS SUPPLIED (after an optional group_taxa())"""
        return {"taxa": [str(x) for x in gt.taxa], "grp": None if gt.taxa_grp is None else [int(x) for x in gt.taxa_grp]}

    @staticmethod
    def _trait_arg(tcols, form):
        if form == "str" and len(tcols) == 1:
            return tcols[0]
        if form == "tuple":
            return tuple(tcols)
        if form == "gen":
            return (c for c in tcols)
        if form == "nparray":
            return numpy.array(tcols, dtype=object)
        return list(tcols)

    def _run_meanbv(self, m, case):
        f = case.get("forms") or {}
        grp_name = case["grp_col"] if case["grp_col"] is not None else ("family" if f.get("names") else "taxa_grp")
        est = m["mbv"].MeanPhenotypicBreedingValue(case["taxa_col"], case["grp_col"], self._trait_arg(case["trait_cols"], f.get("trait")))
        kw = {"miscout": {}} if f.get("miscout") else {}
        mk = lambda order=None: self._table_df(m, case["table"], order, case["taxa_col"], grp_name, f)
        df = mk()
        snap = df.copy(deep=True)
        gg = bool(f.get("gt_grouped"))
        gt = None if case.get("gt") is None else self._gt(m, case["gt"], None, f.get("gt_kind"), gg)
        out = {}
        if gt is not None:
            out["gt_seen"] = self._gt_seen(gt)
        out["base"] = _bv_obs(est.estimate(df, gt, **kw))
        out["input_untouched"] = bool(snap.equals(df))
        dfp = mk(case["row_perm"])
        out["rowperm"] = _bv_obs(est.estimate(dfp, gt, **kw))
        if gt is not None and case.get("gt_perm") is not None:
            gt2 = self._gt(m, case["gt"], case["gt_perm"], f.get("gt_kind"), gg)
            out["gt_seen_perm"] = self._gt_seen(gt2)
            out["gtperm"] = _bv_obs(est.estimate(df, gt2, **kw))
        return out

    # ---------------------------------------------------------------- statistical stream
    def _run_stat(self, m, case):
        pg, gm = _population(m, case["pop"])
        g = _Recording(case["seed"])
        if case.get("init"):
            pt = self._protocol(m, dict(case, **case["init"]), gm, g)
            tt = self._t(case["pop"])
            for what in case["post"]:
                if what == "layout":
                    pt.nenv = int(case["nenv"])
                    pt.nrep = _nrep_arg(case["nrep"])
                else:
                    setattr(pt, what, _var(case[what], tt))
        else:
            pt = self._protocol(m, case, gm, g)
        if case.get("h2") is not None:
            (pt.set_h2 if case.get("h2_which", "h2") == "h2" else pt.set_H2)(float(Fraction(case["h2"])), pg)
        df = pt.phenotype(pg)
        gv = gm.gegv(pg).unscale()
        tcols = self._trait_names(df)
        n, t = gv.shape
        nenv = int(case["nenv"])
        lay = _nrep_list(nenv, case["nrep"])
        vals = df[tcols].to_numpy(dtype=float)
        ok_shape = vals.shape == (n * sum(lay), t)
        res = {"shape_ok": bool(ok_shape), "n": n, "t": t}
        if not ok_shape:
            return res
        # residual of every record from its taxon's true value, looked up through the record's OWN label
        names = [str(x) for x in df["taxa"]]
        first = names[:n]
        pos = {nm: i for i, nm in enumerate(first)}
        resid = numpy.array([vals[k] - gv[pos[names[k]]] for k in range(len(names))])
        env = df["env"].to_numpy()
        rep = df["rep"].to_numpy()
        cells = {}
        order = sorted(range(len(names)), key=lambda k: pos[names[k]])      # within a cell: by taxon, whatever the row order
        for k in order:
            cells.setdefault((int(env[k]), int(rep[k])), []).append(resid[k])
        cells_ok = sorted(cells) == [(e + 1, r + 1) for e, kk in enumerate(lay) for r in range(kk)] and \
            all(len(v) == n for v in cells.values())
        res["cells_ok"] = bool(cells_ok)
        if not cells_ok:
            return res
        cm = {c: numpy.mean(v, axis=0) for c, v in cells.items()}
        within = numpy.mean([numpy.var(v, axis=0, ddof=1) for v in cells.values()], axis=0)       # -> var_err
        # pooled over the environments with >= 2 replicates                                        -> var_rep + var_err/n
        num, den = numpy.zeros(t), 0
        for e, kk in enumerate(lay):
            if kk >= 2:
                num += (kk - 1) * numpy.var([cm[(e + 1, r + 1)] for r in range(kk)], axis=0, ddof=1)
                den += kk - 1
        rep_var = num / max(den, 1)
        em = numpy.array([numpy.mean([cm[(e + 1, r + 1)] for r in range(kk)], axis=0) for e, kk in enumerate(lay)])
        # the errors of one taxon in two replicates of an environment are independent: the difference of its two records,
        # centred within the environment, has variance 2 var_err (pooled over the environments with >= 2 replicates)
        pd_num, pd_den = numpy.zeros(t), 0
        if n >= 2:
            for e, kk in enumerate(lay):
                if kk >= 2:
                    d = numpy.array(cells[(e + 1, 1)]) - numpy.array(cells[(e + 1, 2)])
                    pd_num += (n - 1) * numpy.var(d, axis=0, ddof=1)
                    pd_den += n - 1
        res["pair_diff"] = (pd_num / max(pd_den, 1)).tolist()
        res["pair_df"] = int(pd_den)
        # environments with the same replicate count k are identically distributed: per class -> var_env + (var_rep + var_err/n)/k
        env_var = {}
        for kk in sorted(set(lay)):
            sel = [e for e, k2 in enumerate(lay) if k2 == kk]
            if len(sel) >= 20:
                env_var[str(kk)] = {"est": numpy.var(em[sel], axis=0, ddof=1).tolist(), "df": len(sel) - 1}
        res.update({"within": within.tolist(), "rep_var": rep_var.tolist(), "rep_df": int(den), "env_var": env_var,
                    "gvmax": float(numpy.abs(gv).max()),
                    "cov_ok": self._cov_ok(g.log, case, n, t)[0]})
        return res

    # ---------------------------------------------------------------- histories
    @staticmethod
    def _pop_state(case):
        """mutable copy of the populations / models of a `phist` case"""
        pop = case["pop"]
        A = {"geno": [[list(r) for r in ph] for ph in pop["geno"]], "taxa": pop["taxa"], "grp": pop["grp"]}
        B = None
        if case.get("popB") is not None:
            pb = case["popB"]
            B = {"geno": [[list(r) for r in ph] for ph in pb["geno"]], "taxa": pb["taxa"], "grp": pb["grp"]}
        gm1 = {"beta": pop["beta"], "u": pop["u"], "ud": pop.get("ud"), "trait": pop["trait"]}
        gm2 = {"beta": case["beta2"], "u": case["u2"], "ud": case.get("ud2") if pop.get("ud") is not None else None,
               "trait": pop["trait"]}
        return {"A": A, "B": B}, [gm1, gm2]

    @staticmethod
    def _pseudo_pop(ps, gmj):
        q = {"geno": [[list(r) for r in ph] for ph in ps["geno"]], "taxa": ps["taxa"], "grp": ps["grp"],
             "trait": gmj["trait"], "beta": gmj["beta"], "u": gmj["u"]}
        if gmj.get("ud") is not None:
            q["ud"] = gmj["ud"]
        return q

    def _run_phist(self, m, case):
        pops, gms = self._pop_state(case)
        t = self._t(case["pop"])
        objs = {}
        for key in ("A", "B"):
            if pops[key] is not None:
                objs[key], _ = _population(m, self._pseudo_pop(pops[key], gms[0]))
        _, gmo1 = _population(m, self._pseudo_pop(pops["A"], gms[0]))
        _, gmo2 = _population(m, self._pseudo_pop(pops["A"], gms[1]))
        gmobj = [gmo1, gmo2]
        cur = 0
        g = _Recording(case["seed"])
        pt = self._protocol(m, case, gmobj[0], g)
        tp = m["tp"].TruePhenotyping(gmobj[0])
        tbv = m["tbv"].TrueBreedingValue(gmobj[0])
        # the configuration as the harness tracks it: the constructor arguments + every setter call made since
        ops_so_far = []
        out_steps = []
        frames = []        # (data frame, snapshot of its rows, mutated?)
        vf = (case.get("forms") or {}).get("var")
        for s in case["steps"]:
            op = s["op"]
            if op == "pheno":
                pg = objs[s["pg"]]
                pc = {"kind": "pheno", "pop": self._pseudo_pop(pops[s["pg"]], gms[cur]), "mode": "real",
                      "nenv": case["nenv"], "nrep": case["nrep"], "var_env": case.get("var_env"),
                      "var_rep": case.get("var_rep"), "var_err": case.get("var_err"), "cfg_ops": list(ops_so_far)}
                try:
                    obs, df = self._observe_pheno(m, pg, gmobj[cur], pt, g, tp, tbv, log_from=len(g.log))
                except ValueError as e:
                    if _layout(pc) is not None:
                        raise
                    out_steps.append({"type": "pheno", "case": pc, "obs": self._refused_obs(pt, e)})
                    continue
                out_steps.append({"type": "pheno", "case": pc, "obs": obs})
                frames.append([df, _frame_rows(df, self._trait_names(df)), False])
            elif op == "set":
                attr, val = s["attr"], s["value"]
                self._apply_cfg_ops(pt, [{"attr": attr, "value": val}], t, vf)
                ops_so_far.append({"attr": attr, "value": val})
            elif op == "set_h2":
                pg = objs[s["pg"]]
                arg = self._h2_arg(s["h2"])
                dom = s["which"] == "H2"
                if dom:
                    va = gmobj[cur].var_G(pg)
                    pt.set_H2(arg, pg)
                else:
                    va = gmobj[cur].var_A(pg)
                    pt.set_h2(arg, pg)
                pp = self._pseudo_pop(pops[s["pg"]], gms[cur])
                pc = {"kind": "h2", "pop": pp, "which": s["which"], "h2": s["h2"]}
                out_steps.append({"type": "h2", "case": pc,
                                  "obs": {"varA": canon.enc(va), "varErr": canon.enc(pt.var_err),
                                          "gv": canon.enc(gmobj[cur].gegv(pg).unscale())}})
                h2 = [Fraction(x) for x in (s["h2"] if isinstance(s["h2"], list) else [s["h2"]] * t)]
                ops_so_far.append({"attr": "var_err",
                                   "value": [canon.enc((1 - h) / h * v) for h, v in zip(h2, _var_exact(pp, dom))]})
            elif op == "edit":
                pg = objs[s["pg"]]
                ps = pops[s["pg"]]
                for c in s["cells"]:
                    ph, i, kk = c[0], c[1], c[2]
                    val = ps["geno"][ph][c[4]][kk] if len(c) > 4 else c[3]
                    pg.mat[ph, i, kk] = val            # in place: the same Python object is handed to later calls
                    ps["geno"][ph][i][kk] = int(val)
            elif op == "gpmod":
                cur = 1 - cur
                pt.gpmod = gmobj[cur]
                tp.gpmod = gmobj[cur]
                tbv.gpmod = gmobj[cur]
            elif op == "read":
                pg = objs[s["pg"]]
                w = s["what"]
                if w == "var_A":
                    pt.gpmod.var_A(pg)
                elif w == "var_G":
                    pt.gpmod.var_G(pg)
                elif w == "gegv":
                    pt.gpmod.gegv(pg).unscale()
                elif w == "gebv":
                    pt.gpmod.gebv(pg).unscale()
                else:
                    (pt.nenv, pt.nrep.sum(), pt.var_env.sum(), pt.var_rep.sum(), pt.var_err.sum(), pg.taxa, pg.taxa_grp)
            elif op == "clone":
                pt = self._via(m, pt, s["how"], gmobj[cur], g)
                if s["how"] == "deepcopy":
                    pt.gpmod = gmobj[cur]              # keep ONE model object per model (later `gpmod` steps toggle them)
            elif op == "mutate_out":
                fr = frames[s["which"]]
                df = fr[0]
                tc = self._trait_names(df)
                df.loc[:, tc] = df[tc].to_numpy() * 0.0 - 12345.0
                df.loc[:, "taxa"] = "overwritten"
                df.loc[:, "env"] = 0
                fr[2] = True
            else:
                raise ValueError(op)
        stable = all(mut or _frame_rows(df, self._trait_names(df)) == snap for df, snap, mut in frames)
        return {"steps": out_steps, "stable": bool(stable)}

    @staticmethod
    def _est_tables(case):
        return json.loads(json.dumps(case["tables"]))

    def _run_ehist(self, m, case):
        tabs = self._est_tables(case)
        dfs = [self._table_df(m, tb) for tb in tabs]
        gmaps = []
        for tb in tabs:
            gm_ = {}
            if tb.get("grp") is not None:
                for nm, gval in zip(tb["taxa"], tb["grp"]):
                    gm_[nm] = gval
            gmaps.append(gm_)
        gt = self._gt(m, case["gt"])
        est = m["mbv"].MeanPhenotypicBreedingValue(case["taxa_col"], case["grp_col"], list(case["trait_cols"]))
        cfg = {"grp_col": case["grp_col"], "trait_cols": list(case["trait_cols"])}
        outs = []          # (matrix object, observation at the time, zeroed?)
        steps = []
        for s in case["steps"]:
            op = s["op"]
            if op == "est":
                tb = tabs[s["table"]]
                bv = est.estimate(dfs[s["table"]], gt if s["gt"] else None)
                o = _bv_obs(bv)
                outs.append([bv, o, False])
                steps.append({"table": json.loads(json.dumps(tb)),
                              "grp_col": cfg["grp_col"], "trait_cols": list(cfg["trait_cols"]), "gt": bool(s["gt"]), "out": o})
            elif op == "edit":
                tb, df = tabs[s["table"]], dfs[s["table"]]
                for row, col, val in s["cells"]:
                    df.loc[df.index[row], col] = _f(val)            # the SAME data-frame object, edited in place
                    tb["vals"][row][tb["cols"].index(col)] = val
            elif op == "relabel":
                tb, df = tabs[s["table"]], dfs[s["table"]]
                row, to = s["row"], s["to"]
                df.loc[df.index[row], "taxa"] = to
                tb["taxa"][row] = to
                if tb.get("grp") is not None:
                    gval = gmaps[s["table"]].setdefault(to, tb["grp"][row])
                    df.loc[df.index[row], "taxa_grp"] = gval
                    tb["grp"][row] = gval
            elif op == "set":
                if s["attr"] == "trait_cols":
                    est.trait_cols = list(s["value"])
                    cfg["trait_cols"] = list(s["value"])
                else:
                    est.taxa_grp_col = s["value"]
                    cfg["grp_col"] = s["value"]
            elif op == "zero_out":
                o = outs[s["which"]]
                o[0].mat[...] = 0.0
                o[2] = True
            else:
                raise ValueError(op)
        stable = all(z or _bv_obs(bv) == o for bv, o, z in outs)
        return {"steps": steps, "stable": bool(stable)}

    # ================================================================================ requests
    @staticmethod
    def _table_recs(table, trait_cols, order=None):
        idx = list(range(len(table["taxa"]))) if order is None else list(order)
        cj = [table["cols"].index(c) for c in trait_cols]
        return [{"taxa": table["taxa"][i], "grp": None if table.get("grp") is None else table["grp"][i],
                 "env": table["env"][i], "rep": table["rep"][i], "vals": [table["vals"][i][j] for j in cj]} for i in idx]

    def _est_requests(self, recs, tc, use, gt, outs):
        """model + Spec requests for estimate() outputs `outs` = [(observation, genotype order or None)] on one table"""
        sfx = "_nan" if any(v is None for r in recs for v in r["vals"]) else ""
        reqs = [{"op": "c14.meanbv" + sfx, "recs": recs, "useGrp": use, "ntrait": len(tc),
                 "gtTaxa": None if gt is None else gt["taxa"]}]
        for o, order in outs:
            if gt is None:
                reqs.append({"op": "c14.spec_meanbv" + sfx + "_nogt", "recs": recs, "ntrait": len(tc),
                             "outTaxa": o["taxa"], "outRows": o["rows"]})
            else:
                tx = gt["taxa"] if order is None else [gt["taxa"][i] for i in order]
                gg = gt.get("grp")
                gg = gg if (gg is None or order is None) else [gg[i] for i in order]
                reqs.append({"op": "c14.spec_meanbv" + sfx, "recs": recs, "ntrait": len(tc), "gtTaxa": tx, "gtGrp": gg,
                             "traits": tc, "outTaxa": o["taxa"], "outGrp": o["grp"], "outTrait": o["trait"],
                             "outRows": o["rows"]})
        return reqs

    def _noise_request(self, case, obs, t):
        nc = self._noise_cells(case, obs, t)
        if nc is None:
            return []
        big = len(obs["rows"]) > self.NOISE_LEAN_MAX
        return [dict(nc, op="c14.spec_noise", genuine=nc["genuine"] and not big)]

    def requests(self, case, obs):
        k = case["kind"]
        pop = case.get("pop")
        if k == "pheno":
            t = self._t(pop)
            cvar = _cfg_state(case)[2]
            zero = all(all(v == 0 for v in _var_vec(cvar[kk], t)) for kk in ("var_env", "var_rep", "var_err"))
            base = {"gv": obs["gv"] if "gv" in obs else canon.enc(_gv_exact(pop)), "taxa": pop["taxa"], "grp": pop["grp"], "trait": pop["trait"], "ntrait": t}
            ops = _cfg_ops(case)
            cfg_req = {"op": "c14.config", "ntrait": t, "ntaxa": len(pop["geno"][0]), "nenv": case["nenv"], "nrep": case["nrep"],
                       "var_env": case.get("var_env"), "var_rep": case.get("var_rep"), "var_err": case.get("var_err"),
                       "ops": ops}
            if "raised" in obs:            # the trial was refused: the model has to refuse the same configuration
                return [{"op": "c14.phenotype", **base, "nenv": case["nenv"], "nrep": case["nrep"], "draws": [],
                         "ops": [o for o in ops if o["attr"] in ("nenv", "nrep")]}, cfg_req]
            lay = _layout(case)
            draws = obs["draws"]
            if case.get("rng_none"):       # package-level generator (not recorded); all variances are zero: zero draws
                n = len(pop["geno"][0])
                draws = []
                for kk in (lay or []):
                    draws.append({"v": [0] * t})
                    for _ in range(kk):
                        draws += [{"v": [0] * t}, {"m": [[0] * t for _ in range(n)]}]
            return [
                {"op": "c14.phenotype", **base, "nenv": case["nenv"], "nrep": case["nrep"], "draws": draws,
                 "ops": [o for o in ops if o["attr"] in ("nenv", "nrep")]},
                # (an undefined layout for which a frame was returned all the same: judged against what `nenv` promises)
                {"op": "c14.spec_pheno", "gv": obs["gv"], "taxa": pop["taxa"], "grp": pop["grp"],
                 "nrep": lay if lay is not None else [1] * _cfg_state(case)[0], "zeroNoise": zero, "rows": obs["rows"]},
                {"op": "c14.truepheno", **base},
                # TruePhenotyping = a noiseless trial with one environment and one replicate
                {"op": "c14.spec_pheno", "gv": obs["gv"], "taxa": pop["taxa"], "grp": pop["grp"], "nrep": [1],
                 "zeroNoise": True, "rows": [dict(r, env=1, rep=1) for r in obs["true_rows"]]},
                # the configuration object: stored attributes, layout, the generator calls phenotype() makes
                cfg_req,
            ] + self._noise_request(case, obs, t)
        if k == "h2":
            t = self._t(pop)
            h2 = case["h2"] if isinstance(case["h2"], list) else [case["h2"]] * t
            dom = case["which"] == "H2"
            # set_h2 uses var_A (variance of breeding values), set_H2 uses var_G (variance of genotypic values);
            # the Spec is given the EXACT genetic variance of the population (the observed one is compared with it)
            return [{"op": "c14.h2", "gv": canon.enc(_gv_exact(pop, dominance=dom)), "ntrait": t, "h2": h2},
                    {"op": "c14.spec_h2", "h2": h2, "varA": canon.enc(_var_exact(pop, dom)), "varErr": obs["varErr"]}]
        if k == "meanbv":
            tc = case["trait_cols"]
            recs = self._table_recs(case["table"], tc)
            gt = case.get("gt")
            if gt is not None and (case.get("forms") or {}).get("gt_grouped"):
                # the genotype matrix was grouped before it was supplied: its labels as supplied are read off the object
                reqs = self._est_requests(recs, tc, case["grp_col"] is not None, obs["gt_seen"],
                                          [(obs["base"], None), (obs["rowperm"], None)])
                if "gtperm" in obs:
                    reqs += self._est_requests(recs, tc, case["grp_col"] is not None, obs["gt_seen_perm"],
                                               [(obs["gtperm"], None)])[1:]
                return reqs
            outs = [(obs["base"], None), (obs["rowperm"], None)]
            if gt is not None and "gtperm" in obs:
                outs.append((obs["gtperm"], case["gt_perm"]))
            return self._est_requests(recs, tc, case["grp_col"] is not None, gt, outs)
        if k == "pipeline":
            tc = obs["tcols"]
            true_src = case.get("src") == "true"
            rows = [dict(r, env=1, rep=1) for r in obs["rows"]] if true_src else obs["rows"]
            return [{"op": "c14.meanbv", "recs": obs["rows_est"], "useGrp": bool(case["use_grp"]), "ntrait": len(tc),
                     "gtTaxa": obs["gt_taxa"]},
                    {"op": "c14.spec_meanbv", "recs": obs["rows_est"], "ntrait": len(tc), "gtTaxa": obs["gt_taxa"],
                     "gtGrp": obs["gt_grp"], "traits": tc, "outTaxa": obs["bv"]["taxa"], "outGrp": obs["bv"]["grp"],
                     "outTrait": obs["bv"]["trait"], "outRows": obs["bv"]["rows"]},
                    {"op": "c14.spec_pheno", "gv": obs["gv"], "taxa": pop["taxa"], "grp": pop["grp"],
                     "nrep": [1] if true_src else _nrep_list(case["nenv"], case["nrep"]), "zeroNoise": true_src,
                     "rows": rows}]
        if k == "stat":
            return []
        if k == "phist":
            reqs = []
            for st in obs["steps"]:
                reqs.extend(self.requests(st["case"], st["obs"]))
            return reqs
        if k == "ehist":
            reqs = []
            gt = case["gt"]
            for st in obs["steps"]:
                recs = self._table_recs(st["table"], st["trait_cols"])
                reqs.extend(self._est_requests(recs, st["trait_cols"], st["grp_col"] is not None,
                                               gt if st["gt"] else None, [(st["out"], None)]))
            return reqs
        if k == "reject":
            t = self._t(pop)
            if case["what"].startswith("nrep"):
                return [{"op": "c14.phenotype", "gv": canon.enc(_gv_exact(pop)), "taxa": pop["taxa"], "grp": pop["grp"],
                         "trait": pop["trait"], "ntrait": t, "nenv": case["nenv"], "nrep": case["nrep"], "draws": []}]
            if case["what"] == "h2_above_one":
                return [{"op": "c14.h2", "gv": canon.enc(_gv_exact(pop, dominance=False)), "ntrait": t, "h2": case["h2"]}]
            return []
        raise ValueError(k)

    # ================================================================================ judge
    def _cov_ok(self, log, case, n, t):
        """(stat stream; the `pheno` judge uses the model's `drawPlan`) the call pattern and the distribution parameters the
        code hands to multivariate_normal: per environment one (t,) draw with cov diag(var_env); per replicate one (t,) draw
        with diag(var_rep) and one (n,t) draw with diag(var_err); all means zero"""
        ve, vr, vx = (_var_vec(case.get(kk), t) for kk in ("var_env", "var_rep", "var_err"))
        if case.get("h2") is not None:
            h = Fraction(case["h2"])
            vx = [(1 - h) / h * v for v in _var_exact(case["pop"], case.get("h2_which", "h2") == "H2")]
        want = []
        for k in (_layout(case) or []):
            want.append((ve, None))
            for _ in range(k):
                want.append((vr, None))
                want.append((vx, n))
        return self._log_matches(log, want, t)

    @staticmethod
    def _log_matches(log, want, t):
        if len(log) != len(want):
            return False, f"{len(log)} draws for {len(want)} expected"
        for call, (v, size) in zip(log, want):
            if call["size"] != size:
                return False, f"size {call['size']} for {size}"
            if any(x != 0 for x in call["mean"]) or len(call["mean"]) != t:
                return False, "non-zero mean"
            cov = call["cov"]
            if len(cov) != t or any(len(r) != t for r in cov):
                return False, f"cov of shape {numpy.shape(cov)}"
            for a in range(t):
                for b in range(t):
                    w = Fraction(v[a]) if a == b else Fraction(0)
                    if abs(Fraction(cov[a][b]) - w) > abs(w) / 10 ** 12:
                        return False, f"cov {cov} for diag({[str(x) for x in v]})"
        return True, "draw parameters ok"

    def _config_ok(self, cfg, obs, t):
        """stored attributes and generator calls of the real object against the model of the configuration object"""
        if "plan" not in cfg:
            return False, "model rejects the configuration"
        if cfg["nenv"] != obs.get("nenv_attr", cfg["nenv"]) or cfg["nrep"] != obs["nrep"]:
            return False, f"stored nenv/nrep {obs.get('nenv_attr')}/{obs['nrep']} for model {cfg['nenv']}/{cfg['nrep']}"
        for kk in ("var_env", "var_rep", "var_err"):
            if not canon.close_enc(cfg[kk], obs["var"][kk], rel=1e-12, abs_=0):
                return False, f"stored {kk} {obs['var'][kk]} for model {cfg[kk]}"
        want = [([canon.dec(x) for x in d["cov"]], d["size"]) for d in cfg["plan"]]
        return self._log_matches(obs["log"], want, t)

    def judge(self, case, obs, answers):
        v = self._judge(case, obs, answers)
        if self._selftest_active and self.signature(case, obs, v).get("cond") == "taxa_grp_col_all_missing":
            v = dict(v, corr=True, spec=True, detail="(known finding D18, neutralised during self-test) " + v["detail"])
        return v

    def _judge(self, case, obs, answers):
        k = case["kind"]
        for a in answers:
            if "err" in a:
                raise RuntimeError("driver error: " + a["err"])
        ans = [a["ok"] for a in answers]
        if k == "pheno":
            return self._judge_pheno(case, obs, ans)
        if k == "h2":
            return self._judge_h2(case, obs, ans)
        if k == "meanbv":
            return self._judge_meanbv(case, obs, ans)
        if k == "pipeline":
            mdl, sp, sp_ph = ans
            scale = _scale_of([r["vals"] for r in obs["rows_est"]])
            corr = _tight(mdl["rows"], obs["bv"]["rows"], scale)
            spec = bool(sp["ok"]) and bool(sp_ph["ok"])
            return {"corr": corr, "spec": spec, "nontrivial": len(obs["gt_taxa"]) >= 2 and len(obs["rows"]) > len(obs["gt_taxa"]),
                    "detail": f"pipeline estimate: {sp['detail']}; phenotype: {sp_ph['detail']}; model rows={mdl['rows']} "
                              f"impl rows={obs['bv']['rows']}"}
        if k == "stat":
            return self._judge_stat(case, obs)
        if k == "phist":
            return self._judge_phist(case, obs, answers)
        if k == "ehist":
            return self._judge_ehist(case, obs, ans)
        if k == "reject":
            raised = obs.get("raised") is not None
            if case["what"].startswith("nrep"):
                want = ans[0].get("rejected") == "nrep"
            elif case["what"] == "h2_above_one":
                # the model rejects exactly when some computed error variance is negative (var_A > 0 for that trait)
                want = ans[0]["varErr"] is None
            else:
                want = True
            return {"corr": raised == want, "spec": True, "nontrivial": True,
                    "detail": f"reject[{case['what']}] implementation raised={obs.get('raised')} model rejects={want}"}
        raise ValueError(k)

    NOISE_LEAN_MAX = 600      # records up to which the (quadratic) distinctness test is left to the Lean oracle

    @staticmethod
    def _noise_cells(case, obs, t):
        """input of the noise-structure oracle (`Pheno.specNoise`, Model/PhenoSpec.lean): consequences of
        `value = true value + environment effect + replicate effect + iid error` that do not depend on WHICH normal variates
        were drawn.  A component whose variance is zero is absent (N(0, 0) is the point mass), so for trait j the residual
        record - true value is constant over the taxa of a cell when var_err[j] = 0, over the cells of an environment when
        var_rep[j] = 0 as well, and zero when var_env[j] = 0 as well (up to binary64 rounding of the sums); a component with
        positive variance is a continuous variate, so with a GENUINE generator, almost surely, the residuals of all records are
        pairwise distinct when var_err[j] > 0; otherwise the cell constants when var_rep[j] > 0; otherwise the environment
        constants when var_env[j] > 0.
        Returns None when the frame cannot be read that way (the label oracle failed / ambiguous labels), else the request
        fields: tolerance, variances, `genuine`, and per trait the residual cells - every record against the true value of the
        taxon it NAMES."""
        if "rows" not in obs:
            return None
        cvar = _cfg_state(case)[2]
        ve, vr, vx = (_var_vec(cvar[kk], t) for kk in ("var_env", "var_rep", "var_err"))
        gv = canon.dec(obs["gv"])
        n = len(gv)
        rows = obs["rows"]
        if n == 0 or len(rows) == 0 or len(rows) % n != 0 or any(len(r["vals"]) != t for r in rows):
            return None
        scale = _scale_of(obs["gv"], [r["vals"] for r in rows])
        tol = Fraction(scale) / 10 ** 11 if scale else Fraction(0)
        # (the distinctness tests need a genuine generator and values fine-grained enough for collisions to be impossible)
        genuine = case.get("mode") == "real" and scale < 10 ** 6
        # the taxon of a record: through its own name where the names are unique, else through its position within the
        # block (when the labels follow the block order)
        ptaxa = case["pop"].get("taxa")
        names = [r["taxa"] for r in rows[:n]]
        if ptaxa is not None and len(set(ptaxa)) == n and all(r["taxa"] in set(ptaxa) for r in rows):
            pos = {str(nm): i for i, nm in enumerate(ptaxa)}
            who = [pos[r["taxa"]] for r in rows]
        elif (ptaxa is None or names == [str(x) for x in ptaxa]) and all(r["taxa"] == names[k % n] for k, r in enumerate(rows)):
            who = [k % n for k in range(len(rows))]
        else:
            return None
        cells = {}
        for k, r in enumerate(rows):
            cells.setdefault((r["env"], r["rep"]), []).append((who[k], [canon.dec(x) - gv[who[k]][j] for j, x in enumerate(r["vals"])]))
        per_trait = []
        for j in range(t):
            per_trait.append([{"env": c[0], "rep": c[1], "res": [canon.enc(x[1][j]) for x in sorted(res, key=lambda z: z[0])]}
                              for c, res in sorted(cells.items())])
        return {"tol": canon.enc(tol), "var_env": [canon.enc(x) for x in ve], "var_rep": [canon.enc(x) for x in vr],
                "var_err": [canon.enc(x) for x in vx], "genuine": bool(genuine), "cells": per_trait}

    @classmethod
    def _noise_distinct_big(cls, nc):
        """the distinctness half of the oracle for frames too large for the quadratic Lean test (hash sets instead)"""
        for j, cells in enumerate(nc["cells"]):
            ve, vr, vx = (Fraction(nc[k][j]) for k in ("var_env", "var_rep", "var_err"))
            if vx != 0:
                vals = [x for c in cells for x in c["res"]]
            elif vr != 0:
                vals = [c["res"][0] for c in cells if c["res"]]
            elif ve != 0:
                seen = {}
                for c in cells:
                    if c["res"]:
                        seen.setdefault(c["env"], c["res"][0])
                vals = list(seen.values())
            else:
                continue
            if len(set(vals)) != len(vals):
                return False, f"trait {j}: a component with positive variance gives two equal effects"
        return True, "distinct"

    def _judge_refused(self, case, obs, ans):
        """the trial was refused with a ValueError: right exactly when the configuration leaves an environment without a
        replicate count (`_layout` undefined); the model has to refuse too and to hold the same stored attributes"""
        mdl, cfg = ans
        want = _layout(case) is None
        corr = (mdl.get("rejected") == "phenotype") and mdl.get("nrep") == obs["nrep"] and mdl.get("nenv") == obs["nenv_attr"] \
            and cfg.get("nrep") == obs["nrep"] and cfg.get("nenv") == obs["nenv_attr"]
        return {"corr": corr, "spec": want, "nontrivial": True,
                "detail": f"pheno refused: {obs['raised']}; stored nenv={obs['nenv_attr']} nrep={obs['nrep']}; "
                          f"layout undefined={want}; model={mdl}"}

    def _judge_pheno(self, case, obs, ans):
        if "raised" in obs:
            return self._judge_refused(case, obs, ans)
        mdl, sp, tmdl, tsp, cfg = ans[:5]
        noise = ans[5] if len(ans) > 5 else None
        pop = case["pop"]
        t = self._t(pop)
        n = len(pop["geno"][0])
        detail = []
        scale = _scale_of(obs["gv"], obs["draws"])
        # correspondence: same frame, row by row, in order
        corr = "rows" in mdl and mdl["cols"] == obs["cols"] and mdl["nrep"] == obs["nrep"] \
            and len(mdl["rows"]) == len(obs["rows"])
        if corr:
            for a, b in zip(mdl["rows"], obs["rows"]):
                if (a["taxa"], a["grp"], a["env"], a["rep"]) != (b["taxa"], b["grp"], b["env"], b["rep"]) or \
                        not _tight([a["vals"]], [b["vals"]], scale):
                    corr = False
                    detail.append(f"row differs: model {a} impl {b}")
                    break
        else:
            detail.append(f"frame differs: model cols={mdl.get('cols')} n={len(mdl.get('rows', []))} "
                          f"impl cols={obs['cols']} n={len(obs['rows'])}")
        # true values observed = additive (+ dominance) closed form
        gvx = canon.enc(_gv_exact(pop))
        gscale = _scale_of(gvx)
        gv_ok = _tight(gvx, obs["gv"], gscale)
        # the stored configuration, the call pattern and the distribution parameters are those of the model; inputs untouched
        cov_ok, cov_msg = self._config_ok(cfg, obs, t) if not case.get("rng_none") else (True, "package-level generator")
        corr = corr and obs["leftover"] == 0 and cov_ok and obs["input_untouched"] and not obs.get("script_failed")
        if obs.get("script_failed"):
            detail.append("the scripted draw stream was not consumed in the modelled order: " + obs["script_failed"])
        # TruePhenotyping and TrueBreedingValue against the model
        tcorr = "rows" in tmdl and tmdl["cols"] == obs["true_cols"] and len(tmdl["rows"]) == len(obs["true_rows"]) and all(
            a["taxa"] == b["taxa"] and a["grp"] == b["grp"] and _tight([a["vals"]], [b["vals"]], gscale)
            for a, b in zip(tmdl["rows"], obs["true_rows"]))
        corr = corr and tcorr
        if not tcorr:
            detail.append(f"TruePhenotyping differs: model {tmdl} impl {obs['true_rows']}")
        # Spec
        tb = obs["truebv"]
        tbv_ok = tb["taxa"] == pop["taxa"] and tb["grp"] == pop["grp"] and \
            _tight(tb["rows"], canon.enc(_gv_exact(pop, dominance=False)), gscale) \
            and (pop["trait"] is None or tb["trait"] == pop["trait"])
        # the Lean Spec compares the records with the true values AS REPORTED by the genomic model (exactly); that those are
        # the population's true genotypic values (exact closed form of the additive / dominance model on the CURRENT genotypes
        # and effects) is part of the same clause
        if noise is None or not sp["ok"]:
            ns_ok, ns_msg = True, "noise structure not judged"
        else:
            ns_ok, ns_msg = bool(noise["ok"]), noise["detail"]
            if ns_ok and len(obs["rows"]) > self.NOISE_LEAN_MAX:
                nc = self._noise_cells(case, obs, t)
                if nc is not None and nc["genuine"]:
                    ns_ok, m2 = self._noise_distinct_big(nc)
                    ns_msg += "; " + m2
        lay = _layout(case)
        spec = bool(sp["ok"]) and bool(tsp["ok"]) and tbv_ok and gv_ok and ns_ok and lay is not None
        if lay is None:
            detail.append("phenotype() returned a frame although an environment has no replicate count "
                          f"(nenv={obs.get('nenv_attr')}, nrep={obs['nrep']})")
        detail.append(ns_msg)
        ncell = sum(lay or [])
        nontriv = n >= 2 and ncell >= 2 and (pop["taxa"] is None or pop["taxa"] != sorted(pop["taxa"]))
        return {"corr": corr, "spec": spec, "nontrivial": nontriv,
                "detail": f"pheno[{case['mode']}] spec: {sp['detail']}; true-pheno: {tsp['detail']}; {cov_msg}; "
                          f"true_bv_aligned={tbv_ok} gv_closed_form={gv_ok} " + " ".join(detail)}

    def _judge_h2(self, case, obs, ans):
        mdl, sp = ans
        corr = canon.close_enc(mdl["varA"], obs["varA"], rel=1e-9, abs_=0) and mdl["varErr"] is not None and \
            canon.close_enc(mdl["varErr"], obs["varErr"], rel=1e-9, abs_=0)
        h2 = case["h2"] if isinstance(case["h2"], list) else [case["h2"]]
        nontriv = any(Fraction(v) > 0 for v in canon.dec(mdl["varA"])) and any(Fraction(h) < 1 for h in h2)
        # (that set_h2 leaves the layout and the other variances alone is part of the model, not of the property)
        corr = corr and obs.get("others_untouched", True)
        return {"corr": corr, "spec": bool(sp["ok"]), "nontrivial": nontriv,
                "detail": f"{case['which']}: {sp['detail']} model={mdl} impl varA={obs['varA']} varErr={obs['varErr']} "
                          f"layout_and_other_variances_untouched={obs.get('others_untouched', True)}"}

    def _judge_meanbv(self, case, obs, ans):
        mdl = ans[0]
        specs = ans[1:]
        gt = case.get("gt")
        base, rp = obs["base"], obs["rowperm"]
        scale = _scale_of(case["table"]["vals"])
        if gt is None:
            corr = mdl["taxa"] == base["taxa"] and mdl.get("grp", base["grp"]) == base["grp"] and \
                _tight(mdl["rows"], base["rows"], scale)
            inv = base["taxa"] == rp["taxa"] and base["grp"] == rp["grp"] and _tight(base["rows"], rp["rows"], scale)
            gtinv = True
        else:
            corr = _tight(mdl["rows"], base["rows"], scale)
            inv = (base["taxa"], base["grp"], base["trait"]) == (rp["taxa"], rp["grp"], rp["trait"]) and \
                _tight(base["rows"], rp["rows"], scale)
            gtinv = True
            if "gtperm" in obs and not (case.get("forms") or {}).get("gt_grouped"):
                gp = obs["gtperm"]
                perm = case["gt_perm"]
                gtinv = gp["taxa"] == [base["taxa"][i] for i in perm] and _tight(
                    gp["rows"], [base["rows"][i] for i in perm], scale)
        spec = all(bool(s["ok"]) for s in specs) and inv and gtinv
        split = self._split_names(case["table"], case["grp_col"])
        extra = ""
        if split and gt is not None and not case.get("corr_only"):
            # one name under two group labels with the group column in use (D61, repaired): the Lean oracle reads "taxon" as
            # "name"; the statement is met under either notion of taxon identity, so both are accepted here (the
            # correspondence above pins the repaired code's reading: the records of the name are pooled)
            ok2, extra = self._spec_two_groups(case, obs)
            spec = ok2 and inv and gtinv
        elif split or case.get("corr_only"):
            spec = True                  # (no genotype matrix / NaN cells: correspondence only)
        corr = corr and obs["input_untouched"]
        tab = case["table"]
        counts = {}
        for nm in tab["taxa"]:
            counts[nm] = counts.get(nm, 0) + 1
        order_differs = gt is not None and [x for x in gt["taxa"]] != sorted(gt["taxa"])
        nontriv = max(counts.values()) >= 2 and (order_differs or gt is None and len(counts) >= 2)
        return {"corr": corr, "spec": spec, "nontrivial": nontriv,
                "detail": "meanbv " + "; ".join(s["detail"] for s in specs) +
                          f" row_perm_invariant={inv} gt_perm_aligned={gtinv} {extra} model={str(mdl)[:600]} impl={str(base)[:600]}"}

    @staticmethod
    def _split_names(table, grp_col):
        """names that occur under two different (non-missing) group labels while the group column is in use"""
        if grp_col is None or table.get("grp") is None:
            return set()
        seen = {}
        for nm, g in zip(table["taxa"], table["grp"]):
            if g is not None:
                seen.setdefault(nm, set()).add(g)
        return {nm for nm, gs in seen.items() if len(gs) > 1}

    def _spec_two_groups(self, case, obs):
        """Spec of the breeding-value clause for a table in which one name is used under two group labels (taxa_grp_col set,
        genotype matrix supplied, no NaN cells).  "Each taxon's arithmetic mean over its records" is accepted under either
        notion of taxon identity: the NAME (mean over all records of that name) or the (name, group) PAIR of the genotype
        matrix entry (mean over the records of that name and group; missing if there is none).  Labels as always:
        out.taxa / taxa_grp = those of the genotype matrix, out.trait = trait_cols."""
        tab, tc, gt = case["table"], case["trait_cols"], case["gt"]
        if any(v is None for row in tab["vals"] for v in row):
            return True, "(two groups + NaN cells: not judged)"
        cj = [tab["cols"].index(c) for c in tc]
        scale = _scale_of(tab["vals"])
        tol = Fraction(scale) / 10 ** 12

        def mean(rows):
            return [sum((Fraction(r[j]) for r in rows), Fraction(0)) / len(rows) for j in cj]

        def row_ok(out_row, want):
            if want is None:
                return all(x is None for x in out_row)
            return len(out_row) == len(want) and all(x is not None and abs(canon.dec(x) - w) <= tol for x, w in zip(out_row, want))
        if (case.get("forms") or {}).get("gt_grouped"):
            # the genotype matrix was grouped before it was supplied: its labels AS SUPPLIED are read off the object
            outs = [(obs["base"], obs["gt_seen"]), (obs["rowperm"], obs["gt_seen"])]
            if "gtperm" in obs:
                outs.append((obs["gtperm"], obs["gt_seen_perm"]))
        else:
            outs = [(obs["base"], gt), (obs["rowperm"], gt)]
            if "gtperm" in obs:
                pm = case["gt_perm"]
                outs.append((obs["gtperm"], {"taxa": [gt["taxa"][i] for i in pm],
                                             "grp": None if gt.get("grp") is None else [gt["grp"][i] for i in pm]}))
        for o, seen in outs:
            tx, gg = seen["taxa"], seen.get("grp")
            if o["taxa"] != tx or o["grp"] != gg or o["trait"] != tc or len(o["rows"]) != len(tx):
                return False, "two groups: labels not those of the genotype matrix"
            for i, nm in enumerate(tx):
                mine = [v for t2, v in zip(tab["taxa"], tab["vals"]) if t2 == nm]
                if not mine:
                    accept = [None]
                else:
                    accept = [mean(mine)]
                    if gg is not None:
                        sub = [v for t2, g2, v in zip(tab["taxa"], tab["grp"], tab["vals"]) if t2 == nm and g2 == gg[i]]
                        accept.append(mean(sub) if sub else None)
                if not any(row_ok(o["rows"][i], w) for w in accept):
                    return False, (f"two groups: row of {nm!r} is neither the mean over all its records nor over those of its "
                                   f"genotype-matrix group: {o['rows'][i]}")
        return True, "two groups: every row is the mean over the name's (or the (name, group) pair's) records"

    def _judge_stat(self, case, obs):
        if not obs.get("shape_ok") or not obs.get("cells_ok", True):
            return {"corr": False, "spec": False, "nontrivial": True,
                    "detail": f"stat: wrong number of records / wrong (env, rep) cells {obs}"}
        n, t = obs["n"], obs["t"]
        nenv = int(case["nenv"])
        lay = _nrep_list(nenv, case["nrep"])
        ve, vr, vx = ([float(x) for x in _var_vec(case.get(kk), t)] for kk in ("var_env", "var_rep", "var_err"))
        if case.get("h2") is not None:      # error variance fixed by the heritability target (exact var_A / var_G)
            h = Fraction(case["h2"])
            vx = [float((1 - h) / h * v) for v in _var_exact(case["pop"], case.get("h2_which", "h2") == "H2")]
        ok = True
        msgs = []
        floor = 1e-18 * max(1.0, obs.get("gvmax", 1.0)) ** 2       # rounding of (record - true value) at variance 0
        for j in range(t):
            cell = vr[j] + vx[j] / n
            # (estimate, expectation, degrees of freedom)
            checks = [("err", obs["within"][j], vx[j], sum(lay) * (n - 1))]
            if obs["rep_df"] > 0:
                checks.append(("rep", obs["rep_var"][j], cell, obs["rep_df"]))
            if obs.get("pair_df", 0) > 0:
                checks.append(("pair", obs["pair_diff"][j], 2 * vx[j], obs["pair_df"]))
            for kk, ev in sorted(obs["env_var"].items()):
                checks.append((f"env|nrep={kk}", ev["est"][j], ve[j] + cell / int(kk), ev["df"]))
            for name, est, exp, df in checks:
                band = 7.0 * math.sqrt(2.0 / df) * exp + floor
                good = abs(est - exp) <= band
                ok = ok and good
                msgs.append(f"{name}[{j}] est={est:.4g} exp={exp:.4g} band={band:.3g} {'ok' if good else 'OUT'}")
        return {"corr": bool(obs["cov_ok"]), "spec": bool(ok), "nontrivial": True,
                "detail": f"stat draw_parameters_as_modelled={obs['cov_ok']} " + "; ".join(msgs)}

    def _judge_phist(self, case, obs, answers):
        corr, spec, details = True, True, []
        pos = 0
        npheno = 0
        for i, st in enumerate(obs["steps"]):
            k = len(self.requests(st["case"], st["obs"]))
            v = self._judge(st["case"], st["obs"], answers[pos:pos + k])
            pos += k
            corr = corr and v["corr"]
            spec = spec and v["spec"]
            npheno += st["type"] == "pheno"
            if not (v["corr"] and v["spec"]):
                details.append(f"step {i} ({st['type']}): {v['detail'][:700]}")
        if not obs["stable"]:
            spec = False
            details.append("a data frame returned earlier reads differently after later calls on the same protocol")
        return {"corr": corr, "spec": spec, "nontrivial": len(obs["steps"]) >= 2,
                "detail": f"history of {len(case['steps'])} steps, {len(obs['steps'])} judged: " +
                          ("all steps hold" if not details else " | ".join(details))}

    def _judge_ehist(self, case, obs, ans):
        corr, spec, details = True, True, []
        pos = 0
        for i, st in enumerate(obs["steps"]):
            mdl, sp = ans[pos], ans[pos + 1]
            pos += 2
            scale = _scale_of(st["table"]["vals"])
            o = st["out"]
            if st["gt"]:
                c = _tight(mdl["rows"], o["rows"], scale)
            else:
                c = mdl["taxa"] == o["taxa"] and _tight(mdl["rows"], o["rows"], scale)
            corr = corr and c
            spec = spec and bool(sp["ok"])
            if not (c and sp["ok"]):
                details.append(f"estimate {i}: {sp['detail']} model={str(mdl)[:400]} impl={str(o)[:400]}")
        if not obs["stable"]:
            spec = False
            details.append("a matrix returned earlier reads differently after later calls on the same estimator")
        return {"corr": corr, "spec": spec, "nontrivial": len(obs["steps"]) >= 2,
                "detail": f"estimator history, {len(obs['steps'])} estimates: " + ("all hold" if not details else " | ".join(details))}

    # ================================================================================ findings / shrinking
    def signature(self, case, obs, verdict):
        sig = {"kind": case["kind"]}
        if case["kind"] == "meanbv":
            sig["site"] = SITE_EST
            if case.get("grp_col") is not None and case["table"].get("grp") is None:
                sig["cond"] = "taxa_grp_col_all_missing"
        if case["kind"] == "pipeline":
            sig["site"] = SITE_EST
            if case.get("use_grp") and case["pop"].get("grp") is None:
                sig["cond"] = "taxa_grp_col_all_missing"
        return sig

    def shrink(self, case):
        k = case["kind"]
        if k in ("pheno", "pipeline", "h2", "stat"):
            pop = case["pop"]
            n = len(pop["geno"][0])
            p = len(pop["geno"][0][0])
            if n > 1:
                for i in range(n):
                    c = dict(case)
                    q = dict(pop)
                    q["geno"] = [[row for a, row in enumerate(ph) if a != i] for ph in pop["geno"]]
                    for key in ("taxa", "grp"):
                        if pop.get(key) is not None:
                            q[key] = [x for a, x in enumerate(pop[key]) if a != i]
                    c["pop"] = q
                    if case.get("script"):
                        c["script"] = [{"env": e["env"], "reps": [{"rep": r["rep"], "err": [x for a, x in enumerate(r["err"]) if a != i]}
                                                                  for r in e["reps"]]} for e in case["script"]]
                    if case.get("gt_perm") is not None:
                        c["gt_perm"] = [x - (x > i) for x in case["gt_perm"] if x != i]
                    yield c
            if p > 1:
                c = dict(case)
                q = dict(pop)
                q["geno"] = [[row[:-1] for row in ph] for ph in pop["geno"]]
                q["u"] = pop["u"][:-1]
                if pop.get("ud") is not None:
                    q["ud"] = pop["ud"][:-1]
                c["pop"] = q
                yield c
            if k != "h2" and case["nenv"] > 1:
                c = dict(case)
                c["nenv"] = case["nenv"] - 1
                if isinstance(case["nrep"], list):
                    c["nrep"] = case["nrep"][:-1]
                if case.get("script"):
                    c["script"] = case["script"][:-1]
                yield c
        if k in ("phist", "ehist"):
            # drop one step (never a setter: the later steps were generated against the configuration it establishes)
            keep_ops = ("set",)
            for i in range(len(case["steps"]) - 1, -1, -1):
                st = case["steps"][i]
                if st["op"] in keep_ops or st["op"] in ("mutate_out", "zero_out", "relabel"):
                    continue
                c = dict(case)
                c["steps"] = case["steps"][:i] + case["steps"][i + 1:]
                if k == "phist":
                    np_ = sum(1 for x in c["steps"] if x["op"] == "pheno")
                    c["steps"] = [x for x in c["steps"] if x["op"] != "mutate_out" or x["which"] < np_]
                    if st["op"] == "pheno":
                        c["steps"] = [x for x in c["steps"] if x["op"] != "mutate_out"]
                else:
                    if st["op"] == "est":
                        c["steps"] = [x for x in c["steps"] if x["op"] != "zero_out"]
                if any(x["op"] in ("pheno", "set_h2", "est") for x in c["steps"]):
                    yield c
        if k == "meanbv":
            tab = case["table"]
            m = len(tab["taxa"])
            if m > 1:
                for i in range(m):
                    c = dict(case)
                    c["table"] = {kk: ([x for a, x in enumerate(v) if a != i] if isinstance(v, list) and kk != "cols" else v)
                                  for kk, v in tab.items()}
                    c["row_perm"] = [x - (x > i) for x in case["row_perm"] if x != i]
                    yield c
            gt = case.get("gt")
            if gt is not None and len(gt["taxa"]) > 1:
                for i in range(len(gt["taxa"])):
                    c = dict(case)
                    c["gt"] = {"taxa": [x for a, x in enumerate(gt["taxa"]) if a != i],
                               "grp": None if gt.get("grp") is None else [x for a, x in enumerate(gt["grp"]) if a != i]}
                    c["gt_perm"] = [x - (x > i) for x in case["gt_perm"] if x != i]
                    yield c
            if len(case["trait_cols"]) > 1:
                c = dict(case)
                c["trait_cols"] = case["trait_cols"][:-1]
                yield c

    # ================================================================================ self-test mutants
    def mutants(self):
        m = _mods()
        pandas = m["pandas"]
        GEP = m["gep"].G_E_Phenotyping
        TP = m["tp"].TruePhenotyping
        MBV = m["mbv"].MeanPhenotypicBreedingValue
        TBV = m["tbv"].TrueBreedingValue

        prop = self

        @contextlib.contextmanager
        def patch(obj, name, new):
            # (the raw class attribute, so that properties / classmethods are restored as such)
            old = obj.__dict__[name] if isinstance(obj, type) and name in obj.__dict__ else getattr(obj, name)
            setattr(obj, name, new)
            was = prop._selftest_active
            prop._selftest_active = True
            try:
                yield
            finally:
                setattr(obj, name, old)
                prop._selftest_active = was

        ph0 = GEP.phenotype

        def taxa_sorted(self, pgmat, miscout=None, **kw):       # labels written in sorted order within each block
            df = ph0(self, pgmat, miscout, **kw)
            n = pgmat.ntaxa
            tx = list(df["taxa"])
            for s in range(0, len(tx), n):
                tx[s:s + n] = sorted(tx[s:s + n])
            df["taxa"] = numpy.array(tx, dtype=object)
            return df

        def grp_rolled(self, pgmat, miscout=None, **kw):        # group labels detached from their taxon
            df = ph0(self, pgmat, miscout, **kw)
            if pgmat.taxa_grp is not None:
                df["taxa_grp"] = numpy.roll(df["taxa_grp"].to_numpy(), 1)
            return df

        def rep_major(self, pgmat, miscout=None, **kw):         # env / rep labels swapped
            df = ph0(self, pgmat, miscout, **kw)
            e, r = df["env"].to_numpy().copy(), df["rep"].to_numpy().copy()
            df["env"], df["rep"] = r, e
            return df

        def one_rep_short(self, pgmat, miscout=None, **kw):     # range(env_nrep - 1) for environments with > 1 rep
            df = ph0(self, pgmat, miscout, **kw)
            keep = ~((df["rep"] > 1) & (df["rep"] == df.groupby("env")["rep"].transform("max")))
            return df[keep].reset_index(drop=True)

        def err_reversed(self, pgmat, miscout=None, **kw):      # error rows handed to the taxa in reverse order
            class Rev:
                def __init__(s, g):
                    s.g = g

                def multivariate_normal(s, mean, cov, size=None, **k2):
                    out = s.g.multivariate_normal(mean, cov, size, **k2)
                    return out if size is None else out[::-1]
            real = self._rng
            self._rng = Rev(real)
            try:
                return ph0(self, pgmat, miscout, **kw)
            finally:
                self._rng = real

        def var_as_sd(self, pgmat, miscout=None, **kw):         # covariance built from var**2
            old = self._var_err
            self._var_err = old ** 2
            try:
                return ph0(self, pgmat, miscout, **kw)
            finally:
                self._var_err = old

        def env_not_added(self, pgmat, miscout=None, **kw):     # environment effect drawn but not added
            pattern = []
            for k in self.nrep[:self.nenv]:
                pattern += [True] + [False, False] * int(k)

            class NoEnv:
                def __init__(s, g):
                    s.g = g
                    s.i = 0

                def multivariate_normal(s, mean, cov, size=None, **k2):
                    out = s.g.multivariate_normal(mean, cov, size, **k2)
                    is_env = s.i < len(pattern) and pattern[s.i]
                    s.i += 1
                    return numpy.zeros_like(out) if is_env else out
            real = self._rng
            self._rng = NoEnv(real)
            try:
                return ph0(self, pgmat, miscout, **kw)
            finally:
                self._rng = real

        def h2_wrong(self, h2, pgmat, **kw):
            self.var_err = (1.0 - h2) * self.gpmod.var_A(pgmat)

        def H2_wrong(self, H2, pgmat, **kw):
            self.var_err = (1.0 - H2) / (1.0 + H2) * self.gpmod.var_G(pgmat)

        est0 = MBV.estimate

        def groupby_order(self, ptobj, gtobj=None, miscout=None, **kw):   # group-by order used as genotype order
            out = est0(self, ptobj, gtobj, miscout, **kw)
            if gtobj is None:
                return out
            raw = out.unscale()
            order = numpy.argsort(numpy.array([str(x) for x in gtobj.taxa]), kind="stable")
            new = numpy.empty_like(raw)
            new[:] = raw[order]
            return type(out).from_numpy(mat=new, taxa=out.taxa, taxa_grp=out.taxa_grp, trait=out.trait)

        def zero_for_absent(self, ptobj, gtobj=None, miscout=None, **kw):
            out = est0(self, ptobj, gtobj, miscout, **kw)
            raw = out.unscale()
            if not numpy.isnan(raw).any():
                return out
            return type(out).from_numpy(mat=numpy.nan_to_num(raw, nan=0.0), taxa=out.taxa, taxa_grp=out.taxa_grp,
                                        trait=out.trait)

        def median_not_mean(self, ptobj, gtobj=None, miscout=None, **kw):
            class MedianFrame(pandas.DataFrame):
                pass
            real_groupby = pandas.DataFrame.groupby

            def gb(df, *a, **k):
                g = real_groupby(df, *a, **k)

                class W:
                    def agg(s, spec):
                        return g.agg({c: "median" for c in spec})
                return W()
            with patch(pandas.DataFrame, "groupby", gb):
                return est0(self, ptobj, gtobj, miscout, **kw)

        def first_record_only(self, ptobj, gtobj=None, miscout=None, **kw):   # not invariant to the row order
            real_groupby = pandas.DataFrame.groupby

            def gb(df, *a, **k):
                g = real_groupby(df, *a, **k)

                class W:
                    def agg(s, spec):
                        return g.agg({c: "first" for c in spec})
                return W()
            with patch(pandas.DataFrame, "groupby", gb):
                return est0(self, ptobj, gtobj, miscout, **kw)

        def nan_as_zero(self, ptobj, gtobj=None, miscout=None, **kw):   # missing cells counted as observations of 0
            return est0(self, ptobj.fillna({c: 0.0 for c in self.trait_cols}), gtobj, miscout, **kw)

        def labels_from_table(self, ptobj, gtobj=None, miscout=None, **kw):   # taxa labels in sorted order, data in gt order
            out = est0(self, ptobj, gtobj, miscout, **kw)
            if gtobj is None:
                return out
            return type(out).from_numpy(mat=out.unscale(), taxa=numpy.array(sorted(str(x) for x in out.taxa), dtype=object),
                                        taxa_grp=out.taxa_grp, trait=out.trait)

        tp0 = TP.phenotype

        def true_rolled(self, pgmat, miscout=None, **kw):
            df = tp0(self, pgmat, miscout, **kw)
            if len(df) > 1:
                df["taxa"] = numpy.roll(df["taxa"].to_numpy(dtype=object), 1)
            return df

        tbv0 = TBV.estimate

        def truebv_sorted(self, ptobj, gtobj, miscout=None, **kw):
            out = tbv0(self, ptobj, gtobj, miscout, **kw)
            if out.taxa is None:
                return out
            order = numpy.argsort(numpy.array([str(x) for x in out.taxa]), kind="stable")
            return type(out).from_numpy(mat=out.unscale()[order], taxa=out.taxa, taxa_grp=out.taxa_grp, trait=out.trait)

        # ------------------------------------------------------------------ round 3: one mutant per new class of inputs
        import copy as _copy
        DALGM = m["dalgm"].DenseAdditiveLinearGenomicModel
        h2_0, H2_0 = GEP.set_h2, GEP.set_H2

        def h2_founder_cache(self, h2, pgmat, **kw):          # (1) var_A remembered per founder OBJECT, never invalidated
            if getattr(self, "_mut_founder", None) is not pgmat:
                self._mut_founder = pgmat
                self._mut_var_A = self.gpmod.var_A(pgmat)
            self.var_err = (1.0 - h2) / h2 * self._mut_var_A

        def pheno_gv_cache(self, pgmat, miscout=None, **kw):   # (1) true values remembered per population OBJECT
            memo = getattr(self, "_mut_gv", None)
            if memo is None or memo[0] is not pgmat:
                self._mut_gv = (pgmat, self.gpmod.gegv(pgmat))
            gv = self._mut_gv[1]

            class Frozen:
                ntrait = self.gpmod.ntrait

                def gegv(s, *a, **k):
                    return gv
            real = self._gpmod
            self._gpmod = Frozen()
            try:
                return ph0(self, pgmat, miscout, **kw)
            finally:
                self._gpmod = real

        def pheno_layout_cache(self, pgmat, miscout=None, **kw):   # (1) layout and covariances frozen at the first call
            if not hasattr(self, "_mut_cfg"):
                self._mut_cfg = (self._nenv, self._nrep.copy(), self._var_env.copy(), self._var_rep.copy(), self._var_err.copy())
            now = (self._nenv, self._nrep, self._var_env, self._var_rep, self._var_err)
            (self._nenv, self._nrep, self._var_env, self._var_rep, self._var_err) = self._mut_cfg
            try:
                return ph0(self, pgmat, miscout, **kw)
            finally:
                (self._nenv, self._nrep, self._var_env, self._var_rep, self._var_err) = now

        def est_frame_memo(self, ptobj, gtobj=None, miscout=None, **kw):   # (1) aggregate remembered per frame OBJECT
            memo = getattr(self, "_mut_memo", None)
            if memo is None or memo[0] is not ptobj:
                self._mut_memo = (ptobj, ptobj.copy(deep=True))
            return est0(self, self._mut_memo[1], gtobj, miscout, **kw)

        def est_shared_buffer(self, ptobj, gtobj=None, miscout=None, **kw):   # (1) one output buffer per shape, reused
            out = est0(self, ptobj, gtobj, miscout, **kw)
            bufs = self.__dict__.setdefault("_mut_bufs", {})
            buf = bufs.get(out.mat.shape)
            if buf is None:
                bufs[out.mat.shape] = out.mat
            else:
                buf[...] = out.mat
                out._mat = buf
            return out

        def est_traits_frozen(self, ptobj, gtobj=None, miscout=None, **kw):   # (1) trait list frozen at the first call
            if not hasattr(self, "_mut_traits"):
                self._mut_traits = list(self._trait_cols)
            now = self._trait_cols
            self._trait_cols = self._mut_traits
            try:
                return est0(self, ptobj, gtobj, miscout, **kw)
            finally:
                self._trait_cols = now

        def h2_isclose_one(self, h2, pgmat, **kw):             # (2) targets "close to" 1 treated as 1
            h = numpy.where(numpy.isclose(h2, 1.0), 1.0, h2)
            self.var_err = (1.0 - h) / h * self.gpmod.var_A(pgmat)

        def h2_var_floor(self, h2, pgmat, **kw):               # (2) genetic variance clipped at 1e-8
            self.var_err = (1.0 - h2) / h2 * numpy.maximum(self.gpmod.var_A(pgmat), 1e-8)

        def pheno_float32(self, pgmat, miscout=None, **kw):    # (2) record values stored in single precision
            df = ph0(self, pgmat, miscout, **kw)
            for c in df.columns[4:]:
                df[c] = df[c].to_numpy().astype("float32").astype(float)
            return df

        def est_tiny_to_zero(self, ptobj, gtobj=None, miscout=None, **kw):   # (2) means that are "close to" 0 set to 0
            out = est0(self, ptobj, gtobj, miscout, **kw)
            raw = out.unscale()
            raw = numpy.where(numpy.isclose(raw, 0.0), 0.0, raw)
            return type(out).from_numpy(mat=raw, taxa=out.taxa, taxa_grp=out.taxa_grp, trait=out.trait)

        def est_float32(self, ptobj, gtobj=None, miscout=None, **kw):   # (2) means accumulated in single precision
            out = est0(self, ptobj, gtobj, miscout, **kw)
            raw = out.unscale().astype("float32").astype(float)
            return type(out).from_numpy(mat=raw, taxa=out.taxa, taxa_grp=out.taxa_grp, trait=out.trait)

        def est_round6(self, ptobj, gtobj=None, miscout=None, **kw):    # (2) means rounded to 6 decimals
            out = est0(self, ptobj, gtobj, miscout, **kw)
            return type(out).from_numpy(mat=numpy.round(out.unscale(), 6), taxa=out.taxa, taxa_grp=out.taxa_grp, trait=out.trait)

        def pheno_env_int8(self, pgmat, miscout=None, **kw):   # (3) environment / replicate labels in 8 bits
            df = ph0(self, pgmat, miscout, **kw)
            df["env"] = df["env"].to_numpy().astype("int8").astype(int)
            df["rep"] = df["rep"].to_numpy().astype("int8").astype(int)
            return df

        def pheno_chunk_1024(self, pgmat, miscout=None, **kw):   # (3) only the first 1024 taxa of every block are kept
            df = ph0(self, pgmat, miscout, **kw)
            n = pgmat.ntaxa
            if n <= 1024:
                return df
            keep = (numpy.arange(len(df)) % n) < 1024
            return df[keep].reset_index(drop=True)

        def est_count_int8(self, ptobj, gtobj=None, miscout=None, **kw):   # (3) group sizes counted in 8 bits
            cnt = ptobj.groupby(self.taxa_col)[self.taxa_col].transform("size").to_numpy()
            if (cnt <= 127).all():
                return est0(self, ptobj, gtobj, miscout, **kw)
            q = ptobj.copy()
            for c in self.trait_cols:
                q[c] = q[c].to_numpy(dtype=float) * cnt / numpy.abs(cnt.astype("int8").astype(float))
            return est0(self, q, gtobj, miscout, **kw)

        nrep_prop = GEP.nrep

        def nrep_first_entry(self, value):                     # (4) per-environment array reduced to its first entry
            if isinstance(value, numpy.ndarray) and value.ndim == 1 and len(value) == self.nenv and len(value) > 0:
                value = numpy.full(len(value), value[0], dtype=value.dtype)
            nrep_prop.fset(self, value)

        verr_prop = GEP.var_err

        def var_err_first_entry(self, value):                  # (4) per-trait array reduced to its first entry
            if isinstance(value, numpy.ndarray) and value.ndim == 1 and len(value) > 0:
                value = numpy.full(len(value), value[0], dtype=value.dtype)
            verr_prop.fset(self, value)

        tc_prop = MBV.trait_cols

        def trait_cols_split(self, value):                     # (4) a single column name iterated character by character
            self._trait_cols = list(value)

        def est_positional_index(self, ptobj, gtobj=None, miscout=None, **kw):   # (4) index labels taken for positions
            pos = numpy.asarray(ptobj.index)
            if pos.dtype.kind in "iu" and sorted(pos.tolist()) == list(range(len(pos))):
                return est0(self, ptobj.iloc[pos], gtobj, miscout, **kw) if False else \
                    est0(self, ptobj.assign(**{c: ptobj[c].to_numpy()[pos] for c in self.trait_cols}), gtobj, miscout, **kw)
            return est0(self, ptobj, gtobj, miscout, **kw)

        copy0 = GEP.__copy__

        def copy_scalar_nrep(self):                            # (5) copy() rebuilds the protocol from nrep[0]
            out = copy0(self)
            out._nrep = numpy.full(len(self._nrep), self._nrep[0], dtype=self._nrep.dtype)
            return out

        deep0 = GEP.__deepcopy__

        def deepcopy_default_variances(self, memo=None):       # (5) deepcopy() forgets the replicate variance
            out = deep0(self, memo)
            out._var_rep = numpy.zeros_like(self._var_rep)
            out._nenv = max(1, int(self._nenv) - 1) if int(self._nenv) > 1 else out._nenv
            return out

        h5_0 = GEP.from_hdf5.__func__

        def hdf5_nrep_first(cls, filename, groupname=None, gpmod=None):   # (5) from_hdf5 restores nrep from its first entry
            out = h5_0(cls, filename, groupname, gpmod)
            out._nrep = numpy.full(len(out._nrep), out._nrep[0], dtype=out._nrep.dtype)
            return out

        def H2_from_var_A(self, H2, pgmat, **kw):              # (5) broad-sense target computed from the additive variance
            self.var_err = (1.0 - H2) / H2 * self.gpmod.var_A(pgmat)

        def est_constant_trait_nan(self, ptobj, gtobj=None, miscout=None, **kw):   # (6) constant column -> 0/0
            out = est0(self, ptobj, gtobj, miscout, **kw)
            raw = out.unscale()
            for j in range(raw.shape[1]):
                col = raw[:, j][~numpy.isnan(raw[:, j])]
                if len(col) and (col == col[0]).all():
                    raw[:, j] = numpy.nan
            return type(out).from_numpy(mat=raw, taxa=out.taxa, taxa_grp=out.taxa_grp, trait=out.trait)

        def pheno_no_rep_single(self, pgmat, miscout=None, **kw):   # (4) replicate effect dropped where nrep[e] == 1
            pattern = []
            for k in self.nrep[:self.nenv]:
                pattern += [False] + [int(k) == 1, False] * int(k)

            class NoRep:
                def __init__(s, g):
                    s.g = g
                    s.i = 0

                def multivariate_normal(s, mean, cov, size=None, **k2):
                    out = s.g.multivariate_normal(mean, cov, size, **k2)
                    drop = s.i < len(pattern) and pattern[s.i]
                    s.i += 1
                    return numpy.zeros_like(out) if drop else out
            real = self._rng
            self._rng = NoRep(real)
            try:
                return ph0(self, pgmat, miscout, **kw)
            finally:
                self._rng = real

        gegv0 = DALGM.gegv

        def gegv_memo(self, gtobj, **kw):                      # (1) genomic model remembers true values per population OBJECT
            memo = self.__dict__.setdefault("_mut_gegv", {})
            if id(gtobj) not in memo:
                memo[id(gtobj)] = (gtobj, gegv0(self, gtobj, **kw))
            return memo[id(gtobj)][1]

        round3 = [
            ("r3_set_h2_founder_variance_cached", lambda: patch(GEP, "set_h2", h2_founder_cache)),
            ("r3_phenotype_true_values_cached_per_object", lambda: patch(GEP, "phenotype", pheno_gv_cache)),
            ("r3_phenotype_configuration_frozen_at_first_call", lambda: patch(GEP, "phenotype", pheno_layout_cache)),
            ("r3_genomic_model_true_values_cached_per_object", lambda: patch(DALGM, "gegv", gegv_memo)),
            ("r3_estimate_aggregate_cached_per_frame_object", lambda: patch(MBV, "estimate", est_frame_memo)),
            ("r3_estimate_output_buffer_reused", lambda: patch(MBV, "estimate", est_shared_buffer)),
            ("r3_estimate_trait_cols_frozen_at_first_call", lambda: patch(MBV, "estimate", est_traits_frozen)),
            ("r3_set_h2_isclose_one", lambda: patch(GEP, "set_h2", h2_isclose_one)),
            ("r3_set_h2_variance_floor_1e-8", lambda: patch(GEP, "set_h2", h2_var_floor)),
            ("r3_phenotype_values_float32", lambda: patch(GEP, "phenotype", pheno_float32)),
            ("r3_estimate_isclose_zero", lambda: patch(MBV, "estimate", est_tiny_to_zero)),
            ("r3_estimate_float32", lambda: patch(MBV, "estimate", est_float32)),
            ("r3_estimate_round_6_decimals", lambda: patch(MBV, "estimate", est_round6)),
            ("r3_phenotype_env_rep_labels_int8", lambda: patch(GEP, "phenotype", pheno_env_int8)),
            ("r3_phenotype_chunk_of_1024_taxa", lambda: patch(GEP, "phenotype", pheno_chunk_1024)),
            ("r3_estimate_group_size_int8", lambda: patch(MBV, "estimate", est_count_int8)),
            ("r3_phenotype_no_replicate_effect_in_single_replicate_environments",
             lambda: patch(GEP, "phenotype", pheno_no_rep_single)),
            ("r3_nrep_array_first_entry", lambda: patch(GEP, "nrep", property(nrep_prop.fget, nrep_first_entry))),
            ("r3_var_err_array_first_entry", lambda: patch(GEP, "var_err", property(verr_prop.fget, var_err_first_entry))),
            ("r3_trait_cols_string_split", lambda: patch(MBV, "trait_cols", property(tc_prop.fget, trait_cols_split))),
            ("r3_estimate_index_labels_as_positions", lambda: patch(MBV, "estimate", est_positional_index)),
            ("r3_copy_scalar_nrep", lambda: patch(GEP, "__copy__", copy_scalar_nrep)),
            ("r3_deepcopy_forgets_configuration", lambda: patch(GEP, "__deepcopy__", deepcopy_default_variances)),
            ("r3_from_hdf5_nrep_first_entry", lambda: patch(GEP, "from_hdf5", classmethod(hdf5_nrep_first))),
            ("r3_set_H2_from_additive_variance", lambda: patch(GEP, "set_H2", H2_from_var_A)),
            ("r3_estimate_constant_trait_nan", lambda: patch(MBV, "estimate", est_constant_trait_nan)),
        ]

        # ------------------------------------------------------------------ round 4
        nenv_prop = GEP.nenv

        def nenv_prerepair(self, value):                       # D60 as it was: the replicate array does not follow
            self._nenv = int(value)

        def nenv_pads_with_ones(self, value):                  # a count is invented for environments that have none
            old = getattr(self, "_nrep", None)
            if old is not None and len(old) < value and not numpy.all(old == old[0]):
                self._nrep = numpy.concatenate([old, numpy.ones(int(value) - len(old), dtype=old.dtype)])
                self._nenv = value
                return
            nenv_prop.fset(self, value)

        def h2_minus_env_rep(self, h2, pgmat, **kw):           # error variance = non-genetic variance - var_env - var_rep
            self.var_err = numpy.maximum((1.0 - h2) / h2 * self.gpmod.var_A(pgmat) - self.var_env - self.var_rep, 0.0)

        def pheno_replicates_are_copies(self, pgmat, miscout=None, **kw):   # all replicate blocks of an environment alias
            df = ph0(self, pgmat, miscout, **kw)                             # one array: they end up identical
            tc = list(df.columns[4:])
            vals = df[tc].to_numpy().copy()
            env, rep = df["env"].to_numpy(), df["rep"].to_numpy()
            for e in numpy.unique(env):
                last = rep[env == e].max()
                src = vals[(env == e) & (rep == last)]
                for r in numpy.unique(rep[env == e]):
                    vals[(env == e) & (rep == r)] = src
            df[tc] = vals
            return df

        def _pattern_rng(self, kind):
            """generator wrapper: within an environment every replicate re-uses the FIRST replicate's draw of `kind`"""
            plan = []
            for k in self.nrep[:self.nenv]:
                plan += ["env"] + ["rep", "err"] * int(k)

            class Reuse:
                def __init__(s, g):
                    s.g, s.i, s.first = g, 0, None

                def multivariate_normal(s, mean, cov, size=None, **k2):
                    out = s.g.multivariate_normal(mean, cov, size, **k2)
                    what = plan[s.i] if s.i < len(plan) else None
                    s.i += 1
                    if what == "env":
                        s.first = None
                    elif what == kind:
                        if s.first is None:
                            s.first = out
                        else:
                            return s.first.copy()
                    return out
            return Reuse(self._rng)

        def pheno_rep_effect_once_per_env(self, pgmat, miscout=None, **kw):
            real = self._rng
            self._rng = _pattern_rng(self, "rep")
            try:
                return ph0(self, pgmat, miscout, **kw)
            finally:
                self._rng = real

        def pheno_error_once_per_env(self, pgmat, miscout=None, **kw):
            real = self._rng
            self._rng = _pattern_rng(self, "err")
            try:
                return ph0(self, pgmat, miscout, **kw)
            finally:
                self._rng = real

        def pheno_buffer_reused(self, pgmat, miscout=None, **kw):   # frames of successive calls share their value block
            df = ph0(self, pgmat, miscout, **kw)
            prev = self.__dict__.get("_mut_prev")
            tc = list(df.columns[4:])
            if prev is not None and prev.shape == df.shape and list(prev.columns) == list(df.columns):
                prev.loc[:, tc] = df[tc].to_numpy()
            self.__dict__["_mut_prev"] = df
            return df

        def est_traits_in_frame_order(self, ptobj, gtobj=None, miscout=None, **kw):   # values taken positionally
            want = list(self._trait_cols)
            frame_order = [c for c in ptobj.columns if c in want]
            if len(frame_order) != len(want):
                return est0(self, ptobj, gtobj, miscout, **kw)
            self._trait_cols = frame_order
            try:
                out = est0(self, ptobj, gtobj, miscout, **kw)
            finally:
                self._trait_cols = want
            out.trait = numpy.array(want, dtype=object)
            return out

        def truebv_genotypic(self, ptobj, gtobj, miscout=None, **kw):   # genotypic values reported as breeding values
            return self.gpmod.gegv(gtobj)

        def nrep_scalar_int8(self, value):                     # a scalar replicate count is broadcast into 8 bits
            from numbers import Integral
            if isinstance(value, Integral) and not isinstance(value, bool) and value > 0:
                value = numpy.full(self.nenv, value, "int8").astype(int)
            nrep_prop.fset(self, value)

        def hdf5_var_rep_err_swapped(cls, filename, groupname=None, gpmod=None):
            out = h5_0(cls, filename, groupname, gpmod)
            out._var_rep, out._var_err = out._var_err, out._var_rep
            return out

        def est_last_group_only(self, ptobj, gtobj=None, miscout=None, **kw):   # D61 as it was: of a name used under several
            gc = self.taxa_grp_col                                                # group labels only the LAST group is averaged
            if gtobj is None or gc is None or gc not in ptobj.columns:
                return est0(self, ptobj, gtobj, miscout, **kw)
            names = ptobj[self.taxa_col].astype(object)
            grp = pandas.to_numeric(ptobj[gc], errors="coerce").to_numpy(dtype=float)
            keep = numpy.zeros(len(ptobj), dtype=bool)
            for nm in pandas.unique(names):
                sel = (names == nm).to_numpy()
                g = grp[sel]
                if numpy.isnan(g).any():                    # a missing label sorts last in the group-by
                    keep |= sel & numpy.isnan(grp)
                else:
                    keep |= sel & (grp == g.max())
            return est0(self, ptobj[keep], gtobj, miscout, **kw)

        def est_never_groups_by_group(self, ptobj, gtobj=None, miscout=None, **kw):   # the repair over-generalised: the group
            if gtobj is not None or self.taxa_grp_col is None:                          # column is dropped without genotype matrix too
                return est0(self, ptobj, gtobj, miscout, **kw)
            real = self._taxa_grp_col
            self._taxa_grp_col = None
            try:
                return est0(self, ptobj, gtobj, miscout, **kw)
            finally:
                self._taxa_grp_col = real

        round4 = [
            ("r4_estimate_last_group_only_as_before_the_repair_of_D61", lambda: patch(MBV, "estimate", est_last_group_only)),
            ("r4_estimate_drops_group_column_without_genotype_matrix", lambda: patch(MBV, "estimate", est_never_groups_by_group)),
            ("r4_nenv_setter_as_before_the_repair_of_D60", lambda: patch(GEP, "nenv", property(nenv_prop.fget, nenv_prerepair))),
            ("r4_nenv_setter_invents_replicate_counts", lambda: patch(GEP, "nenv", property(nenv_prop.fget, nenv_pads_with_ones))),
            ("r4_set_h2_subtracts_env_and_rep_variance", lambda: patch(GEP, "set_h2", h2_minus_env_rep)),
            ("r4_phenotype_replicates_of_an_environment_are_copies", lambda: patch(GEP, "phenotype", pheno_replicates_are_copies)),
            ("r4_phenotype_replicate_effect_once_per_environment", lambda: patch(GEP, "phenotype", pheno_rep_effect_once_per_env)),
            ("r4_phenotype_error_once_per_environment", lambda: patch(GEP, "phenotype", pheno_error_once_per_env)),
            ("r4_phenotype_value_block_shared_between_calls", lambda: patch(GEP, "phenotype", pheno_buffer_reused)),
            ("r4_estimate_trait_values_in_frame_column_order", lambda: patch(MBV, "estimate", est_traits_in_frame_order)),
            ("r4_true_breeding_value_reports_genotypic_values", lambda: patch(TBV, "estimate", truebv_genotypic)),
            ("r4_nrep_scalar_broadcast_in_int8", lambda: patch(GEP, "nrep", property(nrep_prop.fget, nrep_scalar_int8))),
            ("r4_from_hdf5_var_rep_and_var_err_swapped", lambda: patch(GEP, "from_hdf5", classmethod(hdf5_var_rep_err_swapped))),
        ]

        return round4 + round3 + [
            ("pheno_taxa_sorted_within_block", lambda: patch(GEP, "phenotype", taxa_sorted)),
            ("pheno_group_labels_rolled", lambda: patch(GEP, "phenotype", grp_rolled)),
            ("pheno_env_rep_swapped", lambda: patch(GEP, "phenotype", rep_major)),
            ("pheno_last_replicate_missing", lambda: patch(GEP, "phenotype", one_rep_short)),
            ("pheno_error_rows_reversed", lambda: patch(GEP, "phenotype", err_reversed)),
            ("pheno_env_effect_not_added", lambda: patch(GEP, "phenotype", env_not_added)),
            ("pheno_variance_squared", lambda: patch(GEP, "phenotype", var_as_sd)),
            ("set_h2_without_division", lambda: patch(GEP, "set_h2", h2_wrong)),
            ("set_H2_wrong_ratio", lambda: patch(GEP, "set_H2", H2_wrong)),
            ("estimate_groupby_order_as_genotype_order", lambda: patch(MBV, "estimate", groupby_order)),
            ("estimate_zero_for_absent", lambda: patch(MBV, "estimate", zero_for_absent)),
            ("estimate_median", lambda: patch(MBV, "estimate", median_not_mean)),
            ("estimate_first_record", lambda: patch(MBV, "estimate", first_record_only)),
            ("estimate_labels_sorted", lambda: patch(MBV, "estimate", labels_from_table)),
            ("estimate_nan_cells_as_zero", lambda: patch(MBV, "estimate", nan_as_zero)),
            ("truepheno_labels_rolled", lambda: patch(TP, "phenotype", true_rolled)),
            ("truebv_sorted_rows", lambda: patch(TBV, "estimate", truebv_sorted)),
        ]


PROP = C14()
