"""C14 — phenotyping (G_E_Phenotyping, TruePhenotyping) and breeding-value estimation
(MeanPhenotypicBreedingValue, TrueBreedingValue) preserve truth and alignment.

Case kinds
  pheno    population + additive genomic model + trial layout; the normal draws are oracle inputs
           (scripted dyadic values / a recorded genuine generator / all variances zero)
  h2       set_h2 / set_H2 on a population
  meanbv   a phenotype table (hand-built, rows shuffled, labels unsorted, extra and missing taxa)
           estimated three times: as is, rows permuted, genotype taxa permuted
  pipeline phenotype() of the real code feeds estimate() of the real code
  stat     large layouts with a genuine generator: realised variance components vs requested
           (a statistical test of the "converge" clause, 7-sigma acceptance band)
  reject   configurations that the code is meant to refuse (nrep <= 0, nrep of the wrong length, a target above 1,
           a negative variance): the model's `none` against the implementation's exception (correspondence only)
"""
import contextlib
import math
from fractions import Fraction

import numpy

from .. import canon, compat
from ..core import Prop

compat.install()

SITE_EST = "MeanPhenotypicBreedingValue.estimate"


def _mods():
    compat.import_pybrops()
    import pandas
    import pybrops.breed.prot.pt.G_E_Phenotyping as gep
    import pybrops.breed.prot.pt.TruePhenotyping as tp
    import pybrops.breed.prot.bv.MeanPhenotypicBreedingValue as mbv
    import pybrops.breed.prot.bv.TrueBreedingValue as tbv
    import pybrops.model.gmod.DenseAdditiveLinearGenomicModel as dalgm
    import pybrops.model.gmod.DenseAdditiveDominanceLinearGenomicModel as dadlgm
    import pybrops.popgen.gmat.DensePhasedGenotypeMatrix as dpgm
    import pybrops.popgen.gmat.DenseGenotypeMatrix as dgm
    return {"pandas": pandas, "gep": gep, "tp": tp, "mbv": mbv, "tbv": tbv, "dalgm": dalgm, "dadlgm": dadlgm, "dpgm": dpgm,
            "dgm": dgm}


def _f(x):
    return float(Fraction(x))


# ---------------------------------------------------------------------------------------- generators
class _Scripted(numpy.random.Generator):
    """genuine numpy Generator subclass whose multivariate_normal pops scripted values and logs the call"""

    def __init__(self, script):
        super().__init__(numpy.random.PCG64(0))
        self.script = list(script)
        self.log = []
        self.draws = []

    def multivariate_normal(self, mean, cov, size=None, **kw):
        self.log.append({"mean": numpy.array(mean, dtype=float).tolist(),
                         "cov": numpy.array(cov, dtype=float).tolist(),
                         "size": None if size is None else int(size)})
        if not self.script:
            raise RuntimeError("scripted generator exhausted: the code draws more often than the model")
        out = numpy.array(self.script.pop(0), dtype=float)
        self.draws.append(out)
        return out


class _Recording(numpy.random.Generator):
    """genuine generator; records what it hands out"""

    def __init__(self, seed):
        super().__init__(numpy.random.PCG64(int(seed)))
        self.log = []
        self.draws = []
        self.script = []

    def multivariate_normal(self, mean, cov, size=None, **kw):
        out = super().multivariate_normal(mean, cov, size, **kw)
        self.log.append({"mean": numpy.array(mean, dtype=float).tolist(),
                         "cov": numpy.array(cov, dtype=float).tolist(),
                         "size": None if size is None else int(size)})
        self.draws.append(numpy.array(out, dtype=float))
        return out


class _RecordingRS(numpy.random.RandomState):
    """genuine legacy RandomState; records what it hands out"""

    def __init__(self, seed):
        super().__init__(int(seed) % (2 ** 32))
        self.log = []
        self.draws = []
        self.script = []

    def multivariate_normal(self, mean, cov, size=None, **kw):
        out = super().multivariate_normal(mean, cov, size, **kw)
        self.log.append({"mean": numpy.array(mean, dtype=float).tolist(),
                         "cov": numpy.array(cov, dtype=float).tolist(),
                         "size": None if size is None else int(size)})
        self.draws.append(numpy.array(out, dtype=float))
        return out


def _flatten_script(script):
    out = []
    for e in script:
        out.append([_f(v) for v in e["env"]])
        for r in e["reps"]:
            out.append([_f(v) for v in r["rep"]])
            out.append([[_f(v) for v in row] for row in r["err"]])
    return out


def _enc_draws(draws):
    out = []
    for d in draws:
        d = numpy.asarray(d)
        out.append({"v": canon.enc(d)} if d.ndim == 1 else {"m": canon.enc(d)})
    return out


# ---------------------------------------------------------------------------------------- builders
def _population(m, pop):
    geno = numpy.array(pop["geno"], dtype="int8")
    n, p = geno.shape[1], geno.shape[2]
    taxa = None if pop.get("taxa") is None else numpy.array(pop["taxa"], dtype=object)
    grp = None if pop.get("grp") is None else numpy.array(pop["grp"], dtype=int)
    pg = m["dpgm"].DensePhasedGenotypeMatrix(
        geno, taxa=taxa, taxa_grp=grp,
        vrnt_chrgrp=numpy.ones(p, dtype=int), vrnt_phypos=numpy.arange(p) + 1)
    trait = None if pop.get("trait") is None else numpy.array(pop["trait"], dtype=object)
    beta = numpy.array([[_f(v) for v in r] for r in pop["beta"]], dtype=float)
    u_a = numpy.array([[_f(v) for v in r] for r in pop["u"]], dtype=float)
    if pop.get("ud") is not None:         # additive + dominance model: genotypic value != breeding value
        gm = m["dadlgm"].DenseAdditiveDominanceLinearGenomicModel(
            beta=beta, u_misc=None, u_a=u_a,
            u_d=numpy.array([[_f(v) for v in r] for r in pop["ud"]], dtype=float), trait=trait)
    else:
        gm = m["dalgm"].DenseAdditiveLinearGenomicModel(beta=beta, u_misc=None, u_a=u_a, trait=trait)
    return pg, gm


def _gv_exact(pop, dominance=True):
    """true genotypic values Z u_a (+ [Z == 1] u_d) + location in exact arithmetic
    (location = beta[0] + mean-contrast of the other fixed effects); dominance=False: breeding values"""
    geno = pop["geno"]
    n, p = len(geno[0]), len(geno[0][0])
    t = len(pop["u"][0]) if p else len(pop["beta"][0])
    q = len(pop["beta"])
    loc = [Fraction(pop["beta"][0][j]) + sum(Fraction(pop["beta"][k][j]) for k in range(1, q)) / q for j in range(t)]
    out = []
    for i in range(n):
        z = [sum(ph[i][k] for ph in geno) for k in range(p)]
        row = [sum(z[k] * Fraction(pop["u"][k][j]) for k in range(p)) + loc[j] for j in range(t)]
        if dominance and pop.get("ud") is not None:
            row = [row[j] + sum(Fraction(pop["ud"][k][j]) for k in range(p) if z[k] == 1) for j in range(t)]
        out.append(row)
    return out


def _var(x, t):
    """var_* argument of the constructor from its JSON form"""
    if x is None:
        return None
    if isinstance(x, list):
        return numpy.array([_f(v) for v in x], dtype=float)
    return _f(x)


def _var_vec(x, t):
    if x is None:
        return [Fraction(0)] * t
    if isinstance(x, list):
        return [Fraction(v) for v in x]
    return [Fraction(x)] * t


def _nrep_arg(x):
    return numpy.array(x, dtype=int) if isinstance(x, list) else int(x)


def _nrep_list(nenv, x):
    return list(x) if isinstance(x, list) else [int(x)] * nenv


def _layout_asis(case):
    """replicate counts per environment as the CODE uses them: the array stored at construction, zipped with
    range(nenv) where nenv may have been re-assigned afterwards"""
    base = _nrep_list(case["nenv"], case["nrep"])
    after = case.get("nenv_after")
    return base if after is None else base[:after]


def _layout_spec(case):
    """replicate counts per environment that the configuration asks for: `nenv_after` environments (when re-assigned);
    a scalar `nrep` means that many replicates in EVERY environment"""
    after = case.get("nenv_after")
    if after is None:
        return _nrep_list(case["nenv"], case["nrep"])
    if isinstance(case["nrep"], list):
        return list(case["nrep"])[:after]           # only generated for after <= nenv
    return [int(case["nrep"])] * after


def _cell(v):
    """one label cell of a data frame -> JSON (None / NaN -> None)"""
    if v is None:
        return None
    if isinstance(v, (float, numpy.floating)) and math.isnan(v):
        return None
    if isinstance(v, (int, numpy.integer)):
        return int(v)
    if isinstance(v, (float, numpy.floating)) and float(v).is_integer():
        return int(v)
    return str(v)


def _frame_rows(df, trait_cols, taxa_col="taxa", grp_col="taxa_grp"):
    rows = []
    has_grp = grp_col is not None and grp_col in df.columns
    for k in range(len(df)):
        rows.append({
            "taxa": str(df[taxa_col].iloc[k]),
            "grp": _cell(df[grp_col].iloc[k]) if has_grp else None,
            "env": int(df["env"].iloc[k]) if "env" in df.columns else 0,
            "rep": int(df["rep"].iloc[k]) if "rep" in df.columns else 0,
            "vals": [canon.enc(float(df[c].iloc[k])) for c in trait_cols],
        })
    return rows


def _bv_obs(bv):
    mat = bv.unscale()
    return {"taxa": None if bv.taxa is None else [str(x) for x in bv.taxa],
            "grp": None if bv.taxa_grp is None else [int(x) for x in bv.taxa_grp],
            "trait": None if bv.trait is None else [str(x) for x in bv.trait],
            "rows": [[None if math.isnan(float(v)) else canon.enc(float(v)) for v in r] for r in mat]}


def _rows_close(a, b, rel=1e-9, abs_=1e-12):
    """two lists of rows whose entries are canonical rationals or None (NaN)"""
    if a is None or b is None or len(a) != len(b):
        return False
    for ra, rb in zip(a, b):
        if ra is None or rb is None:
            # a whole missing row (model) against a row of NaN entries (implementation)
            ra_ = ra if ra is not None else [None] * (len(rb) if rb is not None else 0)
            rb_ = rb if rb is not None else [None] * (len(ra) if ra is not None else 0)
            ra, rb = ra_, rb_
        if len(ra) != len(rb):
            return False
        for x, y in zip(ra, rb):
            if (x is None) != (y is None):
                return False
            if x is not None and not canon.close(canon.dec(x), canon.dec(y), rel, abs_):
                return False
    return True


class C14(Prop):
    PID = "C14"
    MODULE = "PybropsModel.Props.C14"
    N_QUICK = 400
    N_THOROUGH = 6000
    RULE = ("pheno: 1-7 taxa (sizes 9/10/11/101 for default names) x 1-5 markers x 1-3 traits, additive or "
            "additive+dominance genomic model, 1-2 fixed effects, unsorted unique names (10% with one repeated name) or no "
            "names, groups present/absent, 1-4 environments with scalar or per-environment replicate counts, variances "
            "None/scalar/array/zero, draws scripted (dyadic), genuine (recorded) or all-zero variance; h2: targets in (0,1] "
            "scalar or per trait incl. 1, traits with var_A = 0; meanbv: hand-built tables with shuffled rows, unsorted "
            "labels, duplicate names inside one group, taxa absent from the table and taxa absent from the genotype "
            "matrix, trait columns reordered, 25 % with NaN cells (incl. a taxon without any value for a trait), estimated as "
            "is / rows permuted / genotype taxa permuted; thorough tier: exhaustive enumeration of all tables of 1-4 records "
            "over 2 names x 2 groups against all genotype lists of 1-3 entries (27 200 cases); pipeline: real "
            "phenotype() output into real estimate(); stat: 2000-3000 records with a genuine generator.  Non-trivial = "
            "pheno with >= 2 taxa and >= 2 (env,rep) cells and names not in sorted order; h2 with var_A > 0 and target "
            "< 1; meanbv with a taxon having >= 2 records and genotype order different from group-by order")
    TRUSTED = [
        "pandas DataFrame construction / column access / groupby().agg(mean) entered through the contract "
        "'one row per distinct key, per-column arithmetic mean, rows with a missing key dropped' (re-checked on every "
        "case by the Spec oracle on the implementation's output)",
        "numpy Generator.multivariate_normal delivers independent N(mean, cov) variates (the covariance arguments the "
        "code passes are recorded and compared with diag(var_*) on every case; given that contract the almost-sure limit "
        "of the realised error variance is PROVED (realised_error_variance_converges_to_requested), the replicate / "
        "environment limits up to mean-error terms; the `stat` stream tests the same statistically on the real code)",
        "the genomic model's gegv()/var_A()/var_G() (C04) are observed, not modelled, apart from the additive closed form "
        "Z u + location used to cross-check the observed true values",
        "BreedingValueMatrix.from_numpy / unscale round trip (C15): outputs are read through unscale() with 1e-9 tolerance",
    ]
    ASSUMPTIONS = [
        "taxon identity = taxon name: a name that occurs under two different group labels while taxa_grp_col is set is "
        "outside the valid inputs (the code then returns the mean of the last group only; never generated)",
        "configurations are built by the constructor and, in 12 % of the `real` pheno cases, `nenv` is re-assigned through "
        "its public setter afterwards: fewer environments with any nrep (the zip truncates - valid), more environments with "
        "a scalar nrep (every environment is owed that many replicates - finding D60); raising nenv over a non-constant "
        "nrep array has no defined meaning and is not generated",
        "phenotype tables may hold NaN cells: the model follows pandas' skip-NaN group mean (`meanBVNan`); the Spec accepts "
        "skip-NaN mean or missing where only some records of a taxon lack the value (the property does not say)",
        "math.ceil(math.log10(n)) is the least k with n <= 10**k (exercised at n = 1, 9, 10, 11, 101)",
        "float arithmetic: inputs are small integers / dyadic rationals so sums are exact; comparisons use rel 1e-9",
    ]

    # set while a self-test mutant is active: cases that trigger the known finding D18 fail on the unchanged tree
    # already, so they are neutralised there - a mutant has to be flagged by some OTHER case to count as killed
    _selftest_active = False

    # ================================================================================ corpus
    def corpus(self):
        pop3 = {"geno": [[[1, 0, 1], [0, 0, 1], [1, 1, 0]], [[1, 1, 0], [0, 1, 0], [1, 0, 0]]],
                "taxa": ["d", "b", "a"], "grp": [2, 1, 2], "trait": ["y1", "y2"],
                "beta": [[10, 20]], "u": [[1, -2], [3, 1], [-1, 4]]}
        pop_nolab = dict(pop3, taxa=None, grp=None, trait=None)
        script = [{"env": [1, 2], "reps": [{"rep": ["1/2", "1/4"], "err": [[1, 1], [2, 2], [3, 3]]},
                                           {"rep": ["1/8", 0], "err": [[0, 0], [0, 1], [1, 0]]}]},
                  {"env": [-1, "1/2"], "reps": [{"rep": [0, 0], "err": [["-1/2", 0], [0, 0], [2, -2]]}]}]
        table = {"taxa": ["b", "a", "b", "c", "a", "b"], "grp": [1, 2, 1, 3, 2, 1],
                 "env": [1, 1, 2, 1, 2, 3], "rep": [1, 1, 1, 1, 1, 1],
                 "cols": ["y1", "y2"], "vals": [[1, 10], [2, 20], [4, 40], [8, 80], [3, 30], [7, "141/2"]]}
        return [
            {"kind": "pheno", "pop": pop3, "nenv": 2, "nrep": [2, 1], "var_env": 1, "var_rep": [2, 3], "var_err": "1/2",
             "mode": "scripted", "script": script},
            {"kind": "pheno", "pop": pop3, "nenv": 2, "nrep": [2, 1], "var_env": None, "var_rep": 0, "var_err": [0, 0],
             "mode": "zero", "seed": 5},
            {"kind": "pheno", "pop": pop_nolab, "nenv": 3, "nrep": 2, "var_env": 1, "var_rep": 1, "var_err": 1,
             "mode": "real", "seed": 11},
            {"kind": "pheno", "pop": {"geno": [[[1]], [[0]]], "taxa": ["solo"], "grp": None, "trait": ["t"],
                                      "beta": [[0]], "u": [[3]]},
             "nenv": 1, "nrep": 1, "var_env": None, "var_rep": None, "var_err": None, "mode": "zero", "seed": 1},
            # D60: nenv raised through its setter after construction with a scalar nrep
            {"kind": "pheno", "pop": pop3, "nenv": 2, "nrep": 1, "nenv_after": 4, "var_env": 1, "var_rep": 1, "var_err": 1,
             "mode": "real", "seed": 7},
            {"kind": "pheno", "pop": pop3, "nenv": 3, "nrep": [2, 1, 2], "nenv_after": 2, "var_env": 1, "var_rep": 1,
             "var_err": 1, "mode": "real", "seed": 8},
            {"kind": "h2", "pop": pop3, "which": "h2", "h2": "1/2"},
            {"kind": "h2", "pop": pop3, "which": "H2", "h2": [1, "1/4"]},
            {"kind": "h2", "pop": dict(pop3, u=[[1, 0], [3, 0], [-1, 0]]), "which": "h2", "h2": "3/4"},
            {"kind": "meanbv", "table": table, "taxa_col": "taxa", "grp_col": "taxa_grp", "trait_cols": ["y2", "y1"],
             "gt": {"taxa": ["c", "zz", "a", "b"], "grp": [7, 8, 9, 6]}, "row_perm": [5, 3, 1, 0, 4, 2],
             "gt_perm": [2, 0, 3, 1]},
            {"kind": "meanbv", "table": dict(table, vals=[[1, None], [None, 20], [4, None], [None, None], [3, 30], [7, None]]),
             "taxa_col": "taxa", "grp_col": "taxa_grp", "trait_cols": ["y2", "y1"],
             "gt": {"taxa": ["c", "zz", "a", "b"], "grp": [7, 8, 9, 6]}, "row_perm": [5, 3, 1, 0, 4, 2],
             "gt_perm": [2, 0, 3, 1]},
            {"kind": "meanbv", "table": dict(table, vals=[[1, None], [None, 20], [4, None], [None, None], [3, 30], [7, None]]),
             "taxa_col": "taxa", "grp_col": None, "trait_cols": ["y1", "y2"], "gt": None,
             "row_perm": [5, 3, 1, 0, 4, 2], "gt_perm": None},
            {"kind": "meanbv", "table": table, "taxa_col": "taxa", "grp_col": None, "trait_cols": ["y1"],
             "gt": None, "row_perm": [1, 0, 2, 5, 4, 3], "gt_perm": None},
            # D18: population without groups, estimator told to group by the (all-missing) taxa_grp column
            {"kind": "meanbv", "table": dict(table, grp=None), "taxa_col": "taxa", "grp_col": "taxa_grp",
             "trait_cols": ["y1", "y2"], "gt": {"taxa": ["c", "zz", "a", "b"], "grp": None},
             "row_perm": [5, 3, 1, 0, 4, 2], "gt_perm": [2, 0, 3, 1]},
            {"kind": "meanbv", "table": dict(table, grp=None), "taxa_col": "taxa", "grp_col": "taxa_grp",
             "trait_cols": ["y1"], "gt": None, "row_perm": [5, 3, 1, 0, 4, 2], "gt_perm": None},
            {"kind": "pipeline", "pop": dict(pop3, grp=None), "nenv": 2, "nrep": 2, "var_env": 1, "var_rep": 1,
             "var_err": 1, "seed": 3, "use_grp": True, "gt_perm": [2, 0, 1]},
            {"kind": "pipeline", "pop": pop3, "nenv": 2, "nrep": 2, "var_env": 1, "var_rep": 1,
             "var_err": 1, "seed": 3, "use_grp": True, "gt_perm": [2, 0, 1]},
        ]

    # ================================================================================ generation
    @staticmethod
    def _names(rng, n):
        pool = ["zeta", "Alpha", "mu", "beta", "B73", "b73", "Mo17", "10", "9", "a", "Z", "é", "line 2", "x_1", "x_10",
                "x_2", "taxon", "Taxon1", "omega", "K"]
        names = rng.sample(pool, n) if n <= len(pool) else [f"n{rng.randrange(10**6)}_{i}" for i in range(n)]
        return names

    def _pop(self, rng, n=None, named=None):
        n = n if n is not None else rng.choice([1, 2, 2, 3, 3, 4, 5, 7])
        p = rng.choice([1, 2, 3, 3, 5])
        t = rng.choice([1, 1, 2, 2, 3])
        geno = [[[rng.randint(0, 1) for _ in range(p)] for _ in range(n)] for _ in range(2)]
        # make the taxa genetically distinct where possible so that a mix-up of rows is visible
        u = [[rng.choice([-3, -2, -1, 1, 2, 3, 5]) * (2 ** k if rng.random() < 0.5 else 1) for _ in range(t)]
             for k in range(p)]
        q = rng.choice([1, 1, 1, 2])
        beta = [[rng.randint(-5, 20) for _ in range(t)]] + [[2 * rng.randint(-3, 3) for _ in range(t)] for _ in range(q - 1)]
        named = (rng.random() < 0.8) if named is None else named
        taxa = self._names(rng, n) if named else None
        grp = [rng.randint(1, 3) for _ in range(n)] if rng.random() < 0.6 else None
        trait = [f"tr{j}" for j in rng.sample(range(10), t)] if rng.random() < 0.7 else None
        pop = {"geno": geno, "taxa": taxa, "grp": grp, "trait": trait, "beta": beta, "u": u}
        if rng.random() < 0.25:
            pop["ud"] = [[rng.choice([-2, -1, 0, 1, 4]) for _ in range(t)] for _ in range(p)]
            pop["beta"] = beta[:1]
        return pop

    @staticmethod
    def _t(pop):
        return len(pop["u"][0])

    def _variance(self, rng, t, allow_zero=True):
        r = rng.random()
        vals = [0, 1, 2, Fraction(1, 2), Fraction(9, 4), 4] if allow_zero else [1, 2, Fraction(1, 2), Fraction(9, 4), 4]
        if r < 0.15:
            return None
        if r < 0.55:
            return canon.enc(rng.choice(vals))
        return [canon.enc(rng.choice(vals)) for _ in range(t)]

    def _gen_pheno(self, rng):
        r = rng.random()
        if r < 0.06:
            pop = self._pop(rng, n=rng.choice([9, 10, 11, 101]), named=False)
        else:
            pop = self._pop(rng)
        t = self._t(pop)
        n = len(pop["geno"][0])
        if pop["taxa"] is not None and n >= 2 and rng.random() < 0.1:     # two taxa sharing one name
            pop["taxa"][rng.randrange(n)] = pop["taxa"][rng.randrange(n)]
        nenv = rng.choice([1, 2, 2, 3, 4])
        nrep = rng.choice([1, 2, 3]) if rng.random() < 0.4 else [rng.randint(1, 3) for _ in range(nenv)]
        mode = rng.choice(["scripted", "scripted", "real", "zero"])
        case = {"kind": "pheno", "pop": pop, "nenv": nenv, "nrep": nrep, "mode": mode}
        if mode == "zero":
            for k in ("var_env", "var_rep", "var_err"):
                case[k] = rng.choice([None, 0, [0] * t])
            case["seed"] = rng.randrange(2 ** 31)
            return case
        for k in ("var_env", "var_rep", "var_err"):
            case[k] = self._variance(rng, t)
        if mode == "real":
            case["seed"] = rng.randrange(2 ** 31)
            case["legacy_rng"] = rng.random() < 0.3
            if rng.random() < 0.12:        # `nenv` re-assigned through its setter after construction
                if isinstance(nrep, list):
                    if nenv > 1:
                        case["nenv_after"] = rng.randint(1, nenv - 1)       # fewer environments: the zip truncates
                else:
                    case["nenv_after"] = rng.choice([max(1, nenv - 1), nenv + 1, nenv + 2])
            return case
        ve, vr, vx = (_var_vec(case[k], t) for k in ("var_env", "var_rep", "var_err"))

        def z(v):
            return [canon.enc(Fraction(rng.randint(-12, 12), 4)) if x != 0 else 0 for x in v]
        script = []
        for e, k in enumerate(_nrep_list(nenv, nrep)):
            script.append({"env": z(ve), "reps": [{"rep": z(vr), "err": [z(vx) for _ in range(n)]} for _ in range(k)]})
        case["script"] = script
        return case

    def _gen_h2(self, rng):
        pop = self._pop(rng, n=rng.choice([2, 3, 4, 5, 7, 49]))
        t = self._t(pop)
        if rng.random() < 0.15:      # a trait without genetic variance
            j = rng.randrange(t)
            for row in pop["u"]:
                row[j] = 0
        targets = [1, Fraction(1, 2), Fraction(1, 4), Fraction(3, 4), Fraction(1, 8), Fraction(1, 1024),
                   Fraction(0.3), Fraction(0.9), Fraction(0.05), Fraction(0.999)]
        h2 = canon.enc(rng.choice(targets)) if rng.random() < 0.5 else [canon.enc(rng.choice(targets)) for _ in range(t)]
        return {"kind": "h2", "pop": pop, "which": rng.choice(["h2", "H2"]), "h2": h2}

    def _gen_meanbv(self, rng):
        ntax = rng.choice([1, 2, 3, 4, 5, 6])
        names = self._names(rng, ntax + 2)
        table_names, extra = names[:ntax], names[ntax:]
        ncol = rng.choice([1, 2, 3])
        cols = [f"c{j}" for j in rng.sample(range(10), ncol)]
        with_grp = rng.random() < 0.65
        gmap = {nm: rng.randint(1, 4) for nm in table_names}
        taxa, grp, env, rep, vals = [], [], [], [], []
        for nm in table_names:
            for k in range(rng.choice([1, 1, 2, 3, 5])):
                taxa.append(nm)
                grp.append(gmap[nm])
                env.append(k + 1)
                rep.append(1)
                vals.append([canon.enc(Fraction(rng.randint(-40, 40), rng.choice([1, 2, 4]))) for _ in range(ncol)])
        if rng.random() < 0.25:        # missing phenotype values (NaN cells); pandas' mean skips them
            for row in vals:
                for j in range(ncol):
                    if rng.random() < 0.3:
                        row[j] = None
            if rng.random() < 0.5:     # a taxon without any value for one trait
                nm, j = rng.choice(table_names), rng.randrange(ncol)
                for row, who in zip(vals, taxa):
                    if who == nm:
                        row[j] = None
        order = list(range(len(taxa)))
        rng.shuffle(order)
        taxa, grp, env, rep, vals = ([x[i] for i in order] for x in (taxa, grp, env, rep, vals))
        table = {"taxa": taxa, "grp": grp if with_grp else None, "env": env, "rep": rep, "cols": cols, "vals": vals}
        use_grp = with_grp and rng.random() < 0.7
        tcols = rng.sample(cols, rng.randint(1, ncol))
        case = {"kind": "meanbv", "table": table, "taxa_col": "taxa", "grp_col": "taxa_grp" if use_grp else None,
                "trait_cols": tcols}
        if rng.random() < 0.8:
            gt_names = [nm for nm in table_names if rng.random() < 0.8] + [nm for nm in extra if rng.random() < 0.6]
            if not gt_names:
                gt_names = [table_names[0]]
            if rng.random() < 0.2 and gt_names:        # the same taxon twice in the genotype matrix
                gt_names.append(rng.choice(gt_names))
            rng.shuffle(gt_names)
            case["gt"] = {"taxa": gt_names,
                          "grp": [rng.randint(1, 9) for _ in gt_names] if rng.random() < 0.6 else None}
            perm = list(range(len(gt_names)))
            rng.shuffle(perm)
            case["gt_perm"] = perm
        else:
            case["gt"] = None
            case["gt_perm"] = None
        perm = list(range(len(taxa)))
        rng.shuffle(perm)
        case["row_perm"] = perm
        return case

    def _gen_pipeline(self, rng, finding=False):
        pop = self._pop(rng, n=rng.choice([2, 3, 4, 5]), named=True)
        if finding:
            pop["grp"] = None
        t = self._t(pop)
        n = len(pop["geno"][0])
        nenv = rng.choice([1, 2, 3])
        perm = list(range(n))
        rng.shuffle(perm)
        return {"kind": "pipeline", "pop": pop, "nenv": nenv, "nrep": rng.choice([1, 2, 3]),
                "var_env": self._variance(rng, t), "var_rep": self._variance(rng, t), "var_err": self._variance(rng, t),
                "seed": rng.randrange(2 ** 31), "use_grp": True if finding else (pop["grp"] is not None and rng.random() < 0.6),
                "gt_perm": perm}

    def _gen_stat(self, rng):
        t = rng.choice([1, 2])
        pop = self._pop(rng, n=rng.choice([3, 4]))
        pop.pop("ud", None)
        pop["u"] = [row[:1] * t for row in pop["u"]]
        pop["beta"] = [row[:1] * t for row in pop["beta"]]
        pop["trait"] = None
        v = lambda: [canon.enc(rng.choice([Fraction(1, 4), 1, 4, 9])) for _ in range(t)]
        return {"kind": "stat", "pop": pop, "nenv": rng.choice([350, 450]), "nrep": 2,
                "var_env": v(), "var_rep": v(), "var_err": v(), "seed": rng.randrange(2 ** 31)}

    def _gen_reject(self, rng):
        pop = self._pop(rng, n=rng.choice([2, 3]))
        t = self._t(pop)
        what = rng.choice(["nrep_zero", "nrep_array_zero", "nrep_array_length", "h2_above_one", "negative_variance"])
        case = {"kind": "reject", "pop": pop, "what": what, "nenv": rng.choice([2, 3])}
        if what == "nrep_zero":
            case["nrep"] = 0
        elif what == "nrep_array_zero":
            case["nrep"] = [1] * (case["nenv"] - 1) + [0]
        elif what == "nrep_array_length":
            case["nrep"] = [1] * (case["nenv"] + rng.choice([-1, 1]))
        elif what == "h2_above_one":
            case["h2"] = [canon.enc(rng.choice([Fraction(3, 2), 2, Fraction(9, 8)]))] * t
        else:
            case["var_err"] = [-1] * t
        return case

    def generate(self, rng, n, tier):
        out = []
        for i in range(n):
            r = rng.random()
            if r < 0.03:
                out.append(self._gen_reject(rng))
            elif r < 0.40:
                out.append(self._gen_pheno(rng))
            elif r < 0.55:
                out.append(self._gen_h2(rng))
            elif r < 0.85:
                out.append(self._gen_meanbv(rng))
            elif r < 0.96:
                out.append(self._gen_pipeline(rng))
            elif r < 0.975:
                out.append(self._gen_pipeline(rng, finding=True))
            else:
                out.append(self._gen_stat(rng))
        return out

    # ================================================================================ exhaustive small scope
    def exhaustive(self, tier):
        """thorough tier: EVERY phenotype table of 1-4 records over 2 names x 2 groups (record i carries the value 2**i, so a
        mean identifies the set of records it was taken over), estimated without and with the group column, against EVERY
        genotype list of 1-3 entries over {a, b, c} (c never phenotyped) and against no genotype matrix: 27 200 cases.
        With the group column, tables in which one name occurs under both groups are outside the valid inputs (taxon
        identity = name); they are kept as correspondence-only cases (the model's last-group-wins join against the code)."""
        if tier != "thorough":
            return None
        import itertools
        keys = [(nm, g) for nm in ("a", "b") for g in (1, 2)]
        gts = [list(x) for k in (1, 2, 3) for x in itertools.product("abc", repeat=k)] + [None]
        out = []
        for nrec in (1, 2, 3, 4):
            for recs in itertools.product(keys, repeat=nrec):
                table = {"taxa": [r[0] for r in recs], "grp": [r[1] for r in recs], "env": list(range(1, nrec + 1)),
                         "rep": [1] * nrec, "cols": ["y"], "vals": [[2 ** i] for i in range(nrec)]}
                functional = all(len({g for nm2, g in recs if nm2 == nm}) <= 1 for nm in ("a", "b"))
                for grp_col in (None, "taxa_grp"):
                    for gt in gts:
                        c = {"kind": "meanbv", "table": table, "taxa_col": "taxa", "grp_col": grp_col, "trait_cols": ["y"],
                             "gt": None if gt is None else {"taxa": gt, "grp": None},
                             "gt_perm": None if gt is None else list(range(1, len(gt))) + [0],
                             "row_perm": list(range(nrec))[::-1], "_exhaustive": True}
                        if grp_col is not None and not functional:
                            c["corr_only"] = True
                        out.append(c)
        return out

    # ================================================================================ implementation
    def _protocol(self, m, case, gm, rng_obj):
        t = self._t(case["pop"])
        return m["gep"].G_E_Phenotyping(
            gm, nenv=int(case["nenv"]), nrep=_nrep_arg(case["nrep"]),
            var_env=_var(case.get("var_env"), t), var_rep=_var(case.get("var_rep"), t),
            var_err=_var(case.get("var_err"), t), rng=rng_obj)

    def _trait_names(self, df):
        return [c for c in df.columns if c not in ("taxa", "taxa_grp", "env", "rep")]

    def run_impl(self, case):
        m = _mods()
        k = case["kind"]
        if k == "pheno":
            pg, gm = _population(m, case["pop"])
            if case["mode"] == "scripted":
                g = _Scripted(_flatten_script(case["script"]))
            elif case.get("legacy_rng"):
                g = _RecordingRS(case["seed"])
            else:
                g = _Recording(case["seed"])
            pt = self._protocol(m, case, gm, g)
            if case.get("nenv_after") is not None:
                pt.nenv = int(case["nenv_after"])         # public setter, after construction
            geno0 = pg.mat.copy()
            df = pt.phenotype(pg)
            gv = gm.gegv(pg).unscale()
            tcols = self._trait_names(df)
            tdf = m["tp"].TruePhenotyping(gm).phenotype(pg)
            tbv = m["tbv"].TrueBreedingValue(gm).estimate(None, pg)
            return {"cols": [str(c) for c in df.columns], "rows": _frame_rows(df, tcols),
                    "gv": canon.enc(gv), "nrep": [int(x) for x in pt.nrep],
                    "var": {kk: canon.enc(getattr(pt, kk)) for kk in ("var_env", "var_rep", "var_err")},
                    "log": g.log, "draws": _enc_draws(g.draws), "leftover": len(g.script),
                    "true_cols": [str(c) for c in tdf.columns],
                    "true_rows": _frame_rows(tdf, [c for c in tdf.columns if c not in ("taxa", "taxa_grp")]),
                    "truebv": _bv_obs(tbv),
                    "input_untouched": bool((geno0 == pg.mat).all())}
        if k == "h2":
            pg, gm = _population(m, case["pop"])
            pt = m["gep"].G_E_Phenotyping(gm, nenv=1, nrep=1, rng=numpy.random.default_rng(0))
            h2 = case["h2"]
            arg = numpy.array([_f(v) for v in h2], dtype=float) if isinstance(h2, list) else _f(h2)
            if case["which"] == "h2":
                va = gm.var_A(pg)
                pt.set_h2(arg, pg)
            else:
                va = gm.var_G(pg)
                pt.set_H2(arg, pg)
            return {"varA": canon.enc(va), "varErr": canon.enc(pt.var_err), "gv": canon.enc(gm.gegv(pg).unscale())}
        if k == "meanbv":
            return self._run_meanbv(m, case)
        if k == "pipeline":
            pg, gm = _population(m, case["pop"])
            pt = self._protocol(m, case, gm, numpy.random.default_rng(int(case["seed"])))
            df = pt.phenotype(pg)
            tcols = self._trait_names(df)
            perm = case["gt_perm"]
            gt = m["dgm"].DenseGenotypeMatrix(
                numpy.zeros((len(perm), 1), dtype="int8"),
                taxa=numpy.array([case["pop"]["taxa"][i] for i in perm], dtype=object),
                taxa_grp=None if case["pop"]["grp"] is None else numpy.array([case["pop"]["grp"][i] for i in perm], dtype=int))
            est = m["mbv"].MeanPhenotypicBreedingValue("taxa", "taxa_grp" if case["use_grp"] else None, tcols)
            bv = est.estimate(df, gt)
            return {"rows": _frame_rows(df, tcols), "tcols": [str(c) for c in tcols], "bv": _bv_obs(bv),
                    "gt_taxa": [str(x) for x in gt.taxa],
                    "gt_grp": None if gt.taxa_grp is None else [int(x) for x in gt.taxa_grp],
                    "gv": canon.enc(gm.gegv(pg).unscale())}
        if k == "stat":
            return self._run_stat(m, case)
        if k == "reject":
            pg, gm = _population(m, case["pop"])
            t = self._t(case["pop"])
            try:
                if case["what"].startswith("nrep"):
                    m["gep"].G_E_Phenotyping(gm, nenv=int(case["nenv"]), nrep=_nrep_arg(case["nrep"]),
                                             rng=numpy.random.default_rng(0))
                elif case["what"] == "h2_above_one":
                    pt = m["gep"].G_E_Phenotyping(gm, nenv=1, nrep=1, rng=numpy.random.default_rng(0))
                    pt.set_h2(numpy.array([_f(v) for v in case["h2"]]), pg)
                    return {"raised": None, "varErr": canon.enc(pt.var_err), "varA": canon.enc(gm.var_A(pg))}
                else:
                    m["gep"].G_E_Phenotyping(gm, nenv=1, nrep=1, var_err=_var(case["var_err"], t),
                                             rng=numpy.random.default_rng(0))
                return {"raised": None}
            except (ValueError, TypeError) as e:       # inputs that are MEANT to be rejected
                return {"raised": canon.exc_tag(e)}
        raise ValueError(k)

    def _table_df(self, m, table, order=None):
        pandas = m["pandas"]
        idx = list(range(len(table["taxa"]))) if order is None else list(order)
        d = {"taxa": numpy.array([table["taxa"][i] for i in idx], dtype=object)}
        if table.get("grp") is None:
            d["taxa_grp"] = None                      # what phenotype() emits for an ungrouped population
        else:
            d["taxa_grp"] = numpy.array([table["grp"][i] for i in idx], dtype=int)
        d["env"] = numpy.array([table["env"][i] for i in idx], dtype=int)
        d["rep"] = numpy.array([table["rep"][i] for i in idx], dtype=int)
        for j, c in enumerate(table["cols"]):
            d[c] = numpy.array([float("nan") if table["vals"][i][j] is None else _f(table["vals"][i][j]) for i in idx],
                               dtype=float)
        return pandas.DataFrame(d)

    def _gt(self, m, gt, order=None):
        idx = list(range(len(gt["taxa"]))) if order is None else list(order)
        return m["dgm"].DenseGenotypeMatrix(
            numpy.zeros((len(idx), 1), dtype="int8"),
            taxa=numpy.array([gt["taxa"][i] for i in idx], dtype=object),
            taxa_grp=None if gt.get("grp") is None else numpy.array([gt["grp"][i] for i in idx], dtype=int))

    def _run_meanbv(self, m, case):
        est = m["mbv"].MeanPhenotypicBreedingValue(case["taxa_col"], case["grp_col"], list(case["trait_cols"]))
        df = self._table_df(m, case["table"])
        snap = df.copy(deep=True)
        gt = None if case.get("gt") is None else self._gt(m, case["gt"])
        out = {"base": _bv_obs(est.estimate(df, gt))}
        out["input_untouched"] = bool(snap.equals(df))
        dfp = self._table_df(m, case["table"], case["row_perm"])
        out["rowperm"] = _bv_obs(est.estimate(dfp, gt))
        if gt is not None and case.get("gt_perm") is not None:
            out["gtperm"] = _bv_obs(est.estimate(df, self._gt(m, case["gt"], case["gt_perm"])))
        return out

    def _run_stat(self, m, case):
        pg, gm = _population(m, case["pop"])
        g = _Recording(case["seed"])
        pt = self._protocol(m, case, gm, g)
        df = pt.phenotype(pg)
        gv = gm.gegv(pg).unscale()
        tcols = self._trait_names(df)
        n, t = gv.shape
        nenv, nrep = int(case["nenv"]), int(case["nrep"])
        vals = df[tcols].to_numpy(dtype=float)
        ok_shape = vals.shape == (n * nenv * nrep, t)
        res = {"shape_ok": bool(ok_shape), "n": n, "t": t}
        if not ok_shape:
            return res
        # residual of every record from its taxon's true value, looked up through the record's OWN label
        names = [str(x) for x in df["taxa"]]
        first = names[:n]
        pos = {nm: i for i, nm in enumerate(first)}
        resid = numpy.array([vals[k] - gv[pos[names[k]]] for k in range(len(names))])
        env = df["env"].to_numpy()
        rep = df["rep"].to_numpy()
        cells = {}
        for k in range(len(names)):
            cells.setdefault((int(env[k]), int(rep[k])), []).append(resid[k])
        cm = {c: numpy.mean(v, axis=0) for c, v in cells.items()}
        within = numpy.mean([numpy.var(v, axis=0, ddof=1) for v in cells.values()], axis=0)       # -> var_err
        envs = sorted({c[0] for c in cells})
        rep_var = numpy.mean([numpy.var([cm[(e, r)] for r in range(1, nrep + 1)], axis=0, ddof=1) for e in envs],
                             axis=0)                                                            # -> var_rep + var_err/n
        em = numpy.array([numpy.mean([cm[(e, r)] for r in range(1, nrep + 1)], axis=0) for e in envs])
        env_var = numpy.var(em, axis=0, ddof=1)                                  # -> var_env + var_rep/nrep + var_err/(n nrep)
        res.update({"within": within.tolist(), "rep_var": rep_var.tolist(), "env_var": env_var.tolist(),
                    "ncell": len(cells), "nenv_seen": len(envs),
                    "cov_ok": self._cov_ok(g.log, case, n, t)[0]})
        return res

    # ================================================================================ requests
    @staticmethod
    def _table_recs(table, trait_cols, order=None):
        idx = list(range(len(table["taxa"]))) if order is None else list(order)
        cj = [table["cols"].index(c) for c in trait_cols]
        return [{"taxa": table["taxa"][i], "grp": None if table.get("grp") is None else table["grp"][i],
                 "env": table["env"][i], "rep": table["rep"][i], "vals": [table["vals"][i][j] for j in cj]} for i in idx]

    def requests(self, case, obs):
        k = case["kind"]
        pop = case.get("pop")
        if k == "pheno":
            t = self._t(pop)
            zero = all(all(v == 0 for v in _var_vec(case.get(kk), t)) for kk in ("var_env", "var_rep", "var_err"))
            base = {"gv": obs["gv"], "taxa": pop["taxa"], "grp": pop["grp"], "trait": pop["trait"], "ntrait": t}
            return [
                {"op": "c14.phenotype", **base, "nenv": case["nenv"], "nrep": case["nrep"], "draws": obs["draws"],
                 "nenvAfter": case.get("nenv_after")},
                {"op": "c14.spec_pheno", "gv": obs["gv"], "taxa": pop["taxa"], "grp": pop["grp"],
                 "nrep": _layout_spec(case), "zeroNoise": zero, "rows": obs["rows"]},
                {"op": "c14.truepheno", **base},
                # TruePhenotyping = a noiseless trial with one environment and one replicate
                {"op": "c14.spec_pheno", "gv": obs["gv"], "taxa": pop["taxa"], "grp": pop["grp"], "nrep": [1],
                 "zeroNoise": True, "rows": [dict(r, env=1, rep=1) for r in obs["true_rows"]]},
            ]
        if k == "h2":
            t = self._t(pop)
            h2 = case["h2"] if isinstance(case["h2"], list) else [case["h2"]] * t
            # set_h2 uses var_A (variance of breeding values), set_H2 uses var_G (variance of genotypic values)
            return [{"op": "c14.h2", "gv": canon.enc(_gv_exact(pop, dominance=(case["which"] == "H2"))), "ntrait": t,
                     "h2": h2},
                    {"op": "c14.spec_h2", "h2": h2, "varA": obs["varA"], "varErr": obs["varErr"]}]
        if k == "meanbv":
            tc = case["trait_cols"]
            use = case["grp_col"] is not None
            recs = self._table_recs(case["table"], tc)
            gt = case.get("gt")
            # a table with missing cells (NaN) goes through the NaN-aware model / Spec ops
            sfx = "_nan" if any(v is None for r in recs for v in r["vals"]) else ""
            reqs = [{"op": "c14.meanbv" + sfx, "recs": recs, "useGrp": use, "ntrait": len(tc),
                     "gtTaxa": None if gt is None else gt["taxa"]}]
            if gt is None:
                for key in ("base", "rowperm"):
                    reqs.append({"op": "c14.spec_meanbv" + sfx + "_nogt", "recs": recs, "ntrait": len(tc),
                                 "outTaxa": obs[key]["taxa"], "outRows": obs[key]["rows"]})
                return reqs

            def spec(o, order):
                tx = gt["taxa"] if order is None else [gt["taxa"][i] for i in order]
                gg = gt.get("grp")
                gg = gg if (gg is None or order is None) else [gg[i] for i in order]
                return {"op": "c14.spec_meanbv" + sfx, "recs": recs, "ntrait": len(tc), "gtTaxa": tx, "gtGrp": gg,
                        "traits": tc, "outTaxa": o["taxa"], "outGrp": o["grp"], "outTrait": o["trait"],
                        "outRows": o["rows"]}
            reqs.append(spec(obs["base"], None))
            reqs.append(spec(obs["rowperm"], None))
            if "gtperm" in obs:
                reqs.append(spec(obs["gtperm"], case["gt_perm"]))
            return reqs
        if k == "pipeline":
            tc = obs["tcols"]
            return [{"op": "c14.meanbv", "recs": obs["rows"], "useGrp": bool(case["use_grp"]), "ntrait": len(tc),
                     "gtTaxa": obs["gt_taxa"]},
                    {"op": "c14.spec_meanbv", "recs": obs["rows"], "ntrait": len(tc), "gtTaxa": obs["gt_taxa"],
                     "gtGrp": obs["gt_grp"], "traits": tc, "outTaxa": obs["bv"]["taxa"], "outGrp": obs["bv"]["grp"],
                     "outTrait": obs["bv"]["trait"], "outRows": obs["bv"]["rows"]},
                    {"op": "c14.spec_pheno", "gv": obs["gv"], "taxa": pop["taxa"], "grp": pop["grp"],
                     "nrep": _nrep_list(case["nenv"], case["nrep"]), "zeroNoise": False, "rows": obs["rows"]}]
        if k == "stat":
            return []
        if k == "reject":
            t = self._t(pop)
            if case["what"].startswith("nrep"):
                return [{"op": "c14.phenotype", "gv": canon.enc(_gv_exact(pop)), "taxa": pop["taxa"], "grp": pop["grp"],
                         "trait": pop["trait"], "ntrait": t, "nenv": case["nenv"], "nrep": case["nrep"], "draws": []}]
            if case["what"] == "h2_above_one":
                return [{"op": "c14.h2", "gv": canon.enc(_gv_exact(pop, dominance=False)), "ntrait": t, "h2": case["h2"]}]
            return []
        raise ValueError(k)

    # ================================================================================ judge
    def _cov_ok(self, log, case, n, t):
        """the call pattern and the distribution parameters the code hands to multivariate_normal:
        per environment one (t,) draw with cov diag(var_env); per replicate one (t,) draw with diag(var_rep) and one
        (n,t) draw with diag(var_err); all means zero"""
        ve, vr, vx = (_var_vec(case.get(kk), t) for kk in ("var_env", "var_rep", "var_err"))
        want = []
        for k in _layout_asis(case):
            want.append((ve, None))
            for _ in range(k):
                want.append((vr, None))
                want.append((vx, n))
        if len(log) != len(want):
            return False, f"{len(log)} draws for {len(want)} expected"
        for call, (v, size) in zip(log, want):
            if call["size"] != size:
                return False, f"size {call['size']} for {size}"
            if any(x != 0 for x in call["mean"]) or len(call["mean"]) != t:
                return False, "non-zero mean"
            cov = call["cov"]
            for a in range(t):
                for b in range(t):
                    if Fraction(cov[a][b]) != (v[a] if a == b else 0):
                        return False, f"cov {cov} for diag({[str(x) for x in v]})"
        return True, "draw parameters ok"

    def judge(self, case, obs, answers):
        v = self._judge(case, obs, answers)
        if self._selftest_active and self.signature(case, obs, v).get("cond") == "taxa_grp_col_all_missing":
            v = dict(v, corr=True, spec=True, detail="(known finding D18, neutralised during self-test) " + v["detail"])
        return v

    def _judge(self, case, obs, answers):
        k = case["kind"]
        for a in answers:
            if "err" in a:
                raise RuntimeError("driver error: " + a["err"])
        ans = [a["ok"] for a in answers]
        if k == "pheno":
            return self._judge_pheno(case, obs, ans)
        if k == "h2":
            return self._judge_h2(case, obs, ans)
        if k == "meanbv":
            return self._judge_meanbv(case, obs, ans)
        if k == "pipeline":
            mdl, sp, sp_ph = ans
            corr = _rows_close(mdl["rows"], obs["bv"]["rows"])
            spec = bool(sp["ok"]) and bool(sp_ph["ok"])
            return {"corr": corr, "spec": spec, "nontrivial": len(obs["gt_taxa"]) >= 2 and len(obs["rows"]) > len(obs["gt_taxa"]),
                    "detail": f"pipeline estimate: {sp['detail']}; phenotype: {sp_ph['detail']}; model rows={mdl['rows']} "
                              f"impl rows={obs['bv']['rows']}"}
        if k == "stat":
            return self._judge_stat(case, obs)
        if k == "reject":
            raised = obs.get("raised") is not None
            if case["what"].startswith("nrep"):
                want = ans[0].get("rejected") == "nrep"
            elif case["what"] == "h2_above_one":
                # the model rejects exactly when some computed error variance is negative (var_A > 0 for that trait)
                want = ans[0]["varErr"] is None
            else:
                want = True
            return {"corr": raised == want, "spec": True, "nontrivial": True,
                    "detail": f"reject[{case['what']}] implementation raised={obs.get('raised')} model rejects={want}"}
        raise ValueError(k)

    def _judge_pheno(self, case, obs, ans):
        mdl, sp, tmdl, tsp = ans
        pop = case["pop"]
        t = self._t(pop)
        n = len(pop["geno"][0])
        detail = []
        # correspondence: same frame, row by row, in order
        corr = "rows" in mdl and mdl["cols"] == obs["cols"] and mdl["nrep"] == obs["nrep"] \
            and len(mdl["rows"]) == len(obs["rows"])
        if corr:
            for a, b in zip(mdl["rows"], obs["rows"]):
                if (a["taxa"], a["grp"], a["env"], a["rep"]) != (b["taxa"], b["grp"], b["env"], b["rep"]) or \
                        not _rows_close([a["vals"]], [b["vals"]]):
                    corr = False
                    detail.append(f"row differs: model {a} impl {b}")
                    break
        else:
            detail.append(f"frame differs: model cols={mdl.get('cols')} n={len(mdl.get('rows', []))} "
                          f"impl cols={obs['cols']} n={len(obs['rows'])}")
        # true values observed = additive closed form
        gvx = _gv_exact(pop)
        gv_ok = _rows_close(canon.enc(gvx), obs["gv"])
        # the call pattern and the distribution parameters assumed by the model are the real ones; inputs untouched
        cov_ok, cov_msg = self._cov_ok(obs["log"], case, n, t)
        corr = corr and gv_ok and obs["leftover"] == 0 and cov_ok and obs["input_untouched"]
        # TruePhenotyping and TrueBreedingValue against the model
        tcorr = "rows" in tmdl and tmdl["cols"] == obs["true_cols"] and len(tmdl["rows"]) == len(obs["true_rows"]) and all(
            a["taxa"] == b["taxa"] and a["grp"] == b["grp"] and _rows_close([a["vals"]], [b["vals"]])
            for a, b in zip(tmdl["rows"], obs["true_rows"]))
        corr = corr and tcorr
        if not tcorr:
            detail.append(f"TruePhenotyping differs: model {tmdl} impl {obs['true_rows']}")
        # Spec
        tb = obs["truebv"]
        tbv_ok = tb["taxa"] == pop["taxa"] and tb["grp"] == pop["grp"] and \
            _rows_close(tb["rows"], canon.enc(_gv_exact(pop, dominance=False))) \
            and (pop["trait"] is None or tb["trait"] == pop["trait"])
        spec = bool(sp["ok"]) and bool(tsp["ok"]) and tbv_ok
        ncell = sum(_layout_asis(case))
        nontriv = n >= 2 and ncell >= 2 and (pop["taxa"] is None or pop["taxa"] != sorted(pop["taxa"]))
        return {"corr": corr, "spec": spec, "nontrivial": nontriv,
                "detail": f"pheno[{case['mode']}] spec: {sp['detail']}; true-pheno: {tsp['detail']}; {cov_msg}; "
                          f"true_bv_aligned={tbv_ok} gv_closed_form={gv_ok} " + " ".join(detail)}

    def _judge_h2(self, case, obs, ans):
        mdl, sp = ans
        corr = canon.close_enc(mdl["varA"], obs["varA"], rel=1e-9, abs_=1e-12) and mdl["varErr"] is not None and \
            canon.close_enc(mdl["varErr"], obs["varErr"], rel=1e-9, abs_=1e-12)
        h2 = case["h2"] if isinstance(case["h2"], list) else [case["h2"]]
        nontriv = any(Fraction(v) > 0 for v in canon.dec(mdl["varA"])) and any(Fraction(h) < 1 for h in h2)
        return {"corr": corr, "spec": bool(sp["ok"]), "nontrivial": nontriv,
                "detail": f"{case['which']}: {sp['detail']} model={mdl} impl varA={obs['varA']} varErr={obs['varErr']}"}

    def _judge_meanbv(self, case, obs, ans):
        mdl = ans[0]
        specs = ans[1:]
        gt = case.get("gt")
        base, rp = obs["base"], obs["rowperm"]
        if gt is None:
            corr = mdl["taxa"] == base["taxa"] and mdl.get("grp", base["grp"]) == base["grp"] and \
                _rows_close(mdl["rows"], base["rows"])
            inv = base["taxa"] == rp["taxa"] and base["grp"] == rp["grp"] and _rows_close(base["rows"], rp["rows"])
            gtinv = True
        else:
            corr = _rows_close(mdl["rows"], base["rows"])
            inv = (base["taxa"], base["grp"], base["trait"]) == (rp["taxa"], rp["grp"], rp["trait"]) and \
                _rows_close(base["rows"], rp["rows"])
            gtinv = True
            if "gtperm" in obs:
                gp = obs["gtperm"]
                perm = case["gt_perm"]
                gtinv = gp["taxa"] == [base["taxa"][i] for i in perm] and _rows_close(
                    gp["rows"], [base["rows"][i] for i in perm])
        spec = all(bool(s["ok"]) for s in specs) and inv and gtinv
        if case.get("corr_only"):        # one name under two groups with the group column in use: outside the valid inputs
            spec = True
        corr = corr and obs["input_untouched"]
        tab = case["table"]
        counts = {}
        for nm in tab["taxa"]:
            counts[nm] = counts.get(nm, 0) + 1
        order_differs = gt is not None and [x for x in gt["taxa"]] != sorted(gt["taxa"])
        nontriv = max(counts.values()) >= 2 and (order_differs or gt is None and len(counts) >= 2)
        return {"corr": corr, "spec": spec, "nontrivial": nontriv,
                "detail": "meanbv " + "; ".join(s["detail"] for s in specs) +
                          f" row_perm_invariant={inv} gt_perm_aligned={gtinv} model={mdl} impl={base}"}

    def _judge_stat(self, case, obs):
        if not obs.get("shape_ok"):
            return {"corr": False, "spec": False, "nontrivial": True, "detail": f"stat: wrong number of records {obs}"}
        n, t = obs["n"], obs["t"]
        nenv, nrep = int(case["nenv"]), int(case["nrep"])
        ve, vr, vx = ([float(x) for x in _var_vec(case.get(kk), t)] for kk in ("var_env", "var_rep", "var_err"))
        ok = obs["ncell"] == nenv * nrep and obs["nenv_seen"] == nenv
        msgs = []
        for j in range(t):
            # (estimate, expectation, degrees of freedom)
            checks = [("err", obs["within"][j], vx[j], nenv * nrep * (n - 1)),
                      ("rep", obs["rep_var"][j], vr[j] + vx[j] / n, nenv * (nrep - 1)),
                      ("env", obs["env_var"][j], ve[j] + vr[j] / nrep + vx[j] / (n * nrep), nenv - 1)]
            for name, est, exp, df in checks:
                band = 7.0 * math.sqrt(2.0 / df) * exp
                good = abs(est - exp) <= band
                ok = ok and good
                msgs.append(f"{name}[{j}] est={est:.4g} exp={exp:.4g} band={band:.3g} {'ok' if good else 'OUT'}")
        return {"corr": bool(obs["cov_ok"]), "spec": bool(ok), "nontrivial": True,
                "detail": f"stat draw_parameters_as_modelled={obs['cov_ok']} " + "; ".join(msgs)}

    # ================================================================================ findings / shrinking
    def signature(self, case, obs, verdict):
        sig = {"kind": case["kind"]}
        if case["kind"] == "pheno" and case.get("nenv_after") is not None:
            sig["site"] = "G_E_Phenotyping.nenv"
            if case["nenv_after"] > case["nenv"] and not isinstance(case["nrep"], list):
                sig["cond"] = "nenv_increased_after_construction"
        if case["kind"] == "meanbv":
            sig["site"] = SITE_EST
            if case.get("grp_col") is not None and case["table"].get("grp") is None:
                sig["cond"] = "taxa_grp_col_all_missing"
        if case["kind"] == "pipeline":
            sig["site"] = SITE_EST
            if case.get("use_grp") and case["pop"].get("grp") is None:
                sig["cond"] = "taxa_grp_col_all_missing"
        return sig

    def shrink(self, case):
        k = case["kind"]
        if k in ("pheno", "pipeline", "h2", "stat"):
            pop = case["pop"]
            n = len(pop["geno"][0])
            p = len(pop["geno"][0][0])
            if n > 1:
                for i in range(n):
                    c = dict(case)
                    q = dict(pop)
                    q["geno"] = [[row for a, row in enumerate(ph) if a != i] for ph in pop["geno"]]
                    for key in ("taxa", "grp"):
                        if pop.get(key) is not None:
                            q[key] = [x for a, x in enumerate(pop[key]) if a != i]
                    c["pop"] = q
                    if case.get("script"):
                        c["script"] = [{"env": e["env"], "reps": [{"rep": r["rep"], "err": [x for a, x in enumerate(r["err"]) if a != i]}
                                                                  for r in e["reps"]]} for e in case["script"]]
                    if case.get("gt_perm") is not None:
                        c["gt_perm"] = [x - (x > i) for x in case["gt_perm"] if x != i]
                    yield c
            if p > 1:
                c = dict(case)
                q = dict(pop)
                q["geno"] = [[row[:-1] for row in ph] for ph in pop["geno"]]
                q["u"] = pop["u"][:-1]
                if pop.get("ud") is not None:
                    q["ud"] = pop["ud"][:-1]
                c["pop"] = q
                yield c
            if k != "h2" and case["nenv"] > 1:
                c = dict(case)
                c["nenv"] = case["nenv"] - 1
                if isinstance(case["nrep"], list):
                    c["nrep"] = case["nrep"][:-1]
                if case.get("script"):
                    c["script"] = case["script"][:-1]
                yield c
        if k == "meanbv":
            tab = case["table"]
            m = len(tab["taxa"])
            if m > 1:
                for i in range(m):
                    c = dict(case)
                    c["table"] = {kk: ([x for a, x in enumerate(v) if a != i] if isinstance(v, list) and kk != "cols" else v)
                                  for kk, v in tab.items()}
                    c["row_perm"] = [x - (x > i) for x in case["row_perm"] if x != i]
                    yield c
            gt = case.get("gt")
            if gt is not None and len(gt["taxa"]) > 1:
                for i in range(len(gt["taxa"])):
                    c = dict(case)
                    c["gt"] = {"taxa": [x for a, x in enumerate(gt["taxa"]) if a != i],
                               "grp": None if gt.get("grp") is None else [x for a, x in enumerate(gt["grp"]) if a != i]}
                    c["gt_perm"] = [x - (x > i) for x in case["gt_perm"] if x != i]
                    yield c
            if len(case["trait_cols"]) > 1:
                c = dict(case)
                c["trait_cols"] = case["trait_cols"][:-1]
                yield c

    # ================================================================================ self-test mutants
    def mutants(self):
        m = _mods()
        pandas = m["pandas"]
        GEP = m["gep"].G_E_Phenotyping
        TP = m["tp"].TruePhenotyping
        MBV = m["mbv"].MeanPhenotypicBreedingValue
        TBV = m["tbv"].TrueBreedingValue

        prop = self

        @contextlib.contextmanager
        def patch(obj, name, new):
            old = getattr(obj, name)
            setattr(obj, name, new)
            was = prop._selftest_active
            prop._selftest_active = True
            try:
                yield
            finally:
                setattr(obj, name, old)
                prop._selftest_active = was

        ph0 = GEP.phenotype

        def taxa_sorted(self, pgmat, miscout=None, **kw):       # labels written in sorted order within each block
            df = ph0(self, pgmat, miscout, **kw)
            n = pgmat.ntaxa
            tx = list(df["taxa"])
            for s in range(0, len(tx), n):
                tx[s:s + n] = sorted(tx[s:s + n])
            df["taxa"] = numpy.array(tx, dtype=object)
            return df

        def grp_rolled(self, pgmat, miscout=None, **kw):        # group labels detached from their taxon
            df = ph0(self, pgmat, miscout, **kw)
            if pgmat.taxa_grp is not None:
                df["taxa_grp"] = numpy.roll(df["taxa_grp"].to_numpy(), 1)
            return df

        def rep_major(self, pgmat, miscout=None, **kw):         # env / rep labels swapped
            df = ph0(self, pgmat, miscout, **kw)
            e, r = df["env"].to_numpy().copy(), df["rep"].to_numpy().copy()
            df["env"], df["rep"] = r, e
            return df

        def one_rep_short(self, pgmat, miscout=None, **kw):     # range(env_nrep - 1) for environments with > 1 rep
            df = ph0(self, pgmat, miscout, **kw)
            keep = ~((df["rep"] > 1) & (df["rep"] == df.groupby("env")["rep"].transform("max")))
            return df[keep].reset_index(drop=True)

        def err_reversed(self, pgmat, miscout=None, **kw):      # error rows handed to the taxa in reverse order
            class Rev:
                def __init__(s, g):
                    s.g = g

                def multivariate_normal(s, mean, cov, size=None, **k2):
                    out = s.g.multivariate_normal(mean, cov, size, **k2)
                    return out if size is None else out[::-1]
            real = self._rng
            self._rng = Rev(real)
            try:
                return ph0(self, pgmat, miscout, **kw)
            finally:
                self._rng = real

        def var_as_sd(self, pgmat, miscout=None, **kw):         # covariance built from var**2
            old = self._var_err
            self._var_err = old ** 2
            try:
                return ph0(self, pgmat, miscout, **kw)
            finally:
                self._var_err = old

        def env_not_added(self, pgmat, miscout=None, **kw):     # environment effect drawn but not added
            pattern = []
            for k in self.nrep[:self.nenv]:
                pattern += [True] + [False, False] * int(k)

            class NoEnv:
                def __init__(s, g):
                    s.g = g
                    s.i = 0

                def multivariate_normal(s, mean, cov, size=None, **k2):
                    out = s.g.multivariate_normal(mean, cov, size, **k2)
                    is_env = s.i < len(pattern) and pattern[s.i]
                    s.i += 1
                    return numpy.zeros_like(out) if is_env else out
            real = self._rng
            self._rng = NoEnv(real)
            try:
                return ph0(self, pgmat, miscout, **kw)
            finally:
                self._rng = real

        def h2_wrong(self, h2, pgmat, **kw):
            self.var_err = (1.0 - h2) * self.gpmod.var_A(pgmat)

        def H2_wrong(self, H2, pgmat, **kw):
            self.var_err = (1.0 - H2) / (1.0 + H2) * self.gpmod.var_G(pgmat)

        est0 = MBV.estimate

        def groupby_order(self, ptobj, gtobj=None, miscout=None, **kw):   # group-by order used as genotype order
            out = est0(self, ptobj, gtobj, miscout, **kw)
            if gtobj is None:
                return out
            raw = out.unscale()
            order = numpy.argsort(numpy.array([str(x) for x in gtobj.taxa]), kind="stable")
            new = numpy.empty_like(raw)
            new[:] = raw[order]
            return type(out).from_numpy(mat=new, taxa=out.taxa, taxa_grp=out.taxa_grp, trait=out.trait)

        def zero_for_absent(self, ptobj, gtobj=None, miscout=None, **kw):
            out = est0(self, ptobj, gtobj, miscout, **kw)
            raw = out.unscale()
            if not numpy.isnan(raw).any():
                return out
            return type(out).from_numpy(mat=numpy.nan_to_num(raw, nan=0.0), taxa=out.taxa, taxa_grp=out.taxa_grp,
                                        trait=out.trait)

        def median_not_mean(self, ptobj, gtobj=None, miscout=None, **kw):
            class MedianFrame(pandas.DataFrame):
                pass
            real_groupby = pandas.DataFrame.groupby

            def gb(df, *a, **k):
                g = real_groupby(df, *a, **k)

                class W:
                    def agg(s, spec):
                        return g.agg({c: "median" for c in spec})
                return W()
            with patch(pandas.DataFrame, "groupby", gb):
                return est0(self, ptobj, gtobj, miscout, **kw)

        def first_record_only(self, ptobj, gtobj=None, miscout=None, **kw):   # not invariant to the row order
            real_groupby = pandas.DataFrame.groupby

            def gb(df, *a, **k):
                g = real_groupby(df, *a, **k)

                class W:
                    def agg(s, spec):
                        return g.agg({c: "first" for c in spec})
                return W()
            with patch(pandas.DataFrame, "groupby", gb):
                return est0(self, ptobj, gtobj, miscout, **kw)

        def nan_as_zero(self, ptobj, gtobj=None, miscout=None, **kw):   # missing cells counted as observations of 0
            return est0(self, ptobj.fillna({c: 0.0 for c in self.trait_cols}), gtobj, miscout, **kw)

        def labels_from_table(self, ptobj, gtobj=None, miscout=None, **kw):   # taxa labels in sorted order, data in gt order
            out = est0(self, ptobj, gtobj, miscout, **kw)
            if gtobj is None:
                return out
            return type(out).from_numpy(mat=out.unscale(), taxa=numpy.array(sorted(str(x) for x in out.taxa), dtype=object),
                                        taxa_grp=out.taxa_grp, trait=out.trait)

        tp0 = TP.phenotype

        def true_rolled(self, pgmat, miscout=None, **kw):
            df = tp0(self, pgmat, miscout, **kw)
            if len(df) > 1:
                df["taxa"] = numpy.roll(df["taxa"].to_numpy(dtype=object), 1)
            return df

        tbv0 = TBV.estimate

        def truebv_sorted(self, ptobj, gtobj, miscout=None, **kw):
            out = tbv0(self, ptobj, gtobj, miscout, **kw)
            if out.taxa is None:
                return out
            order = numpy.argsort(numpy.array([str(x) for x in out.taxa]), kind="stable")
            return type(out).from_numpy(mat=out.unscale()[order], taxa=out.taxa, taxa_grp=out.taxa_grp, trait=out.trait)

        return [
            ("pheno_taxa_sorted_within_block", lambda: patch(GEP, "phenotype", taxa_sorted)),
            ("pheno_group_labels_rolled", lambda: patch(GEP, "phenotype", grp_rolled)),
            ("pheno_env_rep_swapped", lambda: patch(GEP, "phenotype", rep_major)),
            ("pheno_last_replicate_missing", lambda: patch(GEP, "phenotype", one_rep_short)),
            ("pheno_error_rows_reversed", lambda: patch(GEP, "phenotype", err_reversed)),
            ("pheno_env_effect_not_added", lambda: patch(GEP, "phenotype", env_not_added)),
            ("pheno_variance_squared", lambda: patch(GEP, "phenotype", var_as_sd)),
            ("set_h2_without_division", lambda: patch(GEP, "set_h2", h2_wrong)),
            ("set_H2_wrong_ratio", lambda: patch(GEP, "set_H2", H2_wrong)),
            ("estimate_groupby_order_as_genotype_order", lambda: patch(MBV, "estimate", groupby_order)),
            ("estimate_zero_for_absent", lambda: patch(MBV, "estimate", zero_for_absent)),
            ("estimate_median", lambda: patch(MBV, "estimate", median_not_mean)),
            ("estimate_first_record", lambda: patch(MBV, "estimate", first_record_only)),
            ("estimate_labels_sorted", lambda: patch(MBV, "estimate", labels_from_table)),
            ("estimate_nan_cells_as_zero", lambda: patch(MBV, "estimate", nan_as_zero)),
            ("truepheno_labels_rolled", lambda: patch(TP, "phenotype", true_rolled)),
            ("truebv_sorted_rows", lambda: patch(TBV, "estimate", truebv_sorted)),
        ]


PROP = C14()
