"""C03 — labels stay attached to their data under every matrix operation history.

One case = one history: a class, an initial state, a list of public structural operations.  The real
pybrops objects are driven step by step; after every step the full public state is read back.  Per step
  corr : the Lean model (`c03.step`, fed the *implementation's* pre-state) yields the same post-state /
         returned value / error class;
  spec : evaluated on the implementation's own states —
         (S1) shapes and label lengths consistent, (S2) every cell of the post-state, together with all the
         labels that index it, is a cell-with-labels of the pre-state or of an operand, (S4) group metadata of a
         state that reports itself grouped describe a true contiguous partition   [Lean: `c03.spec_step`];
         (S5) operands and the receiver of a non-mutating operation are left unchanged, (S6) a mutating operation
         leaves the state its non-mutating counterpart returns, (S7) the axis-generic form equals the
         axis-specific one   [exact comparison of public states in Python];
         an exception on arguments the generator marks valid makes the step fail.
A history is judged up to and including its first failing step.

Cells and labels are integer codes; names / positions / floats are rendered from the codes by injective,
order-preserving maps, so equality and order in the driver are those of the real arrays.
"""
import contextlib
import copy
import os
import random

import numpy

from .. import canon, compat, findings
from ..core import Prop

compat.install()

# repair-validation mode: the tree under test has patches/C03_D14.diff and patches/C03_D14b.diff applied; the square
# bundles' insert / incorp / concat are driven with BLOCK-shaped operands against the repaired model
# (Model/LabelMatRepair.lean) and no known finding is consulted for them
REPAIRED = bool(os.environ.get("C03_REPAIRED"))

NAN_CODE = -999999          # code of the NaN fill value of the square classes
NONE_CODE = -1              # code of a `None` entry of an object-dtype name array (padding of absent names)
PAD_COLS = {"taxa": [0], "vrnt": [2], "trait": []}   # the name arrays the source pads with None
TAXA_COLS = ["taxa", "taxa_grp"]
VRNT_COLS = ["vrnt_chrgrp", "vrnt_phypos", "vrnt_name", "vrnt_genpos", "vrnt_xoprob", "vrnt_hapgrp",
             "vrnt_hapalt", "vrnt_hapref", "vrnt_mask"]
TRAIT_COLS = ["trait"]
COLS = {"taxa": TAXA_COLS, "vrnt": VRNT_COLS, "trait": TRAIT_COLS}
GRP_ATTR = {"taxa": "taxa_grp", "vrnt": "vrnt_chrgrp"}
KINDS = ("taxa", "vrnt", "trait")

# rendering of label codes (injective and monotone on the non-negative codes the generator uses)
_OBJ_PREFIX = {"taxa": "t", "vrnt_name": "v", "vrnt_hapalt": "A", "vrnt_hapref": "R", "trait": "y"}
_FLOAT_DIV = {"vrnt_genpos": 8.0, "vrnt_xoprob": 64.0}
# every rendered float carries a tail far below float32 resolution: a pass through a narrower float type must show
_FLOAT_TAIL = 2.0 ** -40
_CELL_TAIL = 2.0 ** -30          # float64 data cells: code + 2^-30 (exact for |code| < 2^22)
_CELL_OFFSET_INT64 = 5000000000  # int64 data cells: far outside int32


# integer label columns are rendered far outside the int8 / int16 / int32 ranges (a narrowing cast must show)
_INT_AFFINE = {"taxa_grp": (1000, 3000000000), "vrnt_chrgrp": (1000, 5000000000), "vrnt_hapgrp": (1000, 7000000000),
               "vrnt_phypos": (100000007, 3000000000)}


# ---- dtype profile of one case (round 5).  `case["dt"]` = {"mat": {"narrow": dt, "wide": dt} | None,
#      "labels": {column: dtype}}; module state for the duration of one `run_impl` (the judge only sees codes).
#  * mat: the INITIAL object stores its data in the narrow dtype (float32 / float16 / int16 / int32), every operand
#    block comes in the wide one (float64 / int64).  Cell codes carry their provenance in their parity: EVEN codes
#    are rendered exactly representable in the narrow type (the integer itself), ODD codes are rendered NOT
#    representable in it (float: code + 2^-30; int: code + 5e9) — a block that passes through the narrow type
#    cannot be decoded any more.
#  * labels: an integer label column (taxa_grp / vrnt_chrgrp / vrnt_hapgrp: codes 1..3; vrnt_phypos: codes 0..5)
#    is stored, in the receiver and in every operand, in an unsigned or a narrow signed integer dtype; the affine
#    rendering is chosen so that differences of consecutive labels leave the dtype's range.
_PROFILE = {}
_GRP_DT_AFFINE = {"uint8": (40, 100), "uint16": (1000, 40000), "uint32": (1000, 3000000000),
                  "uint64": (1000, 2 ** 63 + 5), "int8": (100, -200), "int16": (30000, -60000),
                  "int32": (2000000000, -4000000000)}
_POS_DT_AFFINE = {"uint8": (40, 20), "uint16": (10000, 5000), "uint32": (100000007, 3000000000),
                  "uint64": (1000, 2 ** 63 + 5), "int16": (12000, -30000), "int32": (800000000, -2000000000)}
_DT_COLS = ("taxa_grp", "vrnt_chrgrp", "vrnt_hapgrp", "vrnt_phypos")


@contextlib.contextmanager
def profile(dt):
    global _PROFILE
    old = _PROFILE
    _PROFILE = dt or {}
    try:
        yield
    finally:
        _PROFILE = old


def _label_affine(name):
    """(dtype, multiplier, offset) of an integer label column under the current profile"""
    dt = (_PROFILE.get("labels") or {}).get(name)
    if dt is not None:
        m, b = (_POS_DT_AFFINE if name == "vrnt_phypos" else _GRP_DT_AFFINE)[dt]
        return dt, m, b
    if name in _INT_AFFINE:
        m, b = _INT_AFFINE[name]
        return "int64", m, b
    return "int64", 1, 0


def _name_str(prefix, c):
    """variable-length, order-preserving name of a non-negative code: prefix, number of digits, digits
    ("t15" < "t210" < "t3100": a fixed-width string dtype that truncates names must show)"""
    d = str(c)
    return f"{prefix}{len(d)}{d}"


def _name_code(name, x):
    p = _OBJ_PREFIX[name]
    if not isinstance(x, str) or not x.startswith(p) or len(x) < 3 or not x[1:].isdigit() or int(x[1]) != len(x) - 2:
        raise ValueError(f"label {x!r} in {name} was never created by the harness")
    return int(x[2:])


def render_col(name, codes):
    if codes is None:
        return None
    if name in _OBJ_PREFIX:
        return numpy.array([None if c == NONE_CODE else _name_str(_OBJ_PREFIX[name], c) for c in codes], dtype=object)
    if name in _FLOAT_DIV:
        return numpy.array([c / _FLOAT_DIV[name] + _FLOAT_TAIL for c in codes], dtype="float64")
    if name == "vrnt_mask":
        return numpy.array([bool(c) for c in codes], dtype=bool)
    dt, m, b = _label_affine(name)
    # (numpy 2 raises OverflowError for a Python integer outside the dtype: a rendering that does not fit is a
    #  harness error, never a silent wrap)
    return numpy.array([c * m + b for c in codes], dtype=dt)


def decode_int(name, x):
    x = int(x)
    dt, m, b = _label_affine(name)
    if (x - b) % m != 0:
        raise ValueError(f"label {x!r} in {name} was never created by the harness")
    return (x - b) // m


def decode_col(name, arr):
    if arr is None:
        return None
    out = []
    for x in arr:
        if name in _OBJ_PREFIX and x is None:
            out.append(NONE_CODE)
        elif name in _OBJ_PREFIX:
            out.append(_name_code(name, x))
        elif name in _FLOAT_DIV:
            v = (float(x) - _FLOAT_TAIL) * _FLOAT_DIV[name]
            if v != int(v):
                raise ValueError(f"label {x!r} in {name} was never created by the harness")
            out.append(int(v))
        elif name == "vrnt_mask":
            out.append(int(bool(x)))
        else:
            out.append(decode_int(name, x))
    return out


CLASSES = {
    # name: module, ndim, axes per bundle, dtype, flags
    "DensePhasedGenotypeMatrix": dict(mod="pybrops.popgen.gmat.DensePhasedGenotypeMatrix", ndim=3,
                                      taxa=[1], vrnt=[2], trait=[], dtype="int8"),
    "DenseGenotypeMatrix": dict(mod="pybrops.popgen.gmat.DenseGenotypeMatrix", ndim=2,
                                taxa=[0], vrnt=[1], trait=[], dtype="int8"),
    "DenseTaxaVariantMatrix": dict(mod="pybrops.core.mat.DenseTaxaVariantMatrix", ndim=2,
                                   taxa=[0], vrnt=[1], trait=[], dtype="int64"),
    "DensePhasedTaxaVariantMatrix": dict(mod="pybrops.core.mat.DensePhasedTaxaVariantMatrix", ndim=3,
                                         taxa=[1], vrnt=[2], trait=[], dtype="int64"),
    "DenseTaxaTraitMatrix": dict(mod="pybrops.core.mat.DenseTaxaTraitMatrix", ndim=2,
                                 taxa=[0], vrnt=[], trait=[1], dtype="float64"),
    # breeding values: observed through unscale() (raw values); only the taxa operations that keep raw values
    # (the in-place append / incorp and concat store standardised operands: C15 findings D23 / D24)
    "DenseBreedingValueMatrix": dict(mod="pybrops.popgen.bvmat.DenseBreedingValueMatrix", ndim=2,
                                     taxa=[0], vrnt=[], trait=[1], dtype="float64", bv=True, kinds=["taxa"],
                                     skip_ops=("append", "incorp", "concat")),
    "DenseSquareTaxaMatrix": dict(mod="pybrops.core.mat.DenseSquareTaxaMatrix", ndim=2,
                                  taxa=[0, 1], vrnt=[], trait=[], dtype="float64"),
    "DenseMolecularCoancestryMatrix": dict(mod="pybrops.popgen.cmat.DenseMolecularCoancestryMatrix", ndim=2,
                                           taxa=[0, 1], vrnt=[], trait=[], dtype="float64", square_check=True),
    "DenseSquareTaxaTraitMatrix": dict(mod="pybrops.core.mat.DenseSquareTaxaTraitMatrix", ndim=3,
                                       taxa=[0, 1], vrnt=[], trait=[2], dtype="float64"),
    # secondary entry points: concrete subclasses that inherit the anchored methods
    "DenseVanRadenCoancestryMatrix": dict(mod="pybrops.popgen.cmat.DenseVanRadenCoancestryMatrix", ndim=2,
                                          taxa=[0, 1], vrnt=[], trait=[], dtype="float64", square_check=True),
    "DenseTwoWayDHAdditiveGeneticVarianceMatrix": dict(
        mod="pybrops.model.vmat.DenseTwoWayDHAdditiveGeneticVarianceMatrix", ndim=3,
        taxa=[0, 1], vrnt=[], trait=[2], dtype="float64"),
    "DenseGenomicEstimatedBreedingValueMatrix": dict(
        mod="pybrops.popgen.bvmat.DenseGenomicEstimatedBreedingValueMatrix", ndim=2,
        taxa=[0], vrnt=[], trait=[1], dtype="float64", bv=True, kinds=["taxa"],
        skip_ops=("append", "incorp", "concat")),
    # more than two square taxa axes (square_taxa_axes = range(ndim - 1)): N-D model, driver ops c03.nd_*
    "DenseSquareTaxaTraitMatrix@4": dict(mod="pybrops.core.mat.DenseSquareTaxaTraitMatrix",
                                         cls="DenseSquareTaxaTraitMatrix", ndim=4,
                                         taxa=[0, 1, 2], vrnt=[], trait=[3], dtype="float64"),
    "DenseThreeWayDHAdditiveGeneticVarianceMatrix": dict(
        mod="pybrops.model.vmat.DenseThreeWayDHAdditiveGeneticVarianceMatrix", ndim=4,
        taxa=[0, 1, 2], vrnt=[], trait=[3], dtype="float64"),
    "DenseFourWayDHAdditiveGenicVarianceMatrix": dict(
        mod="pybrops.model.vmat.DenseFourWayDHAdditiveGenicVarianceMatrix", ndim=5,
        taxa=[0, 1, 2, 3], vrnt=[], trait=[4], dtype="float64"),
    "DenseTaxaMatrix": dict(mod="pybrops.core.mat.DenseTaxaMatrix", ndim=2,
                            taxa=[0], vrnt=[], trait=[], dtype="float64"),
    "DenseVariantMatrix": dict(mod="pybrops.core.mat.DenseVariantMatrix", ndim=2,
                               taxa=[], vrnt=[0], trait=[], dtype="float64"),
    "DenseTraitMatrix": dict(mod="pybrops.core.mat.DenseTraitMatrix", ndim=2,
                             taxa=[], vrnt=[], trait=[0], dtype="float64"),
    # a second copy of the square mechanism: ONE trait bundle governing two axes (own *_trait methods, not inherited)
    "DenseSquareTraitMatrix": dict(mod="pybrops.core.mat.DenseSquareTraitMatrix", ndim=2,
                                   taxa=[], vrnt=[], trait=[0, 1], dtype="float64"),
}
_CLS_CACHE = {}


def get_class(name):
    if name not in _CLS_CACHE:
        compat.import_pybrops()
        import importlib
        _CLS_CACHE[name] = getattr(importlib.import_module(CLASSES[name]["mod"]), CLASSES[name].get("cls", name))
    return _CLS_CACHE[name]


def schema(cname):
    d = CLASSES[cname]
    return {"ndim": d["ndim"], "taxa": d["taxa"], "vrnt": d["vrnt"], "trait": d["trait"],
            "generic_self_call": False, "scalar_insert_raw": False, "square_check": bool(d.get("square_check")),
            "pure_drops_other": False}


def is_square_k(cname, k):
    """bundle `k` of the class governs more than one data axis"""
    return len(CLASSES[cname][k]) > 1


def is_square(cname):
    return any(is_square_k(cname, k) for k in KINDS)


def kinds_of(cname):
    """bundles the class has labels for"""
    return [k for k in KINDS if CLASSES[cname][k]]


def op_kinds_of(cname):
    """bundles the generator edits"""
    return CLASSES[cname].get("kinds") or kinds_of(cname)


# ------------------------------------------------------------------------------------------------
# codes <-> numpy
def is_nd(cname):
    """more than two square taxa axes: the state's `mat` has the class's own depth (4 or 5 levels) and the Lean
    side is Model/LabelMatN.lean (driver ops c03.nd_step / c03.nd_spec)"""
    return CLASSES[cname]["ndim"] > 3


def _render_mat_profile(cname, mat3, role):
    mp = _PROFILE["mat"]
    a = numpy.array(mat3, dtype="int64")
    if a.ndim != 3:
        raise ValueError("mat codes must be 3-level")
    if CLASSES[cname]["ndim"] == 2:
        a = a[:, :, 0]
    odd = (a % 2) != 0
    if role == "narrow":
        if odd.any():
            raise ValueError("odd cell code in a narrow-dtype block (harness error)")
        out = a.astype(mp["narrow"])
        if not numpy.array_equal(out.astype("int64"), a):
            raise ValueError("cell code not representable in the narrow dtype (harness error)")
        return out
    if numpy.dtype(mp["wide"]).kind == "f":
        out = a.astype(mp["wide"])
        out[odd] += _CELL_TAIL
    else:
        out = a.astype(mp["wide"])
        out[odd] += _CELL_OFFSET_INT64
    return out


def _decode_mat_profile(arr):
    a = numpy.asarray(arr)
    isnan = numpy.zeros(a.shape, dtype=bool)
    if a.dtype.kind == "f":
        isnan = numpy.isnan(a)                  # the fill value of the square classes
        a = numpy.where(isnan, 0.0, a)
        integral = a == numpy.round(a)
        low = numpy.where(integral, a, a - _CELL_TAIL)
        if not numpy.all(low == numpy.round(low)):
            raise ValueError("non-integral cell value: data were computed on, not moved")
        codes = low.astype("int64")
        tagged = ~integral
    elif a.dtype.kind in "iu":
        a = a.astype("int64")
        tagged = numpy.abs(a) >= 2 ** 22
        codes = numpy.where(tagged, a - _CELL_OFFSET_INT64, a)
        if numpy.any(numpy.abs(codes) >= 2 ** 22):
            raise ValueError("cell value that no block was created with (wrapped integer)")
    else:
        raise ValueError(f"mat has dtype {a.dtype}")
    # provenance: an ODD code was created NOT representable in the narrow dtype, an EVEN one exactly representable
    wrong = (tagged != ((codes % 2) != 0)) & ~isnan
    if numpy.any(wrong):
        bad = codes[wrong]
        raise ValueError(f"cell(s) with code {bad.ravel()[:4].tolist()} no longer hold the value they were created "
                         f"with (passed through a narrower dtype)")
    codes = numpy.where(isnan, NAN_CODE, codes)
    if codes.ndim == 2:
        codes = codes[:, :, None]
    if codes.ndim != 3:
        raise ValueError(f"mat has ndim {codes.ndim}")
    return codes.tolist()


def render_mat(cname, mat3, layout="C", role="wide"):
    d = CLASSES[cname]
    if _PROFILE.get("mat"):
        return _render_mat_profile(cname, mat3, role)
    a = numpy.array(mat3, dtype="int64")
    if is_nd(cname):
        if a.ndim != d["ndim"]:
            raise ValueError(f"mat codes must be {d['ndim']}-level")
    else:
        if a.ndim != 3:
            raise ValueError("mat codes must be 3-level")
        if d["ndim"] == 2:
            a = a[:, :, 0]
    if d["dtype"] == "float64":
        f = a.astype("float64")
        if not d.get("bv"):
            f = f + _CELL_TAIL
        f[a == NAN_CODE] = numpy.nan
        out = f
    elif d["dtype"] == "int64":
        out = a + _CELL_OFFSET_INT64
    else:
        out = a.astype(d["dtype"])
    if layout == "F":
        out = numpy.asfortranarray(out)
    elif layout == "strided":
        # a non-contiguous view: every second element of a buffer twice as long on the last axis
        buf = numpy.zeros(out.shape[:-1] + (2 * out.shape[-1],), dtype=out.dtype)
        buf[..., ::2] = out
        out = buf[..., ::2]
    return out


def decode_mat(cname, arr):
    d = CLASSES[cname]
    if _PROFILE.get("mat"):
        return _decode_mat_profile(arr)
    a = numpy.asarray(arr)
    if d["dtype"] == "float64":
        codes = numpy.where(numpy.isnan(a), float(NAN_CODE), a)
        if d.get("bv"):          # unscale() = scale * stored + location: integral up to rounding
            if not numpy.all(numpy.abs(codes - numpy.round(codes)) < 1e-6):
                raise ValueError("unscaled breeding value is not the raw value of any taxon")
            codes = numpy.round(codes)
        else:
            codes = numpy.where(codes == float(NAN_CODE), codes, codes - _CELL_TAIL)
        if not numpy.all(codes == numpy.round(codes)):
            raise ValueError("non-integral cell value: data were computed on, not moved")
        a = codes.astype("int64")
    elif d["dtype"] == "int64":
        a = a.astype("int64") - _CELL_OFFSET_INT64
    else:
        a = a.astype("int64")
    if is_nd(cname):
        if a.ndim != d["ndim"]:
            raise ValueError(f"mat has ndim {a.ndim}")
        return a.tolist()
    if a.ndim == 2:
        a = a[:, :, None]
    if a.ndim != 3:
        raise ValueError(f"mat has ndim {a.ndim}")
    return a.tolist()


def render_label(name, codes, layout="C"):
    a = render_col(name, codes)
    if a is not None and layout == "strided":
        # a non-contiguous view into a buffer whose other half holds values no label was ever rendered to
        buf = numpy.empty(2 * len(a), dtype=a.dtype)
        buf[::2] = a
        if a.dtype == object:
            buf[1::2] = "never-a-label"
        elif a.dtype == bool:
            buf[1::2] = ~a
        elif a.dtype.kind == "f":
            buf[1::2] = 0.123
        else:
            buf[1::2] = -7
        a = buf[::2]
    return a


def label_kwargs(cname, st, layout="C"):
    kw = {}
    for k in kinds_of(cname):
        for name, codes in zip(COLS[k], st[k]["cols"]):
            kw[name] = render_label(name, codes, layout)
    return kw


def build(cname, st, layout="C", role="wide"):
    """state codes -> a fresh object of the real class (group metadata assigned when the state has them).
    `layout`: memory layout of the arrays handed to the constructor ("C", "F" = Fortran-ordered data,
    "strided" = non-contiguous views for the data and for every label array)"""
    cls = get_class(cname)
    if CLASSES[cname].get("bv"):
        obj = cls.from_numpy(render_mat(cname, st["mat"], layout), **label_kwargs(cname, st, layout))
    else:
        obj = cls(render_mat(cname, st["mat"], layout, role), **label_kwargs(cname, st, layout))
    for k in ("taxa", "vrnt"):
        g = st[k].get("grp") if CLASSES[cname][k] else None
        if g:
            p = GRP_ATTR[k]
            setattr(obj, p + "_name", render_col(p, g["name"]))
            setattr(obj, p + "_stix", numpy.array(g["stix"], dtype="int64"))
            setattr(obj, p + "_spix", numpy.array(g["spix"], dtype="int64"))
            setattr(obj, p + "_len", numpy.array(g["len"], dtype="int64"))
    return obj


def observe(cname, obj):
    """public state of a real object -> state codes"""
    st = {"mat": decode_mat(cname, obj.unscale() if CLASSES[cname].get("bv") else obj.mat)}
    for k in KINDS:
        if not CLASSES[cname][k]:
            st[k] = {"cols": [None] * len(COLS[k]), "grp": None}
            continue
        cols = [decode_col(name, getattr(obj, name)) for name in COLS[k]]
        grp = None
        if k in GRP_ATTR:
            p = GRP_ATTR[k]
            parts = [getattr(obj, p + s) for s in ("_name", "_stix", "_spix", "_len")]
            grouped = bool(getattr(obj, "is_grouped_" + k)())
            if grouped != all(x is not None for x in parts):
                raise ValueError("is_grouped disagrees with the metadata attributes")
            if grouped:
                grp = {"name": [decode_int(p, x) for x in parts[0]], "stix": [int(x) for x in parts[1]],
                       "spix": [int(x) for x in parts[2]], "len": [int(x) for x in parts[3]]}
        st[k] = {"cols": cols, "grp": grp}
    return st


def empty_bundle(k):
    return {"cols": [None] * len(COLS[k]), "grp": None}


def shape_of(st):
    return numpy.array(st["mat"], dtype="int64").shape


_FP_EXTRA = ("location", "scale")


def fingerprint(cname, obj):
    """cheap content fingerprint of every public array of an object (used to notice that an object some step
    did not operate on has changed; a full `observe` follows only when it differs)"""
    d = CLASSES[cname]
    names = ["mat"]
    for k in KINDS:
        if d[k]:
            names += COLS[k]
            if k in GRP_ATTR:
                names += [GRP_ATTR[k] + sfx for sfx in ("_name", "_stix", "_spix", "_len")]
    if d.get("bv"):
        names += list(_FP_EXTRA)
    out = []
    for n in names:
        a = getattr(obj, n, None)
        if a is None:
            out.append(None)
        elif isinstance(a, numpy.ndarray):
            out.append((a.shape, tuple(a.tolist())) if a.dtype == object else (a.shape, a.tobytes()))
        else:
            out.append(repr(a))
    return out


# ------------------------------------------------------------------------------------------------
# index arguments
def py_obj(o):
    """JSON index form -> the Python/numpy argument"""
    if "int" in o:
        return int(o["int"])
    if "int0d" in o:
        return numpy.array(int(o["int0d"]))          # a 0-d integer ndarray (numpy.insert treats it as a scalar)
    if "npint" in o:
        # a numpy integer scalar (what numpy.argmax / a loop over an index array hands over)
        return numpy.dtype(o.get("dtype", "int64")).type(o["npint"])
    if "list" in o:
        return list(o["list"])
    if "array" in o:
        return numpy.array(o["array"], dtype=o.get("dtype", "int64"))
    if "boollist" in o:
        return [bool(x) for x in o["boollist"]]        # a plain Python list of booleans (numpy.delete: a mask)
    if "slice" in o:
        return slice(*o["slice"])
    if "mask" in o:
        return numpy.array(o["mask"], dtype=bool)
    raise ValueError(o)


def drv_obj(o, heap=False):
    if "array" in o:
        return {"list": o["array"]}
    if "npint" in o:
        return {"int": o["npint"]}
    if "int0d" in o and (heap or REPAIRED):
        return {"int": o["int0d"]}                # the heap model only tracks which arrays are shared
    if "boollist" in o:
        return {"mask": o["boollist"]}
    return o


# ------------------------------------------------------------------------------------------------
DECOY = {"name": 100000, "int": 50}


def decoy_codes(name, codes):
    """labels that differ from `codes` everywhere (they must never reach a result)"""
    if codes is None:
        return None
    if name in _OBJ_PREFIX:
        return [c + DECOY["name"] for c in codes]
    if name == "vrnt_mask":
        return [1 - c for c in codes]
    return [c + DECOY["int"] for c in codes]


def step_form(step):
    """how the operand of adjoin / append / insert / incorp is passed:
      raw    : ndarray + every label as keyword
      obj    : a matrix object of the receiver's class carrying the labels, no label keyword
      obj_kw : a matrix object whose columns listed in `override` carry other labels (or none at all) while the
               call passes the real ones as keywords (documented: the keyword overwrites the field)"""
    if "form" in step:
        return step["form"]
    return "raw" if step.get("raw") else "obj"


class Runner:
    """drives real objects through a history"""

    def __init__(self, cname):
        self.cname = cname
        self.cls = get_class(cname)

    def operand_obj(self, live, k, opd, decoy=None):
        """a matrix object of the same class holding the operand block: labels of bundle `k` from the case
        (`decoy`: per column None = the real labels, "other" = other labels, "none" = no array), every other
        bundle's labels copied from the live object (positional alignment on the unedited axes)"""
        live_st = observe(self.cname, live)
        cols = list(opd["cols"])
        if decoy:
            for ci, how in enumerate(decoy):
                if how == "other":
                    cols[ci] = decoy_codes(COLS[k][ci], cols[ci])
                elif how == "none":
                    cols[ci] = None
        st = {"mat": opd["mat"]}
        for kk in KINDS:
            if kk == k:
                st[kk] = {"cols": cols, "grp": None}
            else:
                st[kk] = {"cols": live_st[kk]["cols"], "grp": None}
        return build(self.cname, st), st

    def call(self, live, step, keep=None):
        """performs the step on `live`; returns (kind_of_result, value, operand objects): ('obj', new object) for
        pure operations, ('self', None) for mutating ones, ('val', json) for lexsort / is_grouped.  `keep` is
        called with the operand objects after they are built and before the operation runs"""
        name, k = step["name"], step["kind"]
        generic = bool(step.get("generic"))
        sfx = "" if generic else "_" + k
        akw = {"axis": step["axis"]} if (generic and not step.get("omit_axis")) else {}
        f = getattr(live, name + sfx) if name != "concat" else getattr(self.cls, name + sfx)
        if name == "select":
            idx = step["indices"]
            how = step.get("as_array")
            if how in (True, "int64"):
                arg = numpy.array(idx, dtype="int64")
            elif how in ("int32", "int16", "uint8"):
                arg = numpy.array(idx, dtype=how)
            elif how == "npints":
                arg = [numpy.int64(i) for i in idx]
            elif how == "tuple":
                arg = tuple(idx)
            else:
                arg = list(idx)
            return "obj", f(arg, **akw), []
        if name == "delete":
            return "obj", f(py_obj(step["obj"]), **akw), []
        if name == "remove":
            f(py_obj(step["obj"]), **akw)
            return "self", None, []
        if name == "reorder":
            how = step.get("as_array", True)
            f(numpy.array(step["indices"], dtype=how if how in ("int32", "int16") else "int64") if how
              else list(step["indices"]), **akw)
            return "self", None, []
        if name in ("lexsort", "sort"):
            keys = step.get("keys")
            kw = dict(akw)
            if keys is not None and step.get("keys_form") == "ndarray2d":
                kw["keys"] = numpy.array(keys, dtype="int64")          # documented: "a (k, N) array or tuple"
            elif keys is not None:
                kw["keys"] = tuple(None if c is None else numpy.array(c, dtype="int64") for c in keys)
            elif generic:
                kw["keys"] = None
            r = f(**kw)
            if name == "lexsort":
                return "val", [int(x) for x in r], []
            return "self", None, []
        if name in ("group", "ungroup"):
            f(**akw)
            return "self", None, []
        if name == "is_grouped":
            return "val", bool(f(**akw)), []
        if name in ("adjoin", "append", "insert", "incorp"):
            opd = step["operand"]
            form = step_form(step)
            opds = []
            if form == "raw":
                values = render_mat(self.cname, opd["mat"])
                kw = {n: render_col(n, c) for n, c in zip(COLS[k], opd["cols"])}
            elif form == "obj":
                values, _ = self.operand_obj(live, k, opd)
                opds = [values]
                kw = {}
            else:
                decoy = step["override"]
                values, _ = self.operand_obj(live, k, opd, decoy)
                opds = [values]
                kw = {n: render_col(n, c) for n, c, how in zip(COLS[k], opd["cols"], decoy) if how is not None}
            kw.update(akw)
            if keep is not None:
                keep(opds)
            args = (py_obj(step["obj"]), values) if name in ("insert", "incorp") else (values,)
            r = f(*args, **kw)
            return (("obj", r) if name in ("adjoin", "insert") else ("self", None)) + (opds,)
        if name == "concat":
            others = [self.operand_obj(live, k, o)[0] for o in step["others"]]
            if keep is not None:
                keep(others)
            return "obj", f([live] + others, **akw), others
        raise ValueError(name)


PURE_OF = {"append": "adjoin", "remove": "delete", "incorp": "insert"}
MUTATING = ("append", "remove", "incorp", "reorder", "sort", "group", "ungroup")


def _same(a, b):
    return a == b


def _exc_rec(rec, e):
    if isinstance(e, RecursionError):
        rec["error"] = "unsupported"
        rec["error_text"] = "RecursionError"
    else:
        rec["error"] = canon.exc_tag(e)
        rec["error_text"] = f"{type(e).__name__}: {e}"[:200]


class Heap:
    """every object a history has produced or used stays alive here, with the state it was last verified in;
    after every step all of them are looked at again (an operation on one object must not reach another one
    through label arrays the two happen to share)"""

    def __init__(self, cname):
        self.cname = cname
        self.objs = []          # receivers: the initial object and every result of a non-mutating operation
        self.snaps = []
        self.fps = []
        self.extra = []         # operand objects: [obj, fingerprint, state, step index]

    def add(self, obj):
        self.objs.append(obj)
        self.snaps.append(observe(self.cname, obj))
        self.fps.append(fingerprint(self.cname, obj))
        return len(self.objs) - 1

    def refresh(self, j):
        self.snaps[j] = observe(self.cname, self.objs[j])
        self.fps[j] = fingerprint(self.cname, self.objs[j])

    def fields(self):
        d = CLASSES[self.cname]
        out = ["mat"]
        for k in KINDS:
            if d[k]:
                out += COLS[k]
                if k in GRP_ATTR:
                    out += [GRP_ATTR[k] + sfx for sfx in ("_name", "_stix", "_spix", "_len")]
        return out

    def shares(self):
        """[a, b, field]: objects a < b hold the same ndarray (or overlapping memory) in `field`"""
        out = []
        flds = self.fields()
        arrs = [[getattr(o, f, None) for f in flds] for o in self.objs]
        for a in range(len(self.objs)):
            for b in range(a + 1, len(self.objs)):
                for f, x, y in zip(flds, arrs[a], arrs[b]):
                    if x is None or y is None or not isinstance(x, numpy.ndarray) or not isinstance(y, numpy.ndarray):
                        continue
                    if x is y or (x.size and y.size and numpy.may_share_memory(x, y) and numpy.shares_memory(x, y)):
                        out.append([a, b, f])
        return out

    def changed(self, skip=(), si=None):
        """objects whose public state differs from the last verified one (their snapshots are refreshed)"""
        out = []
        for j, o in enumerate(self.objs):
            if j in skip:
                continue
            fp = fingerprint(self.cname, o)
            if fp != self.fps[j]:
                try:
                    now = observe(self.cname, o)
                except Exception as e:
                    now = {"unreadable": f"{type(e).__name__}: {e}"[:200]}
                if now != self.snaps[j]:
                    out.append({"id": j, "role": "object", "before": self.snaps[j], "after": now})
                    if "unreadable" not in now:
                        self.snaps[j] = now
                self.fps[j] = fp
        for ent in self.extra:
            fp = fingerprint(self.cname, ent[0])
            if fp != ent[1]:
                try:
                    now = observe(self.cname, ent[0])
                except Exception as e:
                    now = {"unreadable": f"{type(e).__name__}: {e}"[:200]}
                if now != ent[2]:
                    out.append({"id": f"operand of step {ent[3]}", "role": "operand" if ent[3] == si else "object",
                                "before": ent[2], "after": now})
                    if "unreadable" not in now:
                        ent[2] = now
                ent[1] = fp
        return out


def run_history(case):
    cname = case["cls"]
    rn = Runner(cname)
    heap = Heap(cname)
    heap.add(build(cname, case["init"], case.get("layout", "C"), role="narrow"))
    # history of length 0: the object must carry exactly the data and labels it was created with
    created = heap.snaps[0]
    created_ok = (created["mat"] == case["init"]["mat"]
                  and all(created[k]["cols"] == case["init"][k]["cols"] for k in KINDS))
    steps_out = []
    for si, step in enumerate(case["steps"]):
        rid = step.get("on")
        if rid is None or not (0 <= rid < len(heap.objs)):
            rid = len(heap.objs) - 1
        live = heap.objs[rid]
        rec = {"on": rid, "pre": heap.snaps[rid]}
        k = step["kind"]
        # ---- the counterpart forms, each on a private deep copy of the receiver (run first: the main call below
        #      works on the real object)
        # S6: mutating == pure counterpart
        if step["name"] in PURE_OF:
            alt = dict(step, name=PURE_OF[step["name"]])
            try:
                kk, vv, _ = rn.call(copy.deepcopy(live), alt)
                rec["pure_counterpart"] = observe(cname, vv)
            except Exception as e:
                rec["pure_counterpart"] = {"error": canon.exc_tag(e), "text": f"{type(e).__name__}: {e}"[:160]}
        # S7: generic form == specific form
        if step.get("xform", True):
            alt = dict(step)
            if step.get("generic"):
                alt["generic"] = False
            else:
                alt["generic"] = True
                alt["axis"] = step["alt_axis"]
            try:
                kk, vv, _ = rn.call((probe2 := copy.deepcopy(live)), alt)
                if kk == "obj":
                    rec["other_form"] = observe(cname, vv)
                elif kk == "self":
                    rec["other_form"] = observe(cname, probe2)
                else:
                    rec["other_form"] = {"value": vv}
            except RecursionError:
                rec["other_form"] = {"error": "unsupported", "text": "RecursionError"}
            except Exception as e:
                rec["other_form"] = {"error": canon.exc_tag(e), "text": f"{type(e).__name__}: {e}"[:160]}
        # ---- the step itself, on the real object (no copy: whatever it shares with other live objects stays shared)
        def keep(objs, si=si):
            for o in objs:
                heap.extra.append([o, fingerprint(cname, o), observe(cname, o), si])

        try:
            kind, val, opds = rn.call(live, step, keep)
            rec["error"] = None
        except Exception as e:                      # recorded; the judge decides what it means
            kind, val = "exc", None
            _exc_rec(rec, e)
        try:
            if kind == "exc":
                # a failed mutating call may have reset cached metadata before it raised: go on from what is there
                mutating = step["name"] in MUTATING
                rec["changed"] = heap.changed(skip=(rid,) if mutating else (), si=si)
                if mutating:
                    heap.refresh(rid)
                    rec["receiver_after_error"] = heap.snaps[rid]
                steps_out.append(rec)
                continue
            if kind == "obj":
                new = heap.add(val)
                rec["post"] = heap.snaps[new]
                rec["new"] = new
                rec["changed"] = heap.changed(skip=(new,), si=si)
            elif kind == "self":
                heap.refresh(rid)
                rec["post"] = heap.snaps[rid]
                rec["changed"] = heap.changed(skip=(rid,), si=si)
            else:
                rec["value"] = val
                rec["changed"] = heap.changed(si=si)
        except Exception as e:                       # state that cannot even be read back
            rec["unreadable"] = f"{type(e).__name__}: {e}"[:200]
            steps_out.append(rec)
            break
        rec["shares"] = heap.shares()
        if kind != "self":
            rec["self_unchanged"] = not any(c["id"] == rid for c in rec["changed"])
        if step["name"] in ("adjoin", "append", "insert", "incorp", "concat") and step_form(step) != "raw":
            rec["operand_unchanged"] = not any(c["role"] == "operand" for c in rec["changed"])
        steps_out.append(rec)
    out = {"steps": steps_out}
    if not created_ok:
        out["created"] = created
    return out


# ------------------------------------------------------------------------------------------------
class Gen:
    """history generator; tracks axis lengths itself (numpy only, never pybrops)"""

    def __init__(self, rng, cname, dup_labels=False, tiny=False):
        self.rng = rng
        self.cname = cname
        self.d = CLASSES[cname]
        self.dup = dup_labels
        # name codes start just below a power of ten now and then: names of different lengths in one array
        self.next_name = {k: rng.choice([0, 0, 6, 8, 95, 98, 995]) for k in KINDS}
        self.next_cell = rng.randrange(0, 200)
        self.tiny = tiny
        self.allow_pad = True
        self.matprof = False        # dtype profile on the data: init cells get EVEN codes, operand cells ODD ones
        self.no_decoy = False       # narrow label dtypes: no "other labels" operand objects (decoy codes do not fit)
        self.ext_ins = CLASSES[cname]["ndim"] <= 3      # mask / unsorted positions of numpy.insert (Model/LabelMatX)
        r = rng.random()
        # presence pattern of the optional label columns (fixed for the whole history)
        self.present = {}
        for k in KINDS:
            n = len(COLS[k])
            if not self.d[k]:
                self.present[k] = [False] * n
            elif r < 0.45:
                self.present[k] = [True] * n
            elif r < 0.9:
                self.present[k] = [rng.random() < 0.6 for _ in range(n)]
            else:
                self.present[k] = [False] * n

    def cells(self, shape, odd=False):
        out = numpy.zeros(shape, dtype="int64")
        it = numpy.nditer(out, flags=["multi_index"], op_flags=["writeonly"])
        for x in it:
            c = self.next_cell
            self.next_cell += 1
            if self.matprof:
                x[...] = 2 * c + (1 if odd else 0)
            else:
                x[...] = ((c + 128) % 256) - 128 if self.d["dtype"] == "int8" else c
        return out.tolist()

    def col_codes(self, k, ci, q):
        rng = self.rng
        name = COLS[k][ci]
        if name in ("taxa", "vrnt_name", "trait", "vrnt_hapalt", "vrnt_hapref"):
            if self.dup and rng.random() < 0.5:
                return [rng.randrange(0, 4) for _ in range(q)]
            base = self.next_name[k]
            self.next_name[k] += q
            codes = list(range(base, base + q))
            rng.shuffle(codes)
            return codes
        if name in ("taxa_grp", "vrnt_chrgrp", "vrnt_hapgrp"):
            return [rng.randrange(1, 4) for _ in range(q)]
        if name == "vrnt_phypos":
            return [rng.randrange(0, 6 if q < 100 else 40) for _ in range(q)]          # ties on purpose (stability)
        if name == "vrnt_mask":
            return [rng.randrange(0, 2) for _ in range(q)]
        return [rng.randrange(0, 40) for _ in range(q)]

    def bundle_cols(self, k, q):
        return [self.col_codes(k, ci, q) if p else None for ci, p in enumerate(self.present[k])]

    def init_state(self):
        rng = self.rng
        d = self.d
        hi = 3 if self.tiny else 5
        ln = {k: rng.choice([1, 2, 3, 3, 4, hi]) for k in KINDS}
        if len(d["taxa"]) > 2:
            ln["taxa"] = rng.choice([2, 3, 3]) if len(d["taxa"]) == 3 else rng.choice([2, 2, 3])
            ln["trait"] = rng.choice([1, 2])
        for k, v in getattr(self, "big", {}).items():
            ln = {kk: rng.choice([1, 2]) for kk in KINDS}
            ln[k] = v
        shape = [1] * max(3, d["ndim"])
        for a in range(d["ndim"]):
            if a not in d["taxa"] + d["vrnt"] + d["trait"]:
                # an axis without labels (phase axis; the second axis of the single-bundle base classes)
                shape[a] = rng.choice([1, 2, 2, 3])
        for k in KINDS:
            for a in d[k]:
                shape[a] = ln[k]
        self.shape = shape
        st = {"mat": self.cells(shape)}
        for k in KINDS:
            st[k] = {"cols": self.bundle_cols(k, ln[k]) if d[k] else [None] * len(COLS[k]), "grp": None}
        # one entry per live receiver object (the initial one; every result of a non-mutating operation)
        self.objs = [{"len": {k: (shape[d[k][0]] if d[k] else 0) for k in KINDS},
                      "has_none": {k: False for k in KINDS}, "narrow": self.matprof}]
        return st

    def block_shape(self, meta, k, q, first_axis_only=False):
        s = list(self.shape)
        for kk in KINDS:
            for a in self.d[kk]:
                s[a] = meta["len"][kk]
        for a in (self.d[k][:1] if first_axis_only else self.d[k]):
            s[a] = q
        return s

    def operand(self, meta, k, q, rows=False):
        """operand block with q new entries; `rows`: a q x n block of rows (what the single-axis insert / incorp /
        concat of the square classes take), otherwise the q x q diagonal block of adjoin / append"""
        cols = self.bundle_cols(k, q)
        for ci in PAD_COLS[k]:
            # names not supplied although the receiver has names: the source pads them with None
            if cols[ci] is not None and self.allow_pad and self.rng.random() < 0.2:
                cols[ci] = None
                meta["has_none"][k] = True
        return {"mat": self.cells(self.block_shape(meta, k, q, first_axis_only=rows), odd=True), "cols": cols}

    def rand_index(self, n):
        i = self.rng.randrange(n)
        return i - n if self.rng.random() < 0.3 else i

    def del_obj(self, n):
        """a numpy.delete argument that keeps at least one entry; returns (obj, new length)"""
        rng = self.rng
        r = rng.random()
        if n <= 1:
            return {"list": []}, n
        if r < 0.22:
            o = {"int": self.rand_index(n)}
        elif r < 0.3:
            dt = rng.choice(["int64", "int32", "int16", "uint8"])
            o = {"npint": rng.randrange(min(n, 200)) if dt == "uint8" else self.rand_index(n), "dtype": dt}
        elif r < 0.55:
            cnt = rng.randint(1, max(1, n - 1))
            o = {"list": [self.rand_index(n) for _ in range(cnt)]}
        elif r < 0.65:
            cnt = rng.randint(1, max(1, n - 1))
            dt = rng.choice(["int64", "int64", "int32", "int16", "uint8"])
            o = {"array": [rng.randrange(min(n, 200)) if dt == "uint8" else self.rand_index(n) for _ in range(cnt)],
                 "dtype": dt}
        elif r < 0.85:
            o = {"slice": [rng.choice([None, 0, 1, -1, -2, 2]), rng.choice([None, 1, 2, -1, n, n + 2]),
                           rng.choice([None, 1, 2, -1])]}
        elif r < 0.96:
            o = {"mask": [rng.random() < 0.4 for _ in range(n)]}
        else:
            o = {"boollist": [rng.random() < 0.4 for _ in range(n)]}
        left = len(numpy.delete(numpy.arange(n), py_obj(o)))
        if left == 0:
            return {"int": self.rand_index(n)}, n - 1
        return o, left

    def ins_obj(self, n, q, axis0):
        """a numpy.insert position for q new entries"""
        rng = self.rng
        r = rng.random()
        if r < 0.3:
            p = rng.randrange(n + 1)
            p = p - n if (rng.random() < 0.25 and p < n) else p
            if rng.random() < 0.3:
                dt = rng.choice(["int64", "int32", "int16", "uint8"])
                if not (dt == "uint8" and (p < 0 or p > 255)):
                    return {"npint": p, "dtype": dt}
            if self.ext_ins and rng.random() < 0.2:
                return {"int0d": p}            # a 0-d integer ndarray (wrapped like an integer since the repair of D17b)
            return {"int": p}
        if r < 0.75 or q == 0:
            p = rng.randrange(n + 1)
            return {"list": [p - n if (rng.random() < 0.25 and p < n) else p]}
        if r < 0.84:
            return {"list": sorted(rng.randrange(n + 1) for _ in range(q))}
        if r < 0.9 and self.ext_ins:
            # positions in any order (numpy sorts them stably and moves the values along), negative entries included
            ps = [rng.randrange(n + 1) for _ in range(q)]
            return {"list": [p - n if (rng.random() < 0.2 and p < n) else p for p in ps]}
        if r < 0.95 and self.ext_ins:
            # boolean ndarray of length n or n + 1 with exactly q entries set (q = 1: the block goes before that one)
            ln = n + 1 if rng.random() < 0.4 else n
            on = set(rng.sample(range(ln), min(q, ln)))
            return {"mask": [i in on for i in range(ln)]}
        a = rng.randrange(n + 1)
        return {"slice": [a, min(n, a + q), 1]} if a + q <= n else {"list": [a]}

    def operand_form(self, k, st):
        """how the operand is handed over (see `step_form`)"""
        rng = self.rng
        r = rng.random()
        if r < 0.3:
            st["form"] = "raw"
        elif r < 0.65:
            st["form"] = "obj"
        else:
            st["form"] = "obj_kw"
            cols = st["operand"]["cols"]
            ov = [None if c is None else rng.choice(["other", "other", "none", None]) for c in cols]
            if all(x is None for x in ov):
                present = [ci for ci, c in enumerate(cols) if c is not None]
                if present:
                    ov[rng.choice(present)] = "other"
                else:
                    st["form"] = "obj"
            if st["form"] == "obj_kw":
                st["override"] = ["none" if (x == "other" and self.no_decoy) else x for x in ov]
        st["raw"] = st["form"] == "raw"

    def step(self, only_kind=None, names=None, force_rid=None):
        rng = self.rng
        d = self.d
        # the receiver: mostly the newest object, sometimes an older one that is still alive
        rid = len(self.objs) - 1 if rng.random() < 0.7 else rng.randrange(len(self.objs))
        if force_rid is not None:
            rid = force_rid
        meta = self.objs[rid]
        k = only_kind or rng.choice(op_kinds_of(self.cname))
        only_names = names
        n = meta["len"][k]
        names = ["select", "delete", "remove", "reorder", "sort", "group", "ungroup", "is_grouped", "lexsort",
                 "adjoin", "append", "insert", "incorp", "concat", "group", "sort", "reorder"]
        if k == "trait":
            names = [x for x in names if x not in ("group", "ungroup", "is_grouped")]
        names = [x for x in names if x not in d.get("skip_ops", ())]
        if is_square_k(self.cname, k) and REPAIRED and is_nd(self.cname):
            names = [x for x in names if x not in ("insert", "incorp", "concat")]     # no N-D model of the repair
        elif is_square_k(self.cname, k) and not REPAIRED:
            # the single-axis edits of the square classes are a known defect (D14 / D14b): keep them rare
            names = [x for x in names if x not in ("insert", "incorp", "concat")] * 3 + ["insert", "incorp", "concat"]
        if len(d["taxa"]) > 2 and k == "taxa" and n >= 4:
            names = [x for x in names if x not in ("adjoin", "append")]      # keep n ** r small
        if only_names:
            names = [x for x in only_names if x in names]
        if self.matprof and meta.get("narrow"):
            # numpy.insert casts the inserted block to the receiver's dtype (numpy semantics, see ASSUMPTIONS): a wide
            # block is inserted only into a matrix that an adjoin / append / concat has already promoted
            names = [x for x in names if x not in ("insert", "incorp")] or ["select"]
        name = rng.choice(names)
        if meta["has_none"][k] and k == "taxa" and name == "group":
            name = "sort"                     # group_taxa sorts on the names: None vs str cannot be compared
        axis = d[k][rng.randrange(len(d[k]))]
        ax = axis - d["ndim"] if rng.random() < 0.4 else axis
        st = {"name": name, "kind": k, "generic": rng.random() < 0.4, "axis": ax, "alt_axis": ax, "on": rid}
        if axis == d["ndim"] - 1 and rng.random() < 0.35:
            # the documented default of every axis-generic method is axis = -1: call it without the keyword
            st["omit_axis"] = True
            st["axis"] = st["alt_axis"] = -1
        new_len = None                        # length of axis k of the object the step leaves / returns
        if name == "select":
            cnt = rng.randint(1, n + 1)
            if len(d["taxa"]) > 2 and k == "taxa":
                cnt = min(cnt, 3)
            if n > 100:
                cnt = rng.randint(n // 2, n)
            st["indices"] = [self.rand_index(n) for _ in range(cnt)]
            st["as_array"] = rng.choice([False, True, True, "int32", "tuple", "int16", "uint8", "npints"])
            if st["as_array"] == "uint8":
                st["indices"] = [i % n if n <= 256 else min(i % n, 255) for i in st["indices"]]
            new_len = cnt
        elif name in ("delete", "remove"):
            st["obj"], new_len = self.del_obj(n)
        elif name == "reorder":
            p = list(range(n))
            rng.shuffle(p)
            st["indices"] = [i - n if rng.random() < 0.2 else i for i in p]
            st["as_array"] = rng.choice([True, True, False, "int32", "int16"])
        elif name in ("sort", "lexsort"):
            r = rng.random()
            if r < 0.6 and not (meta["has_none"][k] and k == "taxa"):
                st["keys"] = None
            else:
                nk = rng.randint(1, 3)
                st["keys"] = [None if rng.random() < 0.15 else [rng.randrange(0, 3) for _ in range(n)]
                              for _ in range(nk)]
            if st["keys"] is not None and all(c is not None for c in st["keys"]) and rng.random() < 0.3:
                st["keys_form"] = "ndarray2d"
            has_default = any(self.present[k][c] for c in {"taxa": [0, 1], "vrnt": [1, 0], "trait": [0]}[k])
            ok = has_default if st["keys"] is None else any(c is not None for c in st["keys"])
            st["expect_error"] = not ok
        elif name == "group":
            st["expect_error"] = not any(self.present[k][c] for c in {"taxa": [0, 1], "vrnt": [1, 0]}[k])
        elif name in ("adjoin", "append", "insert", "incorp"):
            q = rng.choice([1, 1, 2, 2, 3])
            if len(d["taxa"]) > 2 and k == "taxa":
                q = 1
            rows = name in ("insert", "incorp") and not REPAIRED
            none_before = meta["has_none"][k]
            st["operand"] = self.operand(meta, k, q, rows)
            if name in ("insert", "incorp"):
                ext = self.ext_ins
                if REPAIRED and is_square_k(self.cname, k):
                    self.ext_ins = False          # the repaired model takes the integer / sorted list / slice forms
                st["obj"] = self.ins_obj(n, q, d[k][0] == 0)
                self.ext_ins = ext
                if "list" in st["obj"] and len(st["obj"]["list"]) > 1:
                    st["operand"] = self.operand(meta, k, len(st["obj"]["list"]), rows)
                    q = len(st["obj"]["list"])
                if "slice" in st["obj"]:
                    q2 = len(range(*slice(*st["obj"]["slice"]).indices(n)))
                    if q2 != q:
                        st["operand"] = self.operand(meta, k, q2, rows)
                        q = q2
                if "mask" in st["obj"]:
                    q2 = sum(st["obj"]["mask"])
                    if q2 != q and q2 > 1:
                        st["operand"] = self.operand(meta, k, q2, rows)
                        q = q2
            self.operand_form(k, st)
            new_len = n + q
            if name in ("adjoin", "insert"):
                # the None padding lands in the returned object, not in the receiver
                padded = meta["has_none"][k]
                meta["has_none"][k] = none_before
                st["_padded"] = padded
        elif name == "concat":
            qs = [rng.choice([1, 2]) for _ in range(rng.randint(1, 2))]
            none_before = meta["has_none"][k]
            st["others"] = [self.operand(meta, k, q, not REPAIRED) for q in qs]
            st["_padded"] = meta["has_none"][k]
            meta["has_none"][k] = none_before
            new_len = n + sum(qs)
        if name in ("select", "delete", "adjoin", "insert", "concat"):
            child = {"len": dict(meta["len"]), "has_none": dict(meta["has_none"]),
                     "narrow": bool(meta.get("narrow")) and name in ("select", "delete")}
            if new_len is not None:
                child["len"][k] = new_len
            if st.pop("_padded", False):
                child["has_none"][k] = True
            self.objs.append(child)
        else:
            st.pop("_padded", None)
            if new_len is not None:
                meta["len"][k] = new_len
            if name in ("append", "incorp"):
                meta["narrow"] = False
        return st


CLASS_MIX = (["DensePhasedGenotypeMatrix"] * 5 + ["DenseGenotypeMatrix"] * 4 +
             ["DenseTaxaVariantMatrix", "DensePhasedTaxaVariantMatrix", "DenseTaxaTraitMatrix",
              "DenseTaxaTraitMatrix", "DenseSquareTaxaMatrix", "DenseMolecularCoancestryMatrix",
              "DenseMolecularCoancestryMatrix", "DenseSquareTaxaTraitMatrix", "DenseTaxaMatrix",
              "DenseBreedingValueMatrix", "DenseBreedingValueMatrix",
              "DenseVariantMatrix", "DenseTraitMatrix", "DenseSquareTraitMatrix",
              "DenseVanRadenCoancestryMatrix", "DenseTwoWayDHAdditiveGeneticVarianceMatrix",
              "DenseGenomicEstimatedBreedingValueMatrix",
              "DenseSquareTaxaTraitMatrix@4", "DenseThreeWayDHAdditiveGeneticVarianceMatrix",
              "DenseThreeWayDHAdditiveGeneticVarianceMatrix", "DenseFourWayDHAdditiveGenicVarianceMatrix"])


def gen_big(rng):
    """an axis longer than 127 / 256 entries (index dtypes, int8 counters): few steps, one long axis"""
    cname = rng.choice(["DenseTaxaVariantMatrix", "DenseGenotypeMatrix", "DenseTaxaTraitMatrix", "DenseTaxaMatrix",
                        "DenseVariantMatrix", "DensePhasedGenotypeMatrix"])
    g = Gen(rng, cname, dup_labels=False)
    kinds = op_kinds_of(cname)
    big = rng.choice(kinds)
    g.big = {big: rng.choice([130, 150, 200, 260, 300] + ([1030, 1100] if rng.random() < 0.12 else []))}
    init = g.init_state()
    steps = []
    for _ in range(rng.randint(1, 4)):
        for _try in range(20):
            s = g.step(only_kind=big, names=["select", "delete", "remove", "reorder", "sort", "group", "lexsort",
                                             "reorder", "sort"])
            break
        steps.append(s)
    return {"kind": "hist", "cls": cname, "init": init, "steps": steps, "big": True}


TWO_BUNDLE = ["DensePhasedGenotypeMatrix", "DenseGenotypeMatrix", "DenseTaxaVariantMatrix",
              "DensePhasedTaxaVariantMatrix", "DenseTaxaTraitMatrix"]


def gen_alias(rng):
    """directed two-object histories on the classes with two label bundles: prime bundle k1 of object A (group /
    is_grouped / lexsort), derive B by a NON-mutating operation along the OTHER bundle (B is handed A's k1 arrays and
    k1 group metadata), then operate in place on k1 of B (or of A) — ungroup / group / sort / reorder / remove /
    append — and query both again.  Every object stays alive; all are re-verified after every step."""
    cname = rng.choice(TWO_BUNDLE)
    g = Gen(rng, cname, dup_labels=rng.random() < 0.2)
    kinds = kinds_of(cname)
    k1 = rng.choice([k for k in kinds if k in GRP_ATTR])
    k2 = rng.choice([k for k in kinds if k != k1])
    # the grouping column of k1 must be there, or nothing is cached
    g.present[k1][{"taxa": 1, "vrnt": 0}[k1]] = True
    if k1 == "vrnt":
        g.present[k1][1] = True
    g.allow_pad = False
    init = g.init_state()
    steps = []
    for _ in range(rng.randint(1, 2)):
        steps.append(g.step(only_kind=k1, names=["group", "group", "is_grouped", "lexsort", "sort"], force_rid=0))
    if not any(s["name"] == "group" for s in steps):
        steps.append(g.step(only_kind=k1, names=["group"], force_rid=0))
    steps.append(g.step(only_kind=k2, names=["select", "delete", "adjoin", "insert", "concat"], force_rid=0))
    nb = len(g.objs) - 1
    for _ in range(rng.randint(1, 3)):
        who = nb if rng.random() < 0.7 else 0
        steps.append(g.step(only_kind=k1, names=["ungroup", "group", "sort", "reorder", "remove", "append", "ungroup",
                                                 "is_grouped"], force_rid=who))
    steps.append(g.step(only_kind=k1, names=["is_grouped", "group", "lexsort"], force_rid=rng.choice([0, nb])))
    return {"kind": "hist", "cls": cname, "init": init, "steps": steps, "alias": True}


DT_MAT = {"float64": [("float32", "float64"), ("float32", "float64"), ("float16", "float64"), ("int16", "float64"),
                      ("int16", "int64"), ("int32", "int64")],
          "int64": [("int16", "int64"), ("int32", "int64"), ("int16", "int64"), ("int32", "float64")]}
DT_MAT_CLASSES = ["DenseTaxaTraitMatrix", "DenseTaxaTraitMatrix", "DenseTraitMatrix", "DenseTaxaMatrix",
                  "DenseVariantMatrix", "DenseTaxaVariantMatrix", "DensePhasedTaxaVariantMatrix"]
DT_LABEL_CLASSES = ["DensePhasedGenotypeMatrix", "DenseGenotypeMatrix", "DenseTaxaVariantMatrix",
                    "DensePhasedTaxaVariantMatrix", "DenseTaxaTraitMatrix", "DenseTaxaTraitMatrix", "DenseTaxaMatrix",
                    "DenseVariantMatrix", "DenseBreedingValueMatrix", "DenseSquareTaxaMatrix",
                    "DenseSquareTaxaTraitMatrix"]       # (the coancestry classes document int64 group arrays only)
_DT_COL_AT = {"taxa_grp": ("taxa", 1), "vrnt_chrgrp": ("vrnt", 0), "vrnt_phypos": ("vrnt", 1), "vrnt_hapgrp": ("vrnt", 5)}


def gen_dtype(rng):
    """histories whose arrays are NOT all in the documented default dtypes (see `_PROFILE`):
      mat    : receiver stored in a narrower dtype than the blocks adjoined / appended / concatenated to it
               (float32 / float16 / int16 / int32 against float64 / int64; int16 against float64 = another kind);
      labels : integer label columns (groups, positions) stored as uint8 / uint16 / uint32 / uint64 / int8 / int16 /
               int32, rendered so that consecutive labels differ by more than the signed range of the dtype"""
    r = rng.random()
    dt = {}
    if r < 0.45:
        cname = rng.choice(DT_MAT_CLASSES)
        nar, wide = rng.choice(DT_MAT[CLASSES[cname]["dtype"]])
        dt["mat"] = {"narrow": nar, "wide": wide}
    else:
        cname = rng.choice(DT_LABEL_CLASSES)
    g = Gen(rng, cname, dup_labels=rng.random() < 0.3)
    g.matprof = "mat" in dt
    focus = None
    if r >= 0.3:
        labels = {}
        cands = [n for n in _DT_COLS if CLASSES[cname][_DT_COL_AT[n][0]] and _DT_COL_AT[n][0] in op_kinds_of(cname)]
        if not cands:
            cands = [n for n in _DT_COLS if CLASSES[cname][_DT_COL_AT[n][0]]]
        for n in cands:
            if rng.random() < (0.8 if n in ("taxa_grp", "vrnt_chrgrp") else 0.4):
                table = _POS_DT_AFFINE if n == "vrnt_phypos" else _GRP_DT_AFFINE
                labels[n] = rng.choice(sorted(table) + ["uint8", "uint16"])
                k, ci = _DT_COL_AT[n]
                g.present[k][ci] = True
        if labels:
            dt["labels"] = labels
            g.no_decoy = True
            grp = [n for n in labels if n in ("taxa_grp", "vrnt_chrgrp")]
            if grp:
                focus = _DT_COL_AT[rng.choice(grp)][0]
    init = g.init_state()
    steps = []
    for _ in range(rng.randint(1, 7)):
        x = rng.random()
        if g.matprof and x < 0.5:
            s = g.step(names=["adjoin", "append", "concat", "adjoin", "append"])
        elif focus is not None and focus in op_kinds_of(cname) and x < 0.5:
            s = g.step(only_kind=focus, names=["group", "group", "sort", "is_grouped", "reorder"])
        else:
            s = g.step()
        steps.append(s)
        if _trigger(cname, s, present=g.present) is not None:
            break
    return {"kind": "hist", "cls": cname, "init": init, "steps": steps, "dt": dt}


def gen_history(rng, cname=None, nsteps=None, dup=None, tiny=False):
    if cname is None:
        cname = rng.choice(CLASS_MIX)
    g = Gen(rng, cname, dup_labels=(rng.random() < 0.3 if dup is None else dup), tiny=tiny)
    init = g.init_state()
    n = nsteps if nsteps is not None else rng.randint(1, 10)
    if len(CLASSES[cname]["taxa"]) > 2:
        n = min(n, 6)
    steps = []
    r_layout = rng.random()
    if r_layout < 0.24:
        # Fortran-ordered / non-contiguous inputs only matter while an operation still reads the arrays the object was
        # built from: begin with non-mutating operations on the initial object
        for _ in range(rng.randint(1, 2)):
            steps.append(g.step(names=["select", "delete", "select"], force_rid=0))
    for _ in range(n):
        s = g.step()
        steps.append(s)
        if _trigger(cname, s, present=g.present) is not None:
            break            # the next step would start from a state the defect has already corrupted
    case = {"kind": "hist", "cls": cname, "init": init, "steps": steps}
    if r_layout < 0.12:
        case["layout"] = "F"
    elif r_layout < 0.24:
        case["layout"] = "strided"
    return case


def _trigger(cname, step, pre=None, present=None):
    """attributes of a step that can set off one of the known defects of the tree (D14, D14b)"""
    if pre is None and present is not None:
        pre = {kk: {"cols": [0 if p else None for p in present[kk]]} for kk in KINDS}
    d = CLASSES[cname]
    name, k = step["name"], step["kind"]
    if REPAIRED:
        return None
    if is_square_k(cname, k) and name in ("insert", "incorp", "concat"):
        return {"site": "square_insert_incorp_concat" if k == "taxa" else "square_trait_insert_incorp_concat",
                "cond": "single_axis_edit"}
    # D71: a block of a WIDER dtype stored into a receiver that is still in its narrow storage dtype by an operation
    # that keeps the receiver's dtype (numpy.insert; the pre-allocated result of the square adjoin / append)
    if step.get("narrow_recv") and (name in ("insert", "incorp")
                                    or (is_square_k(cname, k) and name in ("adjoin", "append"))):
        return {"site": "store_into_receiver_dtype", "cond": "wider_block"}
    return None


# ------------------------------------------------------------------------------------------------
# genotyping protocols (mechanism: variant group metadata rebuilt after masking)
GT_PROTOS = {"masked_phased": ("pybrops.breed.prot.gt.DenseMaskedPhasedGenotyping", "DenseMaskedPhasedGenotyping",
                               "DensePhasedGenotypeMatrix", True, False),
             "masked_unphased": ("pybrops.breed.prot.gt.DenseMaskedUnphasedGenotyping", "DenseMaskedUnphasedGenotyping",
                                 "DenseGenotypeMatrix", True, True),
             "unphased": ("pybrops.breed.prot.gt.DenseUnphasedGenotyping", "DenseUnphasedGenotyping",
                          "DenseGenotypeMatrix", False, True)}


def run_gt(case):
    import importlib
    P = "DensePhasedGenotypeMatrix"
    mod, cls, outc, masked, unphase = GT_PROTOS[case["proto"]]
    rn = Runner(P)
    live = build(P, case["init"])
    for st in case["prep"]:
        rn.call(live, st)
    pre = observe(P, live)
    pcls = getattr(importlib.import_module(mod), cls)
    proto = pcls(invert=case["invert"]) if masked else pcls()
    out = proto.genotype(live)
    rec = {"pre": pre, "post": observe(outc, out), "input_unchanged": observe(P, live) == pre}
    # reference for the attachment Spec: the input itself, or its phase sum (int8 accumulation) as an
    # unphased matrix carrying the input's labels
    if unphase:
        m = numpy.array(pre["mat"], dtype="int64").astype("int8").sum(0, dtype="int8").astype("int64")
        ref = dict(pre, mat=m[:, :, None].tolist())
    else:
        ref = pre
    rec["ref"] = ref
    # the protocol hands label arrays (and, without a mask, the data) of the input to the output: in-place
    # operations on either object afterwards must not reach the other one
    objs = {"in": (P, live), "out": (outc, out)}
    snaps = {"in": pre, "out": rec["post"]}
    rec["alias"] = []
    for st in case.get("after", []):
        tgt = st["target"]
        other = "out" if tgt == "in" else "in"
        cn, o = objs[tgt]
        step = dict(st)
        if step["name"] == "reorder":
            n = numpy.asarray(o.mat).shape[CLASSES[cn][step["kind"]][0]]
            step["indices"] = list(range(n))[::-1]
        try:
            Runner(cn).call(o, step)
        except Exception as e:
            rec["alias"].append({"step": st, "error": f"{type(e).__name__}: {e}"[:160]})
            continue
        ocn, oo = objs[other]
        try:
            now = observe(ocn, oo)
        except Exception as e:
            now = {"unreadable": f"{type(e).__name__}: {e}"[:160]}
        if now != snaps[other]:
            rec["alias"].append({"step": st, "who": other, "cls": ocn, "before": snaps[other], "after": now})
            if "unreadable" not in now:
                snaps[other] = now
        snaps[tgt] = observe(cn, o)
    return rec


def gen_gt(rng):
    g = Gen(rng, "DensePhasedGenotypeMatrix", dup_labels=rng.random() < 0.3)
    g.present["vrnt"][8] = rng.random() < 0.85            # the mask column
    g.present["vrnt"][0] = rng.random() < 0.9             # chromosome groups
    g.present["vrnt"][1] = True
    init = g.init_state()
    if g.d["dtype"] == "int8":
        # small cells so that the phase sum does not wrap for most cases (wrapping is modelled anyway)
        pass
    prep = []
    if rng.random() < 0.75:
        prep.append({"name": "group", "kind": "vrnt", "generic": False, "axis": 2, "alt_axis": 2})
    if rng.random() < 0.5 and (g.present["taxa"][0] or g.present["taxa"][1]):
        prep.append({"name": "group", "kind": "taxa", "generic": False, "axis": 1, "alt_axis": 1})
    after = []
    for _ in range(rng.choice([0, 1, 2, 2])):
        tgt = rng.choice(["in", "out"])
        kind = rng.choice(["taxa", "taxa", "vrnt"])
        name = rng.choice(["reorder", "sort", "group", "reorder"])
        has = {"taxa": g.present["taxa"][0] or g.present["taxa"][1], "vrnt": g.present["vrnt"][0] or True}[kind]
        if name in ("sort", "group") and not has:
            name = "reorder"
        after.append({"target": tgt, "name": name, "kind": kind, "generic": False, "axis": 0, "alt_axis": 0,
                      "keys": None})
    return {"kind": "gt", "proto": rng.choice(["masked_phased", "masked_phased", "masked_unphased", "unphased"]),
            "invert": rng.random() < 0.4, "init": init, "prep": prep, "after": after}

# ------------------------------------------------------------------------------------------------
_IDT = ["int8", "int16", "int32", "int64", "uint8", "uint16", "uint32", "uint64"]


def _idt_values(rng, dt, n):
    ii = numpy.iinfo(dt)
    pool = [int(ii.min), int(ii.max), 0, 1, int(ii.max) - 1, int(ii.min) + 1, int(ii.max) // 2 + 1, 70000, -40000, 255, 256,
            -129, 32768, 2 ** 31, 2 ** 32 + 5, 2 ** 63 + 5]
    pool = [x for x in pool if ii.min <= x <= ii.max]
    return [rng.choice(pool) if rng.random() < 0.7 else rng.randint(int(ii.min), int(ii.max)) for _ in range(n)]


def np_case(rng):
    """conformance of the model's numpy-like helpers against numpy itself"""
    r = rng.random()
    n = rng.randint(1, 7)
    l = [rng.randrange(100) for _ in range(n)]
    if rng.random() < 0.15:
        # storage dtypes (Model/LabelDtype.lean): numpy.append promotes, numpy.insert casts to the receiver's dtype
        da, db = rng.choice(_IDT), rng.choice(_IDT)
        return {"kind": "np", "fn": rng.choice(["dt_append", "dt_store"]), "da": da, "db": db,
                "l": _idt_values(rng, da, rng.randint(0, 3)), "v": _idt_values(rng, db, rng.randint(1, 3))}
    if r < 0.3:
        sl = [rng.choice([None, 0, 1, 2, -1, -2, -9, 9]), rng.choice([None, 0, 1, 3, -1, -3, 9, -9]),
              rng.choice([None, 1, 2, 3, -1, -2])]
        return {"kind": "np", "fn": "slice", "n": n, "slice": sl}
    if r < 0.6:
        g = Gen(rng, "DenseTaxaMatrix")
        o, _ = g.del_obj(n)
        if rng.random() < 0.15:
            o = {"int": rng.choice([n, -n - 1, n + 3])}
        return {"kind": "np", "fn": "delete", "l": l, "obj": drv_obj(o)}
    if r < 0.8:
        q = rng.randint(1, 3)
        g = Gen(rng, "DenseTaxaMatrix")
        g.ext_ins = False              # the mask / unsorted forms have their own conformance kind (`insertx`)
        o = drv_obj(g.ins_obj(n, q, True))
        if "list" in o and len(o["list"]) > 1:
            q = len(o["list"])
        if "slice" in o:
            q = len(range(*slice(*o["slice"]).indices(n)))
        v = [rng.randrange(100, 200) for _ in range(q)]
        return {"kind": "np", "fn": "insert", "l": l, "v": v, "obj": o}
    if r < 0.9:
        q = rng.randint(2, 4)
        if rng.random() < 0.5:
            o = {"list": [rng.randrange(-n, n + 1) for _ in range(q)]}
        else:
            ln = n + 1 if rng.random() < 0.4 else n
            on = set(rng.sample(range(ln), min(q, ln)))
            o = {"mask": [i in on for i in range(ln)]}
            q = len(on)
        if rng.random() < 0.2:
            q = 1
        return {"kind": "np", "fn": "insertx", "l": l, "v": [rng.randrange(100, 200) for _ in range(q)], "obj": o}
    axis = rng.randrange(3)
    shp = [rng.randint(1, 3) for _ in range(3)]
    vshp = list(shp)
    vshp[axis] = rng.randint(1, 3)
    m = numpy.arange(shp[0] * shp[1] * shp[2]).reshape(shp).tolist()
    v = (100 + numpy.arange(vshp[0] * vshp[1] * vshp[2])).reshape(vshp).tolist()
    p = rng.randrange(shp[axis] + 1)
    o = {"int": p} if rng.random() < 0.6 else {"list": [p]}
    return {"kind": "np", "fn": "insert3", "axis": axis, "m": m, "v": v, "obj": o}


def np_impl(case):
    fn = case["fn"]
    try:
        if fn == "slice":
            return {"idx": list(range(*slice(*case["slice"]).indices(case["n"])))}
        if fn == "delete":
            return {"l": [int(x) for x in numpy.delete(numpy.array(case["l"], dtype="int64"), py_obj(case["obj"]))]}
        if fn == "insert":
            return {"l": [int(x) for x in numpy.insert(numpy.array(case["l"], dtype="int64"), py_obj(case["obj"]),
                                                      numpy.array(case["v"], dtype="int64"))]}
        if fn == "insertx":
            a = numpy.array(case["l"], dtype="int64")
            v = numpy.array(case["v"], dtype="int64")
            # data (n x 1 x 1 block along axis 0) and the label array go through numpy.insert separately, as in pybrops
            d = numpy.insert(a.reshape(-1, 1), py_obj(case["obj"]), v.reshape(-1, 1), axis=0)
            lab = numpy.insert(a, py_obj(case["obj"]), v, axis=0)
            return {"l": {"data": [int(x) for x in d[:, 0]], "labels": [int(x) for x in lab]}}
        if fn in ("dt_append", "dt_store"):
            a = numpy.array(case["l"], dtype=case["da"])
            v = numpy.array(case["v"], dtype=case["db"])
            r = numpy.append(a, v, axis=0) if fn == "dt_append" else numpy.insert(a, len(a), v, axis=0)
            if r.dtype.kind not in "iu":
                return {"dtype": None}
            return {"dtype": r.dtype.name, "l": [int(x) for x in r]}
        if fn == "insert3":
            r = numpy.insert(numpy.array(case["m"], dtype="int64"), py_obj(case["obj"]),
                             numpy.array(case["v"], dtype="int64"), axis=case["axis"])
            return {"m": r.tolist()}
    except Exception as e:
        return {"error": canon.exc_tag(e)}
    raise ValueError(fn)


# ------------------------------------------------------------------------------------------------
class C03(Prop):
    PID = "C03"
    MODULE = "PybropsModel.Props.C03"
    N_QUICK = 1050
    N_THOROUGH = 5000
    CORRESPONDENCE = "functional"
    RULE = ("random histories (1-10 steps) over a HEAP of live objects — the initial object, every result of a "
            "non-mutating operation and every operand object stay alive; each step picks its receiver among them "
            "(70 % the newest) and after every step ALL live objects are read back and re-verified — of select / delete / "
            "insert / adjoin / concat / append / remove / incorp / reorder / lexsort / sort / group / ungroup / is_grouped "
            "on 22 concrete classes: phased and unphased genotype, taxa-variant, taxa-trait, breeding-value and genomic "
            "EBV (raw values), square-taxa, two coancestry subclasses, square-taxa-trait and two-way variance (2 taxa "
            "axes), DenseSquareTaxaTraitMatrix built from a 4-D array, three-way and four-way variance matrices (3 / 4 "
            "square taxa axes: N-D model), the three single-axis base classes (their unlabelled second axis 1-3 long), "
            "DenseSquareTraitMatrix (one trait bundle on two axes: a second copy of the square mechanism); directed "
            "two-object ALIAS histories (prime bundle k1 of A by group / is_grouped / lexsort, derive B by a non-mutating "
            "operation along the other bundle, operate in place on k1 of B or A, query both); plus the three genotyping protocols on "
            "(un)grouped phased matrices with and without a variant mask, followed by in-place operations on the output "
            "or the input (aliasing).  Axis-specific and axis-generic forms (negative axes included); index forms int / "
            "list / tuple / int64 / int32 / int16 / uint8 ndarray / numpy integer scalar / list of numpy integers / slice / "
            "boolean ndarray / plain list of booleans, with negative entries; numpy.insert positions "
            "also as boolean ndarray, as UNSORTED list and as 0-d ndarray; sort keys as tuple or as "
            "one (k, N) ndarray; axis-generic calls also WITHOUT the axis keyword when the last axis is meant (default -1); "
            "operands passed as raw arrays + label keywords, as matrix "
            "objects carrying the labels, or as matrix objects carrying OTHER labels (or none) that explicit label keywords "
            "must override; C / Fortran-ordered / non-contiguous (strided) input arrays; unique cell codes, unique or "
            "deliberately duplicated names, small group / position ranges (ties), random presence pattern of the optional "
            "label columns, shapes down to 1, a few histories with one axis of 130-300 (rarely 1030 / 1100) entries.  Values "
            "are rendered so that a narrowing cast shows: float64 cells = code + 2^-30, float labels = code/8 (/64) + 2^-40, "
            "int64 cells and integer labels offset by 3e9 .. 7e9, names of varying length.  DTYPE-PROFILE histories (8 %): (a) the "
            "initial object stores its data as float32 / float16 / int16 / int32 while every block adjoined / appended / "
            "concatenated comes as float64 / int64 (also int16 against float64), cell codes carrying their provenance in "
            "their parity — EVEN = exactly representable in the narrow type, ODD = rendered NOT representable in it "
            "(code + 2^-30, code + 5e9), so a block that passes through the narrow type cannot be decoded; (b) the integer "
            "label columns taxa_grp / vrnt_chrgrp / vrnt_hapgrp / vrnt_phypos stored, in receiver and operands alike, as "
            "uint8 / uint16 / uint32 / uint64 (above 2^63) / int8 / int16 / int32, interleaved, rendered so that "
            "differences of consecutive labels leave the signed range of the dtype.  Growing a square matrix must "
            "put the fill value into the cross blocks ONLY (fill-count balance).  Non-trivial = a history "
            "with >= 2 executed steps of which at least one permutes or edits an axis of length >= 2")
    TRUSTED = ["numpy.take/delete/insert/append/concatenate/lexsort/unique as modelled in Model/LabelMat.lean, "
               "LabelMatN.lean, LabelMatX.lean (index normalisers, slices, the scalar-position moveaxis/broadcast rule, the "
               "mask and unsorted-list forms of numpy.insert are differentially tested against numpy on every run: kind `np`)",
               "numpy.result_type and the two's-complement cast of the eight integer dtypes as modelled in "
               "Model/LabelDtype.lean (promote / wrap; numpy.append and numpy.insert on 1-D integer arrays of every dtype "
               "pair, boundary values included, are differentially tested against it on every run: kind `np`, fns "
               "dt_append / dt_store); the float dtypes (float16 / float32 / float64 rounding) are not modelled",
               "copy.deepcopy returns an object graph that shares no mutable state with its argument (used only to run "
               "the counterpart forms — mutating vs non-mutating, generic vs specific — on an identical receiver; the "
               "history itself runs on the real objects, never on copies)",
               "Std.HashSet membership = list membership (the driver evaluates the attachment Spec through a hash set)",
               "the order-preserving injective rendering of label codes into names / floats / booleans "
               "(harness render_col / decode_col)",
               "numpy int8 summation over the phase axis as the reference for the unphased genotyping outputs",
               "`x is y` / numpy.shares_memory as the observation of which ndarray objects two matrix objects share "
               "(compared with the address tables of the heap model, Model/LabelHeap.lean: implementation sharing must be "
               "a subset of model sharing)"]
    ASSUMPTIONS = ["operands share the receiver's presence pattern of optional label columns, except that names (taxa, "
                   "vrnt_name) may be omitted for a receiver that has them: the `None` padding is modelled "
                   "(`padOperand`); after such a padding the generator does not sort taxa on their names "
                   "(None and str do not compare)",
                   "no axis is emptied completely (shapes go down to a single row / column, as in the quantifier)",
                   "numpy.insert with a boolean mask is driven with ndarray masks of length n or n + 1 (a Python list of "
                   "booleans is rejected by numpy itself); numpy.take with boolean `indices` (cast to 0 / 1) is not "
                   "treated as a valid selection",
                   "DenseBreedingValueMatrix / DenseGenomicEstimatedBreedingValueMatrix are driven through their raw "
                   "values (unscale(), rounded to the integer codes) and only with the taxa operations that keep raw "
                   "values (in-place append / incorp and concat are C15 findings D23 / D24); DenseCoancestryMatrix is "
                   "abstract and is exercised through DenseMolecularCoancestryMatrix and DenseVanRadenCoancestryMatrix",
                   "phase-axis operations (*_phase) are outside the property (the phase axis carries no labels)",
                   "single-axis insert / incorp / concat of the square classes (known defect D14) are driven with "
                   "row-shaped operands; the model is exact for those only (the repaired block-shaped form of "
                   "patch_D14.diff is validated by tools outside the check)",
                   "an object that a step did not operate on and whose public state nevertheless changed is judged by the "
                   "attachment / consistency / partition Spec against its own earlier state (spec) and by exact equality "
                   "(corr); the receiver and the operand objects of a non-mutating operation by exact equality (spec), as "
                   "the property states",
                   "progeny covariance matrices (square taxa AND square trait axes, DenseSquareTaxaSquareTraitMatrix: 4-D / 5-D with two "
                   "square bundles, outside both the 3-level and the N-D model) are not exercised",
                   "dtypes: outside the dtype-profile histories every array is in the dtype the constructors document "
                   "(int8 / int64 / float64 / object / bool).  In a dtype-profile history an integer label column has ONE "
                   "dtype for the receiver and all operands (mixing, e.g. uint64 with int64, makes numpy.append return "
                   "float64 labels — not driven); a data block of a WIDER dtype than the receiver is adjoined / appended / "
                   "concatenated (numpy.append / concatenate promote, every cell is kept exactly) but is inserted / "
                   "incorporated (and, for the square classes, adjoined / appended) only in the two corpus witnesses of "
                   "finding D71: those operations keep the receiver's dtype and cast the block to it (silent rounding / "
                   "wrap-around); the generator never hands a wider block to them while the receiver is still narrow, and "
                   "the same cast applied by numpy.insert to inserted LABELS of a wider dtype is not driven.  The coancestry "
                   "classes accept int64 group arrays only and take no label profile; the square classes, the breeding-value "
                   "classes and the genotype classes (int8 by contract) take no data profile",
                   "the label-matrix model has no dtype: it works on the integer codes.  That a dtype-profile history is "
                   "in correspondence with it rests on the per-dtype renderings being injective and monotone "
                   "(harness _GRP_DT_AFFINE / _POS_DT_AFFINE, positive multipliers) and on decode(render(code)) = code.  "
                   "The meeting of two INTEGER storage dtypes is modelled separately (Model/LabelDtype.lean: "
                   "append_store_keeps_cells, store_into_keeps_cells_partial, store_into_narrows_counterexample = finding "
                   "D71, store_into_repaired_keeps_cells) and is tied to numpy by the `np` conformance cases, not to the "
                   "histories; float rounding and the label-dtype classes (unsigned / narrow signed group labels) are "
                   "Spec / correspondence only",
                   "C03_REPAIRED=1 switches to repair-validation mode (tree with patches/C03_D14.diff and C03_D14b.diff "
                   "applied): block-shaped operands for the square insert / incorp / concat, the repaired model "
                   "of Model/LabelMatRepair.lean, no known finding consulted; never set in a normal run"]


    # ------------------------------------------------------------------ cases
    def corpus(self):
        cases = self._corpus()
        if REPAIRED:
            # the witnesses of D14 / D14b hand ROW-shaped operands to the single-axis methods the repair replaces
            cases = [c for c in cases if c.get("finding") not in ("D14", "D14b", "D71")]
            # block-shaped operands for the repaired square insert / incorp / concat
            sq = {"mat": [[[0], [1], [2]], [[3], [4], [5]], [[6], [7], [8]]],
                  "taxa": {"cols": [[0, 1, 2], [1, 2, 1]], "grp": None},
                  "vrnt": empty_bundle("vrnt"), "trait": empty_bundle("trait")}
            S = lambda **kw: dict({"generic": False, "axis": 0, "alt_axis": 0}, **kw)
            cases.append({"kind": "hist", "cls": "DenseMolecularCoancestryMatrix", "init": sq,
                          "steps": [S(name="insert", kind="taxa", obj={"int": 1}, form="raw",
                                      operand={"mat": [[[100]]], "cols": [[9], [5]]}),
                                    S(name="incorp", kind="taxa", obj={"list": [0, 2]}, form="raw", on=0,
                                      operand={"mat": [[[200], [201]], [[202], [203]]], "cols": [[10, 11], [3, 3]]}),
                                    S(name="concat", kind="taxa", on=0,
                                      others=[{"mat": [[[300]]], "cols": [[12], [1]]}]),
                                    S(name="group", kind="taxa", on=0)]})
        return cases

    def _corpus(self):
        P = "DensePhasedGenotypeMatrix"
        G = "DenseGenotypeMatrix"
        full_t = [[0, 1, 2, 3], [2, 1, 2, 1]]
        v9 = lambda *cols: list(cols) + [None] * (9 - len(cols))
        pinit = {"mat": [[[0, 1, 2], [3, 4, 5], [6, 7, 8], [9, 10, 11]],
                         [[12, 13, 14], [15, 16, 17], [18, 19, 20], [21, 22, 23]]],
                 "taxa": {"cols": full_t, "grp": None},
                 "vrnt": {"cols": v9([1, 1, 2], [10, 20, 5], [0, 1, 2]), "grp": None},
                 "trait": empty_bundle("trait")}
        ginit = {"mat": [[[0], [1], [2]], [[3], [4], [5]]],
                 "taxa": {"cols": [[0, 1], [1, 1]], "grp": None},
                 "vrnt": {"cols": v9([1, 1, 2], [3, 2, 1], [0, 1, 2]), "grp": None},
                 "trait": empty_bundle("trait")}
        sq = {"mat": [[[0], [1], [2]], [[3], [4], [5]], [[6], [7], [8]]],
              "taxa": {"cols": [[0, 1, 2], [1, 2, 1]], "grp": None},
              "vrnt": empty_bundle("vrnt"), "trait": empty_bundle("trait")}
        tm = {"mat": [[[0], [1]], [[2], [3]], [[4], [5]]],
              "taxa": {"cols": [[0, 1, 2], [1, 2, 1]], "grp": None},
              "vrnt": empty_bundle("vrnt"), "trait": empty_bundle("trait")}
        opd_t2 = {"mat": [[[50, 51, 52], [53, 54, 55]], [[56, 57, 58], [59, 60, 61]]], "cols": [[50, 51], [3, 3]]}
        S = lambda **kw: dict({"generic": False, "axis": 0, "alt_axis": 0}, **kw)
        return [
            # D3 (fixed 3438b72e): group, then a reorder that breaks the contiguity of the groups
            {"kind": "hist", "cls": P, "init": pinit, "regression": "D3",
             "steps": [S(name="group", kind="taxa", axis=1, alt_axis=1),
                       S(name="reorder", kind="taxa", indices=[0, 2, 1, 3], axis=1, alt_axis=1)]},
            # D17 (fixed 74ad0b65): integer position on a non-leading axis (phased: taxa axis 1; unphased: variant axis 1)
            {"kind": "hist", "cls": P, "init": pinit, "regression": "D17",
             "steps": [S(name="insert", kind="taxa", obj={"int": 1}, operand=opd_t2, axis=1, alt_axis=-2)]},
            {"kind": "hist", "cls": G, "init": ginit, "regression": "D17",
             "steps": [S(name="incorp", kind="vrnt", obj={"int": 1}, axis=1, alt_axis=1,
                         operand={"mat": [[[50], [51]], [[60], [61]]], "cols": v9([1, 1], [7, 8], [50, 51])})]},
            # the same insertions with a one-element list position are fine
            {"kind": "hist", "cls": P, "init": pinit,
             "steps": [S(name="insert", kind="taxa", obj={"list": [1]}, operand=opd_t2, axis=1, alt_axis=-2),
                       S(name="group", kind="taxa", axis=1, alt_axis=1),
                       S(name="sort", kind="vrnt", keys=None, axis=2, alt_axis=-1),
                       S(name="group", kind="vrnt", axis=2, alt_axis=2)]},
            # D27 (fixed): DenseSquareTaxaTraitMatrix non-mutating methods dropped the other bundle's labels
            {"kind": "hist", "cls": "DenseSquareTaxaTraitMatrix", "regression": "D27",
             "init": {"mat": [[[0, 1], [2, 3]], [[4, 5], [6, 7]]], "taxa": {"cols": [[0, 1], [1, 2]], "grp": None},
                      "vrnt": empty_bundle("vrnt"), "trait": {"cols": [[5, 3]], "grp": None}},
             "steps": [S(name="select", kind="taxa", indices=[1, 0])]},
            {"kind": "hist", "cls": "DenseSquareTaxaTraitMatrix", "regression": "D27",
             "init": {"mat": [[[0, 1], [2, 3]], [[4, 5], [6, 7]]], "taxa": {"cols": [[0, 1], [2, 1]], "grp": None},
                      "vrnt": empty_bundle("vrnt"), "trait": {"cols": [[5, 3]], "grp": None}},
             "steps": [S(name="group", kind="taxa"),
                       S(name="select", kind="trait", indices=[1, 0], axis=2, alt_axis=-1),
                       S(name="adjoin", kind="taxa", form="raw", on=0, operand={"mat": [[[70, 71]]], "cols": [[9], [3]]}),
                       S(name="delete", kind="trait", obj={"int": 0}, axis=2, alt_axis=2, on=0),
                       S(name="adjoin", kind="trait", axis=2, alt_axis=2, form="raw", on=0,
                         operand={"mat": [[[80], [81]], [[82], [83]]], "cols": [[7]]}),
                       S(name="is_grouped", kind="taxa", on=1)]},
            {"kind": "hist", "cls": "DenseThreeWayDHAdditiveGeneticVarianceMatrix", "regression": "D27",
             "init": {"mat": [[[[100 * a + 10 * b + c, 500 + 100 * a + 10 * b + c] for c in range(2)] for b in range(2)]
                              for a in range(2)],
                      "taxa": {"cols": [[1, 0], [2, 1]], "grp": None}, "vrnt": empty_bundle("vrnt"),
                      "trait": {"cols": [[4, 3]], "grp": None}},
             "steps": [S(name="select", kind="taxa", indices=[1, 0, 1]),
                       S(name="delete", kind="trait", obj={"int": -1}, axis=3, alt_axis=-1, on=0),
                       S(name="sort", kind="trait", keys=None, axis=3, alt_axis=3, on=0)]},
            # masked genotyping with invert=True on a grouped matrix, asymmetric mask (metadata must follow ~mask)
            {"kind": "gt", "proto": "masked_phased", "invert": True,
             "init": dict(pinit, vrnt={"cols": [[2, 1, 1], [5, 7, 6], [0, 1, 2], None, None, None, None, None,
                                                [1, 1, 0]], "grp": None}),
             "prep": [S(name="group", kind="vrnt", axis=2, alt_axis=2)]},
            {"kind": "gt", "proto": "masked_unphased", "invert": True,
             "init": dict(pinit, vrnt={"cols": [[2, 1, 1], [5, 7, 6], [0, 1, 2], None, None, None, None, None,
                                                [1, 0, 0]], "grp": None}),
             "prep": [S(name="group", kind="vrnt", axis=2, alt_axis=2), S(name="group", kind="taxa", axis=1, alt_axis=1)]},
            # group, reorder, group again along the variant axis (the second group must sort again)
            {"kind": "hist", "cls": P, "init": pinit,
             "steps": [S(name="group", kind="vrnt", axis=2, alt_axis=-1),
                       S(name="reorder", kind="vrnt", indices=[2, 0, 1], axis=2, alt_axis=2),
                       S(name="is_grouped", kind="vrnt", axis=2, alt_axis=2),
                       S(name="group", kind="vrnt", axis=2, alt_axis=2),
                       S(name="reorder", kind="vrnt", indices=[1, 2, 0], generic=True, axis=-1, alt_axis=-1),
                       S(name="group", kind="vrnt", generic=True, axis=2, alt_axis=2)]},
            # in-place append / incorp of a raw array WITHOUT names on a phased matrix that HAS names: one None per
            # new taxon (taxa axis = 1; the block has 2 phases, 3 taxa, 3 variants — three different lengths)
            {"kind": "hist", "cls": P, "init": pinit,
             "steps": [S(name="append", kind="taxa", raw=True, axis=1, alt_axis=-2,
                         operand={"mat": [[[50, 51, 52], [53, 54, 55], [56, 57, 58]],
                                          [[60, 61, 62], [63, 64, 65], [66, 67, 68]]],
                                  "cols": [None, [3, 3, 1]]}),
                       S(name="incorp", kind="taxa", raw=True, obj={"int": 2}, axis=1, alt_axis=1,
                         operand={"mat": [[[70, 71, 72]], [[73, 74, 75]]], "cols": [None, [2]]}),
                       S(name="adjoin", kind="taxa", raw=False, axis=1, alt_axis=1,
                         operand={"mat": [[[80, 81, 82]], [[83, 84, 85]]], "cols": [None, [2]]}),
                       S(name="sort", kind="taxa", keys=[[3, 1, 2, 0, 5, 4, 6, 7, 8]], axis=1, alt_axis=1),
                       S(name="select", kind="taxa", indices=[8, 0, 4], axis=1, alt_axis=1)]},
            {"kind": "hist", "cls": G, "init": ginit,
             "steps": [S(name="incorp", kind="vrnt", raw=True, obj={"list": [1]}, axis=1, alt_axis=-1,
                         operand={"mat": [[[50], [51]], [[60], [61]]], "cols": v9([1, 1], [7, 8], None)}),
                       S(name="group", kind="vrnt", axis=1, alt_axis=1)]},
            # breeding values (raw values through unscale): select, integer insert, adjoin of a matrix, group, remove
            {"kind": "hist", "cls": "DenseBreedingValueMatrix",
             "init": {"mat": [[[1], [20]], [[3], [40]], [[5], [60]]], "taxa": {"cols": [[0, 1, 2], [2, 1, 2]], "grp": None},
                      "vrnt": empty_bundle("vrnt"), "trait": {"cols": [[7, 3]], "grp": None}},
             "steps": [S(name="select", kind="taxa", indices=[2, 0, 1]),
                       S(name="insert", kind="taxa", obj={"int": 1}, raw=True,
                         operand={"mat": [[[7], [8]]], "cols": [[9], [3]]}),
                       S(name="adjoin", kind="taxa", raw=False, generic=True, axis=-2, alt_axis=-2,
                         operand={"mat": [[[9], [10]], [[11], [12]]], "cols": [[10, 11], [1, 1]]}),
                       S(name="group", kind="taxa"),
                       S(name="remove", kind="taxa", obj={"slice": [None, 2, None]}),
                       S(name="sort", kind="taxa", keys=None),
                       S(name="delete", kind="taxa", obj={"mask": [True, False, False, False]})]},
            # D14: square classes edit one of the two taxa axes only
            {"kind": "hist", "cls": "DenseMolecularCoancestryMatrix", "init": sq, "finding": "D14",
             "steps": [S(name="incorp", kind="taxa", obj={"list": [1]},
                         operand={"mat": [[[100], [101], [102]]], "cols": [[9], [5]]}, raw=True)]},
            {"kind": "hist", "cls": "DenseSquareTaxaMatrix", "init": sq, "finding": "D14",
             "steps": [S(name="insert", kind="taxa", obj={"list": [1]},
                         operand={"mat": [[[100], [101], [102]]], "cols": [[9], [5]]}, raw=True)]},
            # D19/D28 (fixed 0d32ae5d): masked genotyping of a variant-grouped matrix that has no mask
            {"kind": "gt", "proto": "masked_phased", "invert": False, "regression": "D19",
             "init": dict(pinit, vrnt={"cols": v9([2, 1, 1], [5, 7, 6]), "grp": None}),
             "prep": [S(name="group", kind="vrnt", axis=2, alt_axis=2)]},
            # masked genotyping that removes one whole chromosome and part of another
            {"kind": "gt", "proto": "masked_phased", "invert": False,
             "init": dict(pinit, vrnt={"cols": [[2, 1, 1], [5, 7, 6], [0, 1, 2], None, None, None, None, None,
                                                [0, 1, 0]], "grp": None}),
             "prep": [S(name="group", kind="vrnt", axis=2, alt_axis=2), S(name="group", kind="taxa", axis=1, alt_axis=1)]},
            {"kind": "gt", "proto": "masked_unphased", "invert": True,
             "init": dict(pinit, vrnt={"cols": [[2, 1, 1], [5, 7, 6], [0, 1, 2], None, None, None, None, None,
                                                [0, 1, 0]], "grp": None}),
             "prep": [S(name="group", kind="vrnt", axis=2, alt_axis=2)]},
            {"kind": "gt", "proto": "unphased", "invert": False, "init": pinit,
             "prep": [S(name="group", kind="vrnt", axis=2, alt_axis=2), S(name="group", kind="taxa", axis=1, alt_axis=1)]},
            # D4 (fixed ec46686b): generic reorder / incorp of a base class
            {"kind": "hist", "cls": "DenseTaxaMatrix", "init": tm, "regression": "D4",
             "steps": [S(name="reorder", kind="taxa", indices=[2, 1, 0], generic=True)]},
            {"kind": "hist", "cls": "DenseTaxaMatrix", "init": tm, "regression": "D4",
             "steps": [S(name="incorp", kind="taxa", obj={"list": [1]}, generic=True,
                         operand={"mat": [[[9], [9]]], "cols": [[7], [5]]}, raw=True)]},
            # boundary: single taxon / single variant, everything absent but one key
            {"kind": "hist", "cls": G,
             "init": {"mat": [[[5]]], "taxa": {"cols": [None, [7]], "grp": None},
                      "vrnt": {"cols": v9(None, [3]), "grp": None}, "trait": empty_bundle("trait")},
             "steps": [S(name="group", kind="taxa"), S(name="group", kind="vrnt", axis=1, alt_axis=-1),
                       S(name="select", kind="taxa", indices=[0, 0, -1]),
                       S(name="delete", kind="taxa", obj={"slice": [None, None, 2]})]},
            # group metadata must be dropped by every later layout change of the same axis
            {"kind": "hist", "cls": P, "init": pinit,
             "steps": [S(name="group", kind="taxa", axis=1, alt_axis=1),
                       S(name="append", kind="taxa", operand=opd_t2, axis=1, alt_axis=-2),
                       S(name="group", kind="taxa", axis=1, alt_axis=1),
                       S(name="remove", kind="taxa", obj={"int": -1}, axis=1, alt_axis=1),
                       S(name="group", kind="vrnt", axis=2, alt_axis=2),
                       S(name="sort", kind="vrnt", keys=[[2, 1, 0]], axis=2, alt_axis=-1),
                       S(name="group", kind="vrnt", axis=2, alt_axis=2),
                       S(name="incorp", kind="vrnt", obj={"list": [0]}, axis=2, alt_axis=2,
                         operand={"mat": [[[90], [91], [92], [93], [94]], [[95], [96], [97], [98], [99]]],
                                  "cols": v9([1], [1], [77])}),
                       S(name="group", kind="vrnt", axis=2, alt_axis=2),
                       S(name="ungroup", kind="vrnt", axis=2, alt_axis=2),
                       S(name="is_grouped", kind="vrnt", axis=2, alt_axis=2)]},
            # ---- several live objects: the result of a non-mutating operation along one axis shares the label
            #      arrays of the OTHER axis with its operand; sorting / grouping / reordering either of them in
            #      place must not reach the other one (every object stays alive and is re-verified after each step)
            {"kind": "hist", "cls": "DenseTaxaVariantMatrix",
             "init": {"mat": [[[0], [1], [2]], [[3], [4], [5]], [[6], [7], [8]], [[9], [10], [11]]],
                      "taxa": {"cols": full_t, "grp": None},
                      "vrnt": {"cols": v9([2, 1, 2], [7, 5, 3], [0, 1, 2]), "grp": None}, "trait": empty_bundle("trait")},
             "steps": [S(name="select", kind="vrnt", indices=[2, 0], axis=1, alt_axis=-1, on=0),
                       S(name="sort", kind="taxa", keys=[[3, 2, 1, 0]], on=1),
                       S(name="group", kind="taxa", on=0),
                       S(name="delete", kind="taxa", obj={"int": 0}, on=0),
                       S(name="reorder", kind="vrnt", indices=[2, 1, 0], axis=1, alt_axis=1, on=0),
                       S(name="group", kind="vrnt", axis=1, alt_axis=1, on=2),
                       S(name="is_grouped", kind="taxa", on=1)]},
            {"kind": "hist", "cls": P, "init": pinit,
             "steps": [S(name="delete", kind="vrnt", obj={"int": 1}, axis=2, alt_axis=-1, on=0),
                       S(name="reorder", kind="taxa", indices=[3, 2, 1, 0], axis=1, alt_axis=1, on=1),
                       S(name="adjoin", kind="vrnt", axis=2, alt_axis=2, on=0, form="obj",
                         operand={"mat": [[[90], [91], [92], [93]], [[95], [96], [97], [98]]],
                                  "cols": v9([1], [1], [77])}),
                       S(name="group", kind="taxa", axis=1, alt_axis=-2, on=2),
                       S(name="sort", kind="taxa", keys=[[1, 0, 3, 2]], axis=1, alt_axis=1, on=0)]},
            {"kind": "hist", "cls": "DenseTaxaTraitMatrix",
             "init": {"mat": [[[0], [1]], [[2], [3]], [[4], [5]]], "taxa": {"cols": [[2, 0, 1], [2, 1, 2]], "grp": None},
                      "vrnt": empty_bundle("vrnt"), "trait": {"cols": [[5, 3]], "grp": None}},
             "steps": [S(name="adjoin", kind="trait", axis=1, alt_axis=-1, on=0, form="raw",
                         operand={"mat": [[[10]], [[11]], [[12]]], "cols": [[9]]}),
                       S(name="group", kind="taxa", on=1),
                       S(name="select", kind="trait", indices=[1, 0], axis=1, alt_axis=1, on=0),
                       S(name="sort", kind="taxa", keys=None, on=0),
                       S(name="sort", kind="trait", keys=None, axis=1, alt_axis=1, on=2)]},
            # ---- operand passed as a matrix object that has its own labels WHILE the call also names labels: the
            #      keyword wins, in the mutating form exactly as in the non-mutating one
            {"kind": "hist", "cls": "DenseTaxaTraitMatrix",
             "init": {"mat": [[[0], [1]], [[2], [3]]], "taxa": {"cols": [[0, 1], [1, 1]], "grp": None},
                      "vrnt": empty_bundle("vrnt"), "trait": {"cols": [[5, 3]], "grp": None}},
             "steps": [S(name="incorp", kind="trait", obj={"int": 1}, axis=1, alt_axis=-1, form="obj_kw", override=["other"],
                         operand={"mat": [[[10], [11]], [[12], [13]]], "cols": [[8, 9]]}),
                       S(name="insert", kind="trait", obj={"list": [0]}, axis=1, alt_axis=1, form="obj_kw", override=["other"],
                         operand={"mat": [[[20]], [[21]]], "cols": [[7]]}),
                       S(name="append", kind="taxa", form="obj_kw", override=["other", None],
                         operand={"mat": [[[30], [31], [32], [33], [34]]], "cols": [[6], [2]]}),
                       S(name="adjoin", kind="taxa", form="obj_kw", override=["none", "other"],
                         operand={"mat": [[[40], [41], [42], [43], [44]]], "cols": [[7], [3]]})]},
            {"kind": "hist", "cls": G, "init": ginit,
             "steps": [S(name="incorp", kind="vrnt", obj={"list": [1]}, axis=1, alt_axis=-1, form="obj_kw",
                         override=["other", None, "other", None, None, None, None, None, None],
                         operand={"mat": [[[50], [51]], [[60], [61]]], "cols": v9([1, 1], [7, 8], [50, 51])}),
                       S(name="append", kind="vrnt", axis=1, alt_axis=1, generic=True, form="obj_kw",
                         override=[None, "other", "none", None, None, None, None, None, None],
                         operand={"mat": [[[70]], [[71]]], "cols": v9([2], [9], [52])})]},
            # ---- more than two square taxa axes (three-way / four-way variance matrices): every taxa axis follows
            #      the one taxa bundle
            {"kind": "hist", "cls": "DenseThreeWayDHAdditiveGeneticVarianceMatrix",
             "init": {"mat": [[[[100 * a + 10 * b + c] for c in range(3)] for b in range(3)] for a in range(3)],
                      "taxa": {"cols": [[2, 0, 1], [2, 1, 2]], "grp": None}, "vrnt": empty_bundle("vrnt"),
                      "trait": {"cols": [None], "grp": None}},
             "steps": [S(name="reorder", kind="taxa", indices=[2, 0, 1]),
                       S(name="sort", kind="taxa", keys=None, generic=True, axis=-2, alt_axis=-2),
                       S(name="select", kind="taxa", indices=[2, 0], generic=True, axis=1, alt_axis=1),
                       S(name="group", kind="taxa", axis=2, alt_axis=2),
                       S(name="append", kind="taxa", form="raw", operand={"mat": [[[[900]]]], "cols": [[9], [1]]}),
                       S(name="remove", kind="taxa", obj={"int": 0}),
                       S(name="delete", kind="taxa", obj={"list": [-1]})]},
            {"kind": "hist", "cls": "DenseFourWayDHAdditiveGenicVarianceMatrix",
             "init": {"mat": [[[[[1000 * a + 100 * b + 10 * c + e, 5000 + 1000 * a + 100 * b + 10 * c + e]
                                 for e in range(2)] for c in range(2)] for b in range(2)] for a in range(2)],
                      "taxa": {"cols": [[1, 0], [2, 1]], "grp": None}, "vrnt": empty_bundle("vrnt"),
                      "trait": {"cols": [[4, 3]], "grp": None}},
             "steps": [S(name="reorder", kind="taxa", indices=[1, 0], generic=True, axis=3, alt_axis=3),
                       S(name="group", kind="taxa"),
                       S(name="sort", kind="trait", keys=None, axis=4, alt_axis=-1),
                       S(name="reorder", kind="trait", indices=[1, 0], axis=4, alt_axis=4),
                       S(name="sort", kind="taxa", keys=[[1, 0]], axis=2, alt_axis=-3)]},
            {"kind": "hist", "cls": "DenseFourWayDHAdditiveGenicVarianceMatrix",
             "init": {"mat": [[[[[1000 * a + 100 * b + 10 * c + e, 5000 + 1000 * a + 100 * b + 10 * c + e]
                                 for e in range(2)] for c in range(2)] for b in range(2)] for a in range(2)],
                      "taxa": {"cols": [None, None], "grp": None}, "vrnt": empty_bundle("vrnt"),
                      "trait": {"cols": [[4, 3]], "grp": None}},
             "steps": [S(name="remove", kind="trait", obj={"int": 0}, axis=4, alt_axis=4),
                       S(name="incorp", kind="trait", obj={"int": 0}, axis=4, alt_axis=4, form="raw",
                         operand={"mat": [[[[[70 + 8 * a + 4 * b + 2 * c + e] for e in range(2)] for c in range(2)]
                                           for b in range(2)] for a in range(2)], "cols": [[9]]}),
                       S(name="select", kind="trait", indices=[1, 0, 1], axis=4, alt_axis=-1),
                       S(name="reorder", kind="taxa", indices=[1, 0]),
                       S(name="adjoin", kind="trait", axis=4, alt_axis=4, form="obj",
                         operand={"mat": [[[[[170 + 8 * a + 4 * b + 2 * c + e] for e in range(2)] for c in range(2)]
                                           for b in range(2)] for a in range(2)], "cols": [[11]]})]},
            # ---- numpy.insert positions as an UNSORTED list and as a boolean ndarray (values follow their positions);
            #      non-contiguous input arrays
            {"kind": "hist", "cls": P, "init": pinit, "layout": "strided",
             "steps": [S(name="insert", kind="taxa", obj={"list": [3, 1]}, operand=opd_t2, axis=1, alt_axis=-2, form="raw"),
                       S(name="incorp", kind="taxa", obj={"mask": [False, True, False, False, True, False, False]}, axis=1,
                         alt_axis=1, form="obj",
                         operand={"mat": [[[70, 71, 72], [73, 74, 75]], [[76, 77, 78], [79, 80, 81]]],
                                  "cols": [[60, 61], [1, 2]]}),
                       S(name="incorp", kind="vrnt", obj={"list": [-1, 0, 2]}, axis=2, alt_axis=-1, form="raw",
                         operand={"mat": [[[100 + 3 * t + j for j in range(3)] for t in range(8)],
                                          [[-120 + 3 * t + j for j in range(3)] for t in range(8)]],
                                  "cols": v9([2, 1, 1], [9, 8, 7], [40, 41, 42])}),
                       S(name="group", kind="vrnt", axis=2, alt_axis=2),
                       S(name="group", kind="taxa", axis=1, alt_axis=1),
                       S(name="select", kind="vrnt", indices=[2, 0, -2], axis=2, alt_axis=2, on=0),
                       S(name="delete", kind="taxa", obj={"int": 1}, axis=1, alt_axis=1, on=0)]},
            # ---- Fortran-ordered data, an axis longer than 256 entries, int32 / tuple index arguments
            {"kind": "hist", "cls": "DenseTaxaVariantMatrix", "layout": "F", "big": True,
             "init": {"mat": [[[3 * i], [3 * i + 1]] for i in range(300)],
                      "taxa": {"cols": [[(7 * i) % 300 for i in range(300)], [1 + (i % 3) for i in range(300)]], "grp": None},
                      "vrnt": {"cols": v9([2, 1], [5, 5], [0, 1]), "grp": None}, "trait": empty_bundle("trait")},
             "steps": [S(name="group", kind="taxa"),
                       S(name="select", kind="taxa", indices=[299, 128, 255, 256, 0, -1, 130], as_array="int32"),
                       S(name="select", kind="taxa", indices=[200, 131, 290], as_array="tuple", on=0),
                       S(name="remove", kind="taxa", obj={"slice": [None, 200, None]}, on=0),
                       S(name="sort", kind="taxa", keys=None, on=0),
                       S(name="is_grouped", kind="taxa", on=0)]},
            # ---- an axis longer than 1024 entries (chunk-size constants), unlabelled second axis of length 2
            {"kind": "hist", "cls": "DenseVariantMatrix", "big": True,
             "init": {"mat": [[[i]] for i in range(1030)],
                      "taxa": empty_bundle("taxa"),
                      "vrnt": {"cols": v9([1 + (i * 7) % 3 for i in range(1030)], [(i * 13) % 50 for i in range(1030)]),
                               "grp": None},
                      "trait": empty_bundle("trait")},
             "steps": [S(name="reorder", kind="vrnt", indices=list(range(1029, -1, -1))),
                       S(name="select", kind="vrnt", indices=[1029, 1023, 1024, 1025, 0, -1, 512, 2], as_array="int16"),
                       S(name="remove", kind="vrnt", obj={"npint": 1024, "dtype": "int32"}, on=0),
                       S(name="group", kind="vrnt", on=0)]},
            # ---- the single-bundle base classes with an UNLABELLED second axis of length 2 / 3 (square shapes on purpose)
            {"kind": "hist", "cls": "DenseTraitMatrix",
             "init": {"mat": [[[0], [1]], [[2], [3]]], "taxa": empty_bundle("taxa"), "vrnt": empty_bundle("vrnt"),
                      "trait": {"cols": [[1, 0]], "grp": None}},
             "steps": [S(name="reorder", kind="trait", indices=[1, 0]),
                       S(name="select", kind="trait", indices=[1, 1, 0], on=0),
                       S(name="sort", kind="trait", keys=None, generic=True, axis=-2, alt_axis=-2, on=0),
                       S(name="incorp", kind="trait", obj={"npint": 1, "dtype": "int32"}, form="raw", on=0,
                         operand={"mat": [[[10], [11]]], "cols": [[7]]}),
                       S(name="remove", kind="trait", obj={"boollist": [True, False, False]}, on=0)]},
            {"kind": "hist", "cls": "DenseTaxaMatrix",
             "init": {"mat": [[[0], [1], [2]], [[3], [4], [5]], [[6], [7], [8]]],
                      "taxa": {"cols": [[2, 0, 1], [2, 1, 2]], "grp": None}, "vrnt": empty_bundle("vrnt"),
                      "trait": empty_bundle("trait")},
             "steps": [S(name="group", kind="taxa"),
                       S(name="delete", kind="taxa", obj={"npint": -1, "dtype": "int64"}),
                       S(name="reorder", kind="taxa", indices=[2, 0, 1], on=0),
                       S(name="adjoin", kind="taxa", form="obj", on=0,
                         operand={"mat": [[[20], [21], [22]]], "cols": [[9], [1]]}),
                       S(name="sort", kind="taxa", keys=[[1, 0, 1], [0, 1, 1]], keys_form="ndarray2d", on=0)]},
            {"kind": "hist", "cls": "DenseVariantMatrix",
             "init": {"mat": [[[0], [1], [2]], [[3], [4], [5]], [[6], [7], [8]]], "taxa": empty_bundle("taxa"),
                      "vrnt": {"cols": v9([2, 1, 2], [7, 5, 3], [0, 1, 2], [9, 8, 7], [3, 2, 1]), "grp": None},
                      "trait": empty_bundle("trait")},
             "steps": [S(name="group", kind="vrnt"),
                       S(name="select", kind="vrnt", indices=[2, 0], as_array="uint8"),
                       S(name="insert", kind="vrnt", obj={"list": [1]}, form="raw", on=0,
                         operand={"mat": [[[30], [31], [32]]], "cols": v9([1], [4], [50], [6], [5])}),
                       S(name="remove", kind="vrnt", obj={"slice": [None, None, 2]}, on=0)]},
            # ---- square TRAIT bundle (DenseSquareTraitMatrix: own copy of the square mechanism)
            {"kind": "hist", "cls": "DenseSquareTraitMatrix",
             "init": {"mat": [[[0], [1], [2]], [[3], [4], [5]], [[6], [7], [8]]], "taxa": empty_bundle("taxa"),
                      "vrnt": empty_bundle("vrnt"), "trait": {"cols": [[2, 0, 1]], "grp": None}},
             "steps": [S(name="select", kind="trait", indices=[2, 0]),
                       S(name="sort", kind="trait", keys=None, on=0),
                       S(name="adjoin", kind="trait", form="raw", operand={"mat": [[[70]]], "cols": [[9]]}, on=0),
                       S(name="remove", kind="trait", obj={"int": 0}, generic=True, axis=-1, alt_axis=-1, on=0),
                       S(name="reorder", kind="trait", indices=[1, 0], generic=True, axis=1, alt_axis=1, on=0)]},
            # D17b (fixed): a 0-d ndarray position on a non-leading axis was not wrapped (fix 74ad0b65 tested int / numpy.integer only)
            {"kind": "hist", "cls": P, "init": pinit, "regression": "D17b",
             "steps": [S(name="insert", kind="taxa", obj={"int0d": 1}, operand=opd_t2, axis=1, alt_axis=-2, form="raw")]},
            {"kind": "hist", "cls": G, "init": ginit, "regression": "D17b",
             "steps": [S(name="incorp", kind="vrnt", obj={"int0d": 1}, axis=1, alt_axis=-1, form="raw",
                         operand={"mat": [[[50], [51]], [[60], [61]]], "cols": v9([1, 1], [7, 8], [50, 51])})]},
            # ... on the leading axis the scalar rule is the block insert: fine
            {"kind": "hist", "cls": G, "init": ginit,
             "steps": [S(name="insert", kind="taxa", obj={"int0d": 1}, form="raw",
                         operand={"mat": [[[50], [51], [52]], [[53], [54], [55]]], "cols": [[50, 51], [3, 3]]}),
                       S(name="incorp", kind="taxa", obj={"int0d": -1}, form="raw", on=0,
                         operand={"mat": [[[60], [61], [62]]], "cols": [[60], [2]]})]},
            # D14b: the square trait class edits one of its two trait axes only
            {"kind": "hist", "cls": "DenseSquareTraitMatrix", "finding": "D14b",
             "init": {"mat": [[[0], [1], [2]], [[3], [4], [5]], [[6], [7], [8]]], "taxa": empty_bundle("taxa"),
                      "vrnt": empty_bundle("vrnt"), "trait": {"cols": [[2, 0, 1]], "grp": None}},
             "steps": [S(name="incorp", kind="trait", obj={"list": [1]}, form="raw",
                         operand={"mat": [[[100], [101], [102]]], "cols": [[9]]})]},
            # ---- genotyping hands the input's label arrays (without a mask: the data too) to the output
            {"kind": "gt", "proto": "masked_phased", "invert": False,
             "init": dict(pinit, vrnt={"cols": v9([2, 1, 1], [5, 7, 6]), "grp": None}), "prep": [],
             "after": [S(target="out", name="reorder", kind="taxa"), S(target="in", name="sort", kind="vrnt", keys=None),
                       S(target="out", name="group", kind="vrnt")]},
            {"kind": "gt", "proto": "unphased", "invert": False, "init": pinit,
             "prep": [S(name="group", kind="vrnt", axis=2, alt_axis=2)],
             "after": [S(target="out", name="sort", kind="taxa", keys=None), S(target="in", name="reorder", kind="vrnt")]},
            # ---- round 5: arrays that are NOT in the default dtypes.
            #  (a) receiver stored as float32 / int16 / int32, blocks adjoined / appended / concatenated as float64 /
            #      int64 whose values (ODD codes) are not representable in the narrow type: numpy.append promotes
            {"kind": "hist", "cls": "DenseTaxaTraitMatrix", "dt": {"mat": {"narrow": "float32", "wide": "float64"}},
             "init": {"mat": [[[0], [2]], [[4], [6]], [[8], [10]]], "taxa": {"cols": [[2, 0, 1], [2, 1, 2]], "grp": None},
                      "vrnt": empty_bundle("vrnt"), "trait": {"cols": [[5, 3]], "grp": None}},
             "steps": [S(name="adjoin", kind="trait", axis=1, alt_axis=-1, on=0, form="raw",
                         operand={"mat": [[[11]], [[13]], [[15]]], "cols": [[9]]}),
                       S(name="append", kind="trait", axis=1, alt_axis=1, on=0, form="obj",
                         operand={"mat": [[[21], [23]], [[25], [27]], [[29], [31]]], "cols": [[7, 8]]}),
                       S(name="adjoin", kind="taxa", on=1, form="raw",
                         operand={"mat": [[[41], [43], [45]]], "cols": [[9], [1]]}),
                       S(name="group", kind="taxa", on=0),
                       S(name="concat", kind="taxa", on=0,
                         others=[{"mat": [[[51], [53], [55], [57]]], "cols": [[10], [3]]}]),
                       S(name="insert", kind="trait", obj={"list": [1]}, axis=1, alt_axis=1, on=0, form="raw",
                         operand={"mat": [[[61]], [[63]], [[65]]], "cols": [[11]]})]},
            {"kind": "hist", "cls": "DenseTraitMatrix", "dt": {"mat": {"narrow": "int16", "wide": "int64"}},
             "init": {"mat": [[[0], [2]], [[4], [6]]], "taxa": empty_bundle("taxa"), "vrnt": empty_bundle("vrnt"),
                      "trait": {"cols": [[1, 0]], "grp": None}},
             "steps": [S(name="adjoin", kind="trait", form="obj", on=0, operand={"mat": [[[11], [13]]], "cols": [[7]]}),
                       S(name="append", kind="trait", form="raw", on=0, generic=True,
                         operand={"mat": [[[21], [23]], [[25], [27]]], "cols": [[8, 9]]}),
                       S(name="sort", kind="trait", keys=None, on=0)]},
            {"kind": "hist", "cls": "DenseTaxaVariantMatrix", "dt": {"mat": {"narrow": "int32", "wide": "int64"}},
             "init": {"mat": [[[0], [2], [4]], [[6], [8], [10]]], "taxa": {"cols": [[1, 0], [2, 1]], "grp": None},
                      "vrnt": {"cols": v9([2, 1, 2], [7, 5, 3], [0, 1, 2]), "grp": None}, "trait": empty_bundle("trait")},
             "steps": [S(name="adjoin", kind="vrnt", axis=1, alt_axis=-1, form="raw", on=0,
                         operand={"mat": [[[11]], [[13]]], "cols": v9([1], [4], [50])}),
                       S(name="append", kind="taxa", form="obj", on=0,
                         operand={"mat": [[[21], [23], [25]]], "cols": [[5], [1]]}),
                       S(name="group", kind="vrnt", axis=1, alt_axis=1, on=0)]},
            {"kind": "hist", "cls": "DenseTaxaMatrix", "dt": {"mat": {"narrow": "int16", "wide": "float64"}},
             "init": {"mat": [[[0], [2]], [[4], [6]], [[8], [10]]], "taxa": {"cols": [[0, 1, 2], [1, 2, 1]], "grp": None},
                      "vrnt": empty_bundle("vrnt"), "trait": empty_bundle("trait")},
             "steps": [S(name="adjoin", kind="taxa", form="raw", on=0, operand={"mat": [[[11], [13]]], "cols": [[7], [3]]}),
                       S(name="append", kind="taxa", form="obj", on=0, operand={"mat": [[[21], [23]]], "cols": [[8], [1]]})]},
            #  D71: the operations that KEEP the receiver's storage dtype narrow a wider block (rounding / wrap-around):
            #  numpy.insert in insert_* / incorp_* of every class, the pre-allocated result of the square adjoin / append
            {"kind": "hist", "cls": "DenseSquareTaxaMatrix", "finding": "D71",
             "dt": {"mat": {"narrow": "float32", "wide": "float64"}},
             "init": {"mat": [[[0], [2], [4]], [[6], [8], [10]], [[12], [14], [16]]],
                      "taxa": {"cols": [[0, 1, 2], [1, 2, 1]], "grp": None},
                      "vrnt": empty_bundle("vrnt"), "trait": empty_bundle("trait")},
             "steps": [S(name="adjoin", kind="taxa", form="raw", on=0, narrow_recv=True,
                         operand={"mat": [[[21]]], "cols": [[9], [3]]})]},
            {"kind": "hist", "cls": "DenseTaxaTraitMatrix", "finding": "D71",
             "dt": {"mat": {"narrow": "int16", "wide": "int64"}},
             "init": {"mat": [[[0], [2]], [[4], [6]], [[8], [10]]], "taxa": {"cols": [[2, 0, 1], [2, 1, 2]], "grp": None},
                      "vrnt": empty_bundle("vrnt"), "trait": {"cols": [[5, 3]], "grp": None}},
             "steps": [S(name="incorp", kind="taxa", obj={"list": [1]}, form="raw", on=0, narrow_recv=True,
                         operand={"mat": [[[21], [23]]], "cols": [[9], [3]]})]},
            #  (b) group / position labels stored as unsigned or narrow signed integers, interleaved, rendered so that
            #      differences of consecutive labels leave the signed range of the dtype
            {"kind": "hist", "cls": "DenseTaxaTraitMatrix", "dt": {"labels": {"taxa_grp": "uint8"}},
             "init": {"mat": [[[0], [1]], [[2], [3]], [[4], [5]], [[6], [7]], [[8], [9]]],
                      "taxa": {"cols": [[4, 3, 2, 1, 0], [2, 1, 2, 1, 3]], "grp": None},
                      "vrnt": empty_bundle("vrnt"), "trait": {"cols": [[5, 3]], "grp": None}},
             "steps": [S(name="group", kind="taxa", on=0),
                       S(name="append", kind="taxa", form="raw", on=0,
                         operand={"mat": [[[20], [21]], [[22], [23]]], "cols": [[6, 5], [1, 2]]}),
                       S(name="remove", kind="taxa", obj={"list": [4]}, on=0),
                       S(name="group", kind="taxa", generic=True, on=0),
                       S(name="insert", kind="taxa", obj={"list": [1]}, form="obj", on=0,
                         operand={"mat": [[[30], [31]]], "cols": [[7], [3]]})]},
            {"kind": "hist", "cls": "DenseTaxaMatrix", "dt": {"labels": {"taxa_grp": "int8"}},
             "init": {"mat": [[[0], [1]], [[2], [3]], [[4], [5]], [[6], [7]], [[8], [9]]],
                      "taxa": {"cols": [[4, 3, 2, 1, 0], [3, 1, 2, 3, 1]], "grp": None},
                      "vrnt": empty_bundle("vrnt"), "trait": empty_bundle("trait")},
             "steps": [S(name="group", kind="taxa", on=0), S(name="select", kind="taxa", indices=[4, 0, 2], on=0)]},
            {"kind": "hist", "cls": P, "dt": {"labels": {"taxa_grp": "uint64", "vrnt_chrgrp": "uint16", "vrnt_phypos": "uint8"}},
             "init": dict(pinit, taxa={"cols": [[3, 2, 1, 0], [3, 1, 3, 1]], "grp": None},
                          vrnt={"cols": v9([2, 1, 2], [1, 5, 0], [0, 1, 2]), "grp": None}),
             "steps": [S(name="group", kind="taxa", axis=1, alt_axis=-2, on=0),
                       S(name="group", kind="vrnt", axis=2, alt_axis=2, on=0),
                       S(name="delete", kind="vrnt", obj={"int": 0}, axis=2, alt_axis=-1, on=0),
                       S(name="is_grouped", kind="vrnt", axis=2, alt_axis=2, on=1)]},
            {"kind": "hist", "cls": G, "dt": {"labels": {"vrnt_chrgrp": "int16", "vrnt_phypos": "int16", "vrnt_hapgrp": "uint32"}},
             "init": dict(ginit, vrnt={"cols": v9([3, 1, 3], [5, 0, 2], [0, 1, 2], None, None, [2, 3, 1]), "grp": None}),
             "steps": [S(name="group", kind="vrnt", axis=1, alt_axis=-1, on=0),
                       S(name="reorder", kind="vrnt", indices=[1, 2, 0], axis=1, alt_axis=1, on=0),
                       S(name="sort", kind="vrnt", keys=None, axis=1, alt_axis=1, generic=True, on=0)]},
            # square classes: block-diagonal adjoin / append, both axes selected / deleted / sorted
            {"kind": "hist", "cls": "DenseMolecularCoancestryMatrix", "init": sq,
             "steps": [S(name="adjoin", kind="taxa", operand={"mat": [[[70]]], "cols": [[9], [2]]}, raw=True),
                       S(name="group", kind="taxa", axis=1, alt_axis=-1),
                       S(name="select", kind="taxa", indices=[3, 0, 1], generic=True, axis=-1),
                       S(name="remove", kind="taxa", obj={"mask": [False, True, False]})]},
        ]

    def generate(self, rng, n, tier):
        out = []
        for i in range(n):
            r = rng.random()
            if r < 0.12:
                out.append(np_case(rng))
            elif r < 0.2:
                out.append(gen_gt(rng))
            elif r < 0.215:
                out.append(gen_big(rng))
            elif r < 0.27:
                out.append(gen_alias(rng))
            elif r < 0.35:
                out.append(gen_dtype(rng))
            else:
                out.append(gen_history(rng))
        return out

    def exhaustive(self, tier):
        """thorough tier: every history of <= 3 operations from a 14-letter alphabet on a 2 x 2 unphased
        genotype matrix (operands sized for the state they meet)"""
        if tier != "thorough":
            return None
        G = "DenseGenotypeMatrix"
        v9 = lambda *cols: list(cols) + [None] * (9 - len(cols))
        init = {"mat": [[[0], [1]], [[2], [3]]], "taxa": {"cols": [[0, 1], [2, 1]], "grp": None},
                "vrnt": {"cols": v9([2, 1], [1, 1], [0, 1]), "grp": None}, "trait": empty_bundle("trait")}
        S = lambda k, **kw: dict({"generic": False, "kind": k, "axis": 0 if k == "taxa" else 1,
                                  "alt_axis": 0 if k == "taxa" else -1}, **kw)
        counter = [100]

        def block(n_t, n_v):
            out = []
            for _ in range(n_t):
                row = []
                for _ in range(n_v):
                    counter[0] += 1
                    row.append([((counter[0] + 128) % 256) - 128])
                out.append(row)
            return out

        def letters(nt, nv, uid):
            """(step, new nt, new nv) for every letter that is valid for lengths (nt, nv)"""
            out = [(S("taxa", name="select", indices=[nt - 1, 0], as_array=False), 2, nv),
                   (S("taxa", name="reorder", indices=list(range(nt))[::-1]), nt, nv),
                   (S("taxa", name="sort", keys=None, expect_error=False), nt, nv),
                   (S("taxa", name="group", expect_error=False), nt, nv),
                   (S("vrnt", name="group", expect_error=False), nt, nv),
                   (S("taxa", name="ungroup"), nt, nv),
                   (S("vrnt", name="is_grouped"), nt, nv),
                   (S("taxa", name="append", raw=False,
                      operand={"mat": block(1, nv), "cols": [[50 + uid], [1]]}), nt + 1, nv),
                   (S("vrnt", name="adjoin", raw=True,
                      operand={"mat": block(nt, 1), "cols": v9([2], [0], [60 + uid])}), nt, nv + 1),
                   (S("taxa", name="insert", raw=False, obj={"list": [1]},
                      operand={"mat": block(1, nv), "cols": [[70 + uid], [2]]}), nt + 1, nv),
                   (S("vrnt", name="incorp", raw=False, obj={"list": [0]},
                      operand={"mat": block(nt, 1), "cols": v9([1], [2], [80 + uid])}), nt, nv + 1),
                   (S("taxa", name="concat", others=[{"mat": block(1, nv), "cols": [[90 + uid], [2]]}]), nt + 1, nv)]
            if nt > 1:
                out.append((S("taxa", name="delete", obj={"int": 0}), nt - 1, nv))
            if nv > 1:
                out.append((S("vrnt", name="remove", obj={"list": [-1]}), nt, nv - 1))
            return out

        cases = []

        def rec(prefix, nt, nv, depth):
            if prefix:
                cases.append({"kind": "hist", "cls": G, "init": init, "steps": list(prefix), "_exhaustive": True})
            if depth == 3:
                return
            for st, a, b in letters(nt, nv, 10 * depth + len(prefix)):
                rec(prefix + [st], a, b, depth + 1)

        rec([], 2, 2, 0)
        return cases

    # ------------------------------------------------------------------ implementation
    def run_impl(self, case):
        if case["kind"] == "np":
            return np_impl(case)
        if case["kind"] == "gt":
            return run_gt(case)
        with profile(case.get("dt")):
            return run_history(case)

    # ------------------------------------------------------------------ model requests
    @staticmethod
    def _drv_step(step, heap=False, cname=None):
        d = {"name": step["name"], "kind": step["kind"], "generic": bool(step.get("generic")),
             "axis": step.get("axis", 0), "fill": NAN_CODE, "none_code": NONE_CODE}
        if (REPAIRED and cname is not None and is_square_k(cname, step["kind"])
                and step["name"] in ("insert", "incorp", "concat")):
            d["repaired"] = True
        for key in ("indices", "keys", "operand"):
            if key in step:
                d[key] = step[key]
        if "obj" in step:
            d["obj"] = drv_obj(step["obj"], heap)
        return d

    def requests(self, case, obs):
        if case["kind"] == "np":
            r = {"op": "c03.np", "fn": case["fn"]}
            r.update({k: case[k] for k in ("n", "slice", "l", "v", "obj", "axis", "m", "da", "db") if k in case})
            return [r]
        if case["kind"] == "gt":
            _, _, outc, masked, unphase = GT_PROTOS[case["proto"]]
            reqs = [{"op": "c03.step", "sch": schema("DensePhasedGenotypeMatrix"), "st": obs["pre"],
                     "do": {"name": "genotype", "masked": masked, "invert": bool(case["invert"]), "unphase": unphase}},
                    {"op": "c03.spec_step", "sch": schema(outc), "pre": obs["ref"], "operands": [],
                     "post": obs["post"], "fill": None}]
            for al in obs.get("alias", []):
                if "who" in al and "unreadable" not in al["after"]:
                    reqs.append({"op": "c03.spec_step", "sch": schema(al["cls"]), "pre": al["before"], "operands": [],
                                 "post": al["after"], "fill": None})
            return reqs
        cname = case["cls"]
        sch = schema(cname)
        axes = {kk: CLASSES[cname][kk] for kk in KINDS}
        nd = is_nd(cname)
        ndkw = {"r": len(CLASSES[cname]["taxa"]),
                "pure_drops_other": False}

        def step_req(pre, d):
            if nd:
                return dict({"op": "c03.nd_step", "st": pre, "do": d}, **ndkw)
            return {"op": "c03.step", "sch": sch, "st": pre, "do": d}

        def spec_req(pre, operands, post, fill):
            if nd:
                return dict({"op": "c03.nd_spec", "pre": pre, "operands": operands, "post": post, "fill": fill}, **ndkw)
            return {"op": "c03.spec_step", "sch": sch, "pre": pre, "operands": operands, "post": post, "fill": fill}

        reqs = []
        for step, rec in zip(case["steps"], obs["steps"]):
            d = self._drv_step(step, cname=cname)
            pre = rec["pre"]
            prex = dict(pre, _axes=axes)
            k = step["kind"]
            if step["name"] == "concat":
                d["others"] = [self._operand_state(pre, k, o) for o in step["others"]]
            reqs.append(step_req(pre, d))
            if "post" in rec:
                operands = []
                if "operand" in step:
                    operands = [self._operand_state(prex, k, step["operand"], pad=True)]
                if step["name"] == "concat":
                    operands = [self._operand_state(prex, k, o, pad=True) for o in step["others"]]
                # growing a square matrix leaves cross blocks that no operand supplies: the class's fill value
                fill = NAN_CODE if (is_square_k(cname, k) and step["name"] in
                                    ("adjoin", "append", "insert", "incorp", "concat")) else None
                reqs.append(spec_req(pre, operands, rec["post"], fill))
            # objects the step did not operate on, but whose public state differs from the one last verified:
            # the attachment / consistency / partition Spec of each against its own earlier state
            for ch in rec.get("changed", []):
                if isinstance(ch["after"], dict) and "unreadable" not in ch["after"]:
                    reqs.append(spec_req(ch["before"], [], ch["after"], None))
        if not nd and obs["steps"] and not REPAIRED:
            # the heap / aliasing model on the whole history: which arrays the live objects share after every step
            hs = []
            for step, rec in zip(case["steps"], obs["steps"]):
                d = self._drv_step(step, heap=True)
                d["on"] = rec["on"]
                d["skip"] = bool(rec.get("error")) or "unreadable" in rec
                if step["name"] == "concat":
                    d["others"] = [self._operand_state(rec["pre"], step["kind"], o) for o in step["others"]]
                hs.append(d)
            reqs.append({"op": "c03.heap_run", "sch": sch, "init": obs["steps"][0]["pre"] if obs["steps"][0]["on"] == 0
                         else case["init"], "steps": hs, "fill": NAN_CODE, "none_code": NONE_CODE})
        return reqs

    @staticmethod
    def _operand_state(pre, k, opd, pad=False):
        """the operand block as a state: its own labels on bundle `k`, the receiver's on the others.  With `pad`
        the name columns the call did not supply (though the receiver has them) are None for every new entry —
        what the Spec expects the result to carry for them"""
        cols = list(opd["cols"])
        if pad:
            shp = numpy.array(opd["mat"], dtype="int64").shape
            for ci in PAD_COLS[k]:
                if cols[ci] is None and pre[k]["cols"][ci] is not None:
                    cols[ci] = [NONE_CODE] * shp[pre["_axes"][k][0]]
        st = {"mat": opd["mat"]}
        for kk in KINDS:
            st[kk] = {"cols": cols, "grp": None} if kk == k else {"cols": pre[kk]["cols"], "grp": None}
        return st

    # ------------------------------------------------------------------ verdict
    def _judge_steps(self, case, obs, answers):
        """per-step verdicts: list of dict(corr, spec, why, trigger)"""
        out = []
        ai = 0
        for step, rec in zip(case["steps"], obs["steps"]):
            a_model = answers[ai]
            ai += 1
            a_spec = None
            if "post" in rec:
                a_spec = answers[ai]
                ai += 1
            a_changed = []
            for ch in rec.get("changed", []):
                if isinstance(ch["after"], dict) and "unreadable" not in ch["after"]:
                    a_changed.append(answers[ai])
                    ai += 1
                else:
                    a_changed.append(None)
            for a in [a_model, a_spec] + a_changed:
                if a is not None and "err" in a:
                    raise RuntimeError("driver error: " + a["err"])
            m = a_model["ok"]
            why = []
            # ---- correspondence
            if rec.get("unreadable"):
                corr = False
            elif rec.get("error"):
                corr = m.get("error") == rec["error"]
            elif "post" in rec:
                corr = m.get("st") == rec["post"]
            else:
                corr = ("idx" in m and m["idx"] == rec["value"]) or ("bool" in m and m["bool"] == rec["value"])
            # the model is purely functional: an operation on one object never changes another one
            if rec.get("changed"):
                corr = False
            # ---- spec on the implementation
            spec = True
            if rec.get("unreadable"):
                spec = False
                why.append("state cannot be read back: " + rec["unreadable"])
            elif rec.get("error"):
                if not step.get("expect_error"):
                    spec = False
                    why.append("raised on valid arguments: " + rec.get("error_text", rec["error"]))
            else:
                if step.get("expect_error"):
                    spec = False
                    why.append("accepted arguments that leave nothing to sort on")
                if a_spec is not None:
                    s = a_spec["ok"]
                    if not s["ok"]:
                        spec = False
                        why.append(f"consistent={s['consistent']} attached={s['attached']} "
                                   f"partition={s['partition']} {s['detail']}")
                if rec.get("self_unchanged") is False:
                    spec = False
                    why.append("non-mutating operation changed its receiver")
                if rec.get("operand_unchanged") is False:
                    spec = False
                    why.append("operand changed")
                if "pure_counterpart" in rec and rec["pure_counterpart"] != rec.get("post"):
                    spec = False
                    why.append("mutating operation differs from its non-mutating counterpart: "
                               + str(rec["pure_counterpart"])[:160])
            # every other live object: its rows / columns must still carry the labels and cells they had
            for ch, a in zip(rec.get("changed", []), a_changed):
                if a is None:
                    spec = False
                    why.append(f"object {ch['id']} (not operated on) cannot be read back any more: "
                               + str(ch["after"])[:120])
                elif not a["ok"]["ok"]:
                    sa = a["ok"]
                    spec = False
                    why.append(f"object {ch['id']}, which this step did not operate on, no longer carries its own "
                               f"labels / cells: consistent={sa['consistent']} attached={sa['attached']} "
                               f"partition={sa['partition']} {sa['detail']}")
            other = rec.get("other_form")
            if other is not None and not rec.get("unreadable"):
                if rec.get("error"):
                    same = isinstance(other, dict) and other.get("error") == rec["error"]
                else:
                    mine = rec.get("post") if "post" in rec else {"value": rec.get("value")}
                    same = other == mine
                if not same:
                    spec = False
                    why.append("generic and specific forms differ: " + str(other)[:160])
            out.append({"corr": corr, "spec": spec, "why": "; ".join(why),
                        "trigger": _trigger(case["cls"], step, rec["pre"]),
                        "model": m if not corr else None,
                        "changed": [c["id"] for c in rec.get("changed", [])]})
            if not spec:
                break
        return out

    @staticmethod
    def _model_shares(table):
        """the sharing relation of one address table of the heap model, in the harness's field names"""
        def fields(o):
            out = {"mat": o["mat"]}
            for k in KINDS:
                for name, a in zip(COLS[k], o[k]["cols"]):
                    out[name] = a
                if k in GRP_ATTR and o[k]["grp"] is not None:
                    for sfx, a in zip(("_name", "_stix", "_spix", "_len"), o[k]["grp"]):
                        out[GRP_ATTR[k] + sfx] = a
            return out
        fs = [fields(o) for o in table]
        rel = set()
        for a in range(len(fs)):
            for b in range(a + 1, len(fs)):
                for f, x in fs[a].items():
                    if x is not None and fs[b].get(f) == x:
                        rel.add((a, b, f))
        return rel

    def _heap_verdict(self, case, obs, answer):
        """every pair of arrays the implementation shares between two live objects must be shared in the heap model
        too (the model may share more: a defensive copy in the code is fine)"""
        tables = answer["ok"]["tables"]
        for i, (rec, tab) in enumerate(zip(obs["steps"], tables)):
            if "shares" not in rec:
                continue
            model = self._model_shares(tab)
            extra = [tuple(x) for x in rec["shares"] if tuple(x) not in model]
            if extra:
                return False, (f"step {i} ({case['steps'][i]['name']}_{case['steps'][i]['kind']}): the implementation's objects "
                               f"share arrays the heap model allocates separately: {extra[:4]}")
        return True, ""

    def judge(self, case, obs, answers):
        for a in answers:
            if "err" in a:
                raise RuntimeError("driver error: " + a["err"])
        if case["kind"] == "np":
            m = answers[0]["ok"]
            corr = (m == obs)
            return {"corr": corr, "spec": True, "nontrivial": False,
                    "detail": f"np.{case['fn']} model={m} numpy={obs}"}
        if case["kind"] == "gt":
            m, sp = answers[0]["ok"], answers[1]["ok"]
            corr = m.get("st") == obs["post"]
            spec = bool(sp["ok"]) and obs["input_unchanged"]
            alias_detail = ""
            ai = 2
            for al in obs.get("alias", []):
                if "error" in al:
                    spec = False
                    alias_detail += f" | {al['step']['name']}_{al['step']['kind']} on the {al['step']['target']}put raised: {al['error']}"
                    continue
                corr = False          # the model is functional: the two objects are independent
                if "unreadable" in al["after"]:
                    spec = False
                    alias_detail += f" | the {al['who']}put matrix cannot be read back after {al['step']['name']} on the other one"
                    continue
                sa = answers[ai]["ok"]
                ai += 1
                if not sa["ok"]:
                    spec = False
                    alias_detail += (f" | {al['step']['name']}_{al['step']['kind']} on the {al['step']['target']}put matrix "
                                     f"changed the {al['who']}put matrix, which no longer carries its own labels / cells: "
                                     f"consistent={sa['consistent']} attached={sa['attached']} partition={sa['partition']} "
                                     f"{sa['detail']}")
            dropped = len(obs["pre"]["vrnt"]["cols"][1] or []) != len(obs["post"]["vrnt"]["cols"][1] or [])
            return {"corr": corr, "spec": spec, "nontrivial": dropped and obs["pre"]["vrnt"]["grp"] is not None,
                    "detail": (f"genotype[{case['proto']} invert={case['invert']}] consistent={sp['consistent']} "
                               f"attached={sp['attached']} partition={sp['partition']} {sp['detail']} "
                               f"input_unchanged={obs['input_unchanged']}" + alias_detail
                               + ("" if corr else f" model={str(m)[:300]} impl={str(obs['post'])[:300]}"))}
        heap_ok, heap_detail = True, ""
        if not is_nd(case["cls"]) and obs["steps"] and not REPAIRED:
            heap_ok, heap_detail = self._heap_verdict(case, obs, answers[-1])
            answers = answers[:-1]
        sv = self._judge_steps(case, obs, answers)
        spec = True
        corr = True
        detail = []
        for i, v in enumerate(sv):
            if not v["spec"]:
                spec = False
                detail.append(f"step {i} ({case['steps'][i]['name']}_{case['steps'][i]['kind']}"
                              f"{' generic' if case['steps'][i].get('generic') else ''}): {v['why']}")
                break
            if not v["corr"]:
                corr = False
                if v.get("changed"):
                    detail.append(f"step {i} ({case['steps'][i]['name']}): objects {v['changed']} that the step did "
                                  f"not operate on changed their public state")
                else:
                    detail.append(f"step {i} ({case['steps'][i]['name']}): model {str(v['model'])[:300]} != "
                                  f"implementation {str(obs['steps'][i].get('post', obs['steps'][i].get('error')))[:300]}")
        if spec and not heap_ok:
            corr = False
            detail.append(heap_detail)
        if "created" in obs:
            spec = corr = False
            detail.insert(0, "the freshly constructed object does not carry the data / labels it was created with: "
                          + str(obs["created"])[:300])
        executed = [s for s, r in zip(case["steps"], obs["steps"]) if not r.get("error")]
        nontriv = len(executed) >= 2 and any(
            s["name"] in ("select", "delete", "remove", "reorder", "sort", "group", "insert", "incorp", "adjoin",
                          "append", "concat") for s in executed)
        return {"corr": corr, "spec": spec, "nontrivial": nontriv,
                "detail": " | ".join(detail) or "ok"}

    def signature(self, case, obs, verdict):
        sig = {"kind": case.get("kind"), "cls": case.get("cls")}
        if case.get("kind") == "gt":
            sig.update({"site": "genotyping", "cond": case.get("proto")})
            return sig
        if case.get("kind") != "hist" or not isinstance(obs, dict) or "steps" not in obs:
            return sig
        try:
            ans = verdict["answers"]
            if not is_nd(case["cls"]) and obs["steps"] and not REPAIRED:
                ans = ans[:-1]
            sv = self._judge_steps(case, obs, ans)
        except Exception:
            return sig
        for v in sv:
            if not v["spec"]:
                sig.update(v["trigger"] or {"site": "none", "cond": "none"})
                break
        return sig

    def shrink(self, case):
        """validity-preserving candidates only: drop the last step; drop a step that neither creates an object nor
        changes a length (reorder / sort / group / ungroup / lexsort / is_grouped) — every later step then still
        meets the lengths and the objects it was generated for"""
        if case.get("kind") != "hist":
            return
        steps = case["steps"]
        if len(steps) > 1:
            c = dict(case)
            c["steps"] = steps[:-1]
            yield c
        for i in range(len(steps) - 1):
            if steps[i]["name"] in ("reorder", "sort", "group", "ungroup", "lexsort", "is_grouped"):
                c = dict(case)
                c["steps"] = steps[:i] + steps[i + 1:]
                yield c
        if case.get("layout"):
            c = dict(case)
            c.pop("layout")
            yield c
        dt = case.get("dt") or {}
        for part in ("mat", "labels"):
            if dt.get(part):
                c = dict(case)
                c["dt"] = {kk: vv for kk, vv in dt.items() if kk != part}
                yield c
        for n in sorted(dt.get("labels") or {}):
            if len(dt["labels"]) > 1:
                c = dict(case)
                c["dt"] = dict(dt, labels={kk: vv for kk, vv in dt["labels"].items() if kk != n})
                yield c

    # ------------------------------------------------------------------ self-test mutants
    def mutants(self):
        compat.import_pybrops()
        from pybrops.core.mat.DenseTaxaMatrix import DenseTaxaMatrix
        from pybrops.core.mat.DenseVariantMatrix import DenseVariantMatrix
        from pybrops.core.mat.DenseTaxaVariantMatrix import DenseTaxaVariantMatrix
        prop = self

        @contextlib.contextmanager
        def patch(cls, name, new):
            old = cls.__dict__[name]
            setattr(cls, name, new)
            try:
                yield
            finally:
                setattr(cls, name, old)

        # (1) one label array left out of the parallel edit
        def reorder_vrnt_no_genpos(self, indices, **kwargs):
            keep = self._vrnt_genpos
            DenseVariantMatrix_reorder_vrnt(self, indices, **kwargs)
            if keep is not None:
                self._vrnt_genpos = keep
        DenseVariantMatrix_reorder_vrnt = DenseVariantMatrix.__dict__["reorder_vrnt"]

        def select_taxa_grp_sorted(self, indices, **kwargs):
            out = DenseTaxaMatrix_select_taxa(self, indices, **kwargs)
            if out._taxa_grp is not None:
                out._taxa_grp = numpy.take(self._taxa_grp, numpy.sort(numpy.array(indices) % max(1, self.ntaxa)), axis=0)
            return out
        DenseTaxaMatrix_select_taxa = DenseTaxaMatrix.__dict__["select_taxa"]

        def remove_taxa_keeps_names(self, obj, **kwargs):
            taxa = self._taxa
            DenseTaxaMatrix_remove_taxa(self, obj, **kwargs)
            if taxa is not None:
                self._taxa = numpy.roll(taxa, 1)[:self.ntaxa] if len(taxa) >= self.ntaxa else self._taxa
        DenseTaxaMatrix_remove_taxa = DenseTaxaMatrix.__dict__["remove_taxa"]

        # (2) unique on the unsorted array / sort that does not move the data
        def group_taxa_unsorted(self, **kwargs):
            if self._taxa_grp is not None:
                u = numpy.unique(self._taxa_grp, return_index=True, return_counts=True)
                self._taxa_grp_name, self._taxa_grp_stix, self._taxa_grp_len = u
                self._taxa_grp_spix = self._taxa_grp_stix + self._taxa_grp_len

        def lexsort_vrnt_first_key_primary(self, keys=None, **kwargs):
            if keys is None:
                keys = (self._vrnt_chrgrp, self._vrnt_phypos)
            keys = tuple(k for k in keys if k is not None)
            if len(keys) == 0 or any(len(k) != self.nvrnt for k in keys):
                raise ValueError("cannot lexsort")
            return numpy.lexsort(keys)

        # (3) group metadata survive an append
        def append_taxa_keeps_groups(self, values, taxa=None, taxa_grp=None, **kwargs):
            saved = (self._taxa_grp_name, self._taxa_grp_stix, self._taxa_grp_spix, self._taxa_grp_len)
            DenseTaxaMatrix_append_taxa(self, values, taxa=taxa, taxa_grp=taxa_grp, **kwargs)
            self._taxa_grp_name, self._taxa_grp_stix, self._taxa_grp_spix, self._taxa_grp_len = saved
        DenseTaxaMatrix_append_taxa = DenseTaxaMatrix.__dict__["append_taxa"]

        DenseVariantMatrix_sort_vrnt = DenseVariantMatrix.__dict__["sort_vrnt"]

        def sort_vrnt_keeps_groups(self, keys=None, **kwargs):
            saved = (self._vrnt_chrgrp_name, self._vrnt_chrgrp_stix, self._vrnt_chrgrp_spix, self._vrnt_chrgrp_len)
            DenseVariantMatrix_sort_vrnt(self, keys, **kwargs)
            (self._vrnt_chrgrp_name, self._vrnt_chrgrp_stix, self._vrnt_chrgrp_spix, self._vrnt_chrgrp_len) = saved

        # (4) generic dispatch goes to the wrong axis-specific method
        def tv_delete_wrong_axis(self, obj, axis=-1, **kwargs):
            from pybrops.core.util.array import get_axis
            axis = get_axis(axis, self.mat_ndim)
            if axis == self.taxa_axis:
                return self.delete_vrnt(obj=obj, **kwargs)
            elif axis == self.vrnt_axis:
                return self.delete_taxa(obj=obj, **kwargs)
            raise ValueError("cannot delete along axis {0}".format(axis))

        def tv_sort_ignores_axis(self, keys=None, axis=-1, **kwargs):
            self.sort_taxa(keys=keys, **kwargs)

        # data taken along another axis than the labels
        def select_vrnt_rolls_data(self, indices, **kwargs):
            out = DenseVariantMatrix_select_vrnt(self, indices, **kwargs)
            out._mat = numpy.roll(out._mat, 1, axis=self.vrnt_axis)
            return out
        DenseVariantMatrix_select_vrnt = DenseVariantMatrix.__dict__["select_vrnt"]

        # (5) masked genotyping: metadata not rebuilt / mask not applied to one label array
        from pybrops.breed.prot.gt.DenseMaskedPhasedGenotyping import DenseMaskedPhasedGenotyping
        from pybrops.breed.prot.gt.DenseMaskedUnphasedGenotyping import DenseMaskedUnphasedGenotyping
        masked_phased_genotype = DenseMaskedPhasedGenotyping.__dict__["genotype"]
        masked_unphased_genotype = DenseMaskedUnphasedGenotyping.__dict__["genotype"]

        def gt_stale_metadata(self, pgmat, miscout=None, **kwargs):
            out = masked_phased_genotype(self, pgmat, miscout, **kwargs)
            if pgmat.is_grouped_vrnt() and pgmat.vrnt_mask is not None:
                out.vrnt_chrgrp_stix = numpy.copy(pgmat.vrnt_chrgrp_stix)
                out.vrnt_chrgrp_spix = numpy.copy(pgmat.vrnt_chrgrp_spix)
                out.vrnt_chrgrp_len = numpy.copy(pgmat.vrnt_chrgrp_len)
            return out

        def gt_unphased_positions_unmasked(self, pgmat, miscout=None, **kwargs):
            out = masked_unphased_genotype(self, pgmat, miscout, **kwargs)
            if pgmat.vrnt_mask is not None and pgmat.vrnt_phypos is not None:
                out._vrnt_phypos = pgmat.vrnt_phypos[:out.nvrnt]
            return out

        # seeded 'breaker' changes
        def gt_invert_wrong_mask(self, pgmat, miscout=None, **kwargs):
            out = masked_phased_genotype(self, pgmat, miscout, **kwargs)
            if self.invert and pgmat.is_grouped_vrnt() and pgmat.vrnt_mask is not None:
                nz = numpy.flatnonzero(pgmat.vrnt_mask)                 # the un-inverted mask
                ln = numpy.array([numpy.sum((nz >= a) & (nz < b)) for a, b in
                                  zip(pgmat.vrnt_chrgrp_stix, pgmat.vrnt_chrgrp_spix)], dtype=out.vrnt_chrgrp_len.dtype)
                out.vrnt_chrgrp_len = ln
                out.vrnt_chrgrp_spix = numpy.cumsum(ln)
                out.vrnt_chrgrp_stix = numpy.concatenate([[0], out.vrnt_chrgrp_spix[:-1]])
            return out

        DenseVariantMatrix_group_vrnt = DenseVariantMatrix.__dict__["group_vrnt"]

        def reorder_vrnt_keeps_groups(self, indices, **kwargs):
            saved = (self._vrnt_chrgrp_name, self._vrnt_chrgrp_stix, self._vrnt_chrgrp_spix, self._vrnt_chrgrp_len)
            DenseVariantMatrix_reorder_vrnt(self, indices, **kwargs)
            (self._vrnt_chrgrp_name, self._vrnt_chrgrp_stix, self._vrnt_chrgrp_spix, self._vrnt_chrgrp_len) = saved

        def group_vrnt_skips_when_grouped(self, **kwargs):
            if self.is_grouped_vrnt():
                return
            DenseVariantMatrix_group_vrnt(self, **kwargs)

        @contextlib.contextmanager
        def patch2(cls, a, fa, b, fb):
            with patch(cls, a, fa), patch(cls, b, fb):
                yield

        def append_taxa_placeholder_wrong_axis(self, values, taxa=None, taxa_grp=None, **kwargs):
            if isinstance(values, numpy.ndarray) and self._taxa is not None and taxa is None:
                taxa = numpy.empty(values.shape[0], dtype="object")      # sized by axis 0, not by the taxa axis
            DenseTaxaMatrix_append_taxa(self, values, taxa=taxa, taxa_grp=taxa_grp, **kwargs)

        from pybrops.popgen.bvmat.DenseBreedingValueMatrix import DenseBreedingValueMatrix

        def bv_delete_taxa_stored_values(self, obj, **kwargs):
            # builds the new matrix from the stored (standardised) values instead of unscale()
            return self.__class__.from_numpy(
                numpy.delete(self.mat, obj, axis=self.taxa_axis),
                taxa=None if self.taxa is None else numpy.delete(self.taxa, obj, axis=0),
                taxa_grp=None if self.taxa_grp is None else numpy.delete(self.taxa_grp, obj, axis=0),
                trait=self.trait, **kwargs)

        # ---- round 3: several live objects / aliasing, more than two square axes, label precedence, layouts, sizes
        from pybrops.core.mat.DenseSquareTaxaMatrix import DenseSquareTaxaMatrix
        from pybrops.core.mat.DenseTraitMatrix import DenseTraitMatrix
        from pybrops.breed.prot.gt.DenseUnphasedGenotyping import DenseUnphasedGenotyping
        DenseTaxaMatrix_reorder_taxa = DenseTaxaMatrix.__dict__["reorder_taxa"]
        DenseSquareTaxaMatrix_reorder_taxa = DenseSquareTaxaMatrix.__dict__["reorder_taxa"]
        DenseSquareTaxaMatrix_select_taxa = DenseSquareTaxaMatrix.__dict__["select_taxa"]
        DenseTraitMatrix_incorp_trait = DenseTraitMatrix.__dict__["incorp_trait"]
        DenseTaxaMatrix_adjoin_taxa = DenseTaxaMatrix.__dict__["adjoin_taxa"]
        DenseTaxaMatrix_is_grouped_taxa = DenseTaxaMatrix.__dict__["is_grouped_taxa"]

        def reorder_taxa_labels_in_place(self, indices, **kwargs):
            taxa, grp = self._taxa, self._taxa_grp
            DenseTaxaMatrix_reorder_taxa(self, indices, **kwargs)
            if taxa is not None:
                taxa[:] = self._taxa
                self._taxa = taxa
            if grp is not None:
                grp[:] = self._taxa_grp
                self._taxa_grp = grp

        def reorder_vrnt_positions_in_place(self, indices, **kwargs):
            pos = self._vrnt_phypos
            DenseVariantMatrix_reorder_vrnt(self, indices, **kwargs)
            if pos is not None:
                pos[:] = self._vrnt_phypos
                self._vrnt_phypos = pos

        def square_reorder_first_two_axes(self, indices, **kwargs):
            mat = self._mat
            DenseSquareTaxaMatrix_reorder_taxa(self, indices, **kwargs)
            self._mat = mat[numpy.ix_(indices, indices)]

        def square_select_first_two_axes(self, indices, **kwargs):
            out = DenseSquareTaxaMatrix_select_taxa(self, indices, **kwargs)
            if len(self.square_taxa_axes) > 2:
                m = numpy.take(numpy.take(self._mat, indices, axis=0), indices, axis=1)
                ix = numpy.arange(len(indices)) % self._mat.shape[2]
                for ax in self.square_taxa_axes[2:]:
                    m = numpy.take(m, ix, axis=ax)
                out._mat = m
            return out

        def incorp_trait_object_names_win(self, obj, values, trait=None, **kwargs):
            if isinstance(values, self.__class__) and values.trait is not None:
                trait = values.trait
            DenseTraitMatrix_incorp_trait(self, obj, values, trait=trait, **kwargs)

        def adjoin_taxa_object_groups_win(self, values, taxa=None, taxa_grp=None, **kwargs):
            if isinstance(values, self.__class__) and values.taxa_grp is not None:
                taxa_grp = values.taxa_grp
            return DenseTaxaMatrix_adjoin_taxa(self, values, taxa=taxa, taxa_grp=taxa_grp, **kwargs)

        def is_grouped_taxa_memo(self, **kwargs):
            if not hasattr(self, "_grouped_memo"):
                self._grouped_memo = DenseTaxaMatrix_is_grouped_taxa(self, **kwargs)
            return self._grouped_memo

        def select_taxa_int8_indices(self, indices, **kwargs):
            return DenseTaxaMatrix_select_taxa(self, numpy.asarray(indices).astype("int8"), **kwargs)

        def select_vrnt_label_base_buffer(self, indices, **kwargs):
            out = DenseVariantMatrix_select_vrnt(self, indices, **kwargs)
            p = self._vrnt_phypos
            if p is not None and p.base is not None and p.base.ndim == 1:
                out._vrnt_phypos = numpy.take(p.base, indices)[:out.nvrnt]
            return out

        unphased_genotype = DenseUnphasedGenotyping.__dict__["genotype"]

        def gt_unphased_then_sort_in_place(self, pgmat, miscout=None, **kwargs):
            out = unphased_genotype(self, pgmat, miscout, **kwargs)
            # "outputs are always delivered sorted by name": done on the arrays the input still owns
            if out._taxa is not None and all(x is not None for x in out._taxa):
                ix = numpy.argsort(out._taxa, kind="stable")
                out._mat = out._mat[ix]
                out._taxa[:] = out._taxa[ix]
                if out._taxa_grp is not None:
                    out._taxa_grp = out._taxa_grp[ix]
                out.taxa_grp_name = out.taxa_grp_stix = out.taxa_grp_spix = out.taxa_grp_len = None
            return out

        def select_taxa_group_view(self, indices, **kwargs):
            # contiguous ascending selections return a VIEW of the receiver's group array: same values, new aliasing
            out = DenseTaxaMatrix_select_taxa(self, indices, **kwargs)
            ix = numpy.asarray(indices)
            if (self._taxa_grp is not None and ix.ndim == 1 and len(ix) > 0 and ix[0] >= 0
                    and numpy.all(numpy.diff(ix) == 1)):
                out._taxa_grp = self._taxa_grp[int(ix[0]):int(ix[-1]) + 1]
            return out

        def append_taxa_fixed_width_names(self, values, taxa=None, taxa_grp=None, **kwargs):
            DenseTaxaMatrix_append_taxa(self, values, taxa=taxa, taxa_grp=taxa_grp, **kwargs)
            if self._taxa is not None and len(self._taxa) and all(isinstance(x, str) for x in self._taxa):
                # names kept in a fixed-width string array sized by the first name: longer names are cut
                self._taxa = self._taxa.astype(f"<U{len(self._taxa[0])}").astype(object)

        def reorder_vrnt_positions_int32(self, indices, **kwargs):
            DenseVariantMatrix_reorder_vrnt(self, indices, **kwargs)
            if self._vrnt_phypos is not None:
                self._vrnt_phypos = self._vrnt_phypos.astype("int32").astype("int64")

        # ---- round 4: value magnitudes / dtypes, second copy of the square mechanism, in-place writes on shared
        #      metadata, sizes past 1024, numpy-scalar index forms, default axis, fill value in data blocks
        from pybrops.core.mat.DenseSquareTraitMatrix import DenseSquareTraitMatrix
        DenseVariantMatrix_insert_vrnt = DenseVariantMatrix.__dict__["insert_vrnt"]
        DenseSquareTraitMatrix_select_trait = DenseSquareTraitMatrix.__dict__["select_trait"]
        DenseTaxaMatrix_ungroup_taxa = DenseTaxaMatrix.__dict__["ungroup_taxa"]
        DenseTaxaMatrix_delete_taxa = DenseTaxaMatrix.__dict__["delete_taxa"]
        DenseSquareTaxaMatrix_adjoin_taxa = DenseSquareTaxaMatrix.__dict__["adjoin_taxa"]
        DenseTraitMatrix_reorder_trait = DenseTraitMatrix.__dict__["reorder_trait"]
        DenseTaxaMatrix_lexsort_taxa = DenseTaxaMatrix.__dict__["lexsort_taxa"]
        DenseTaxaVariantMatrix_sort = DenseTaxaVariantMatrix.__dict__["sort"]

        def adjoin_taxa_data_through_float32(self, values, taxa=None, taxa_grp=None, **kwargs):
            out = DenseTaxaMatrix_adjoin_taxa(self, values, taxa=taxa, taxa_grp=taxa_grp, **kwargs)
            if out._mat.dtype == numpy.float64:
                out._mat = out._mat.astype("float32").astype("float64")
            elif out._mat.dtype == numpy.int64:
                out._mat = out._mat.astype("int32").astype("int64")
            return out

        def insert_vrnt_genpos_through_float32(self, obj, values, **kwargs):
            out = DenseVariantMatrix_insert_vrnt(self, obj, values, **kwargs)
            if out._vrnt_genpos is not None:
                out._vrnt_genpos = out._vrnt_genpos.astype("float32").astype("float64")
            return out

        def square_trait_select_second_axis_sorted(self, indices, **kwargs):
            out = DenseSquareTraitMatrix_select_trait(self, indices, **kwargs)
            ix = numpy.asarray(indices) % self._mat.shape[1]
            out._mat = self._mat[numpy.ix_(ix, numpy.sort(ix))]
            return out

        def ungroup_taxa_zeroes_metadata_in_place(self, **kwargs):
            if self._taxa_grp_len is not None:
                self._taxa_grp_len[...] = 0
                self._taxa_grp_spix[...] = self._taxa_grp_stix
            DenseTaxaMatrix_ungroup_taxa(self, **kwargs)

        def reorder_vrnt_second_chunk_past_1024(self, indices, **kwargs):
            old = self._vrnt_phypos
            DenseVariantMatrix_reorder_vrnt(self, indices, **kwargs)
            if old is not None and len(old) > 1024:
                ind = numpy.asarray(indices)
                self._vrnt_phypos = numpy.concatenate([old[ind[:1024]], old[ind[1023:-1]]])

        def tv_sort_default_axis_zero(self, keys=None, axis=0, **kwargs):
            DenseTaxaVariantMatrix_sort(self, keys=keys, axis=axis, **kwargs)

        def square_adjoin_operand_block_left_unfilled(self, values, taxa=None, taxa_grp=None, **kwargs):
            out = DenseSquareTaxaMatrix_adjoin_taxa(self, values, taxa=taxa, taxa_grp=taxa_grp, **kwargs)
            n = self.ntaxa
            ix = tuple(slice(n, None) if a in self.square_taxa_axes else slice(None) for a in range(out._mat.ndim))
            out._mat[ix] = numpy.nan
            return out

        DenseSquareTaxaMatrix_append_taxa = DenseSquareTaxaMatrix.__dict__["append_taxa"]

        def square_append_operand_block_left_unfilled(self, values, taxa=None, taxa_grp=None, **kwargs):
            n = self.ntaxa
            DenseSquareTaxaMatrix_append_taxa(self, values, taxa=taxa, taxa_grp=taxa_grp, **kwargs)
            ix = tuple(slice(n, None) if a in self.square_taxa_axes else slice(None) for a in range(self._mat.ndim))
            self._mat[ix] = numpy.nan

        def delete_taxa_numpy_scalar_taken_for_sequence(self, obj, **kwargs):
            if not isinstance(obj, (int, slice)):
                obj = [i for i in obj]            # a numpy integer scalar is not iterable
            return DenseTaxaMatrix_delete_taxa(self, obj, **kwargs)

        def reorder_trait_also_along_unlabelled_axis(self, indices, **kwargs):
            DenseTraitMatrix_reorder_trait(self, indices, **kwargs)
            m = self._mat
            if type(self) is DenseTraitMatrix and m.ndim == 2 and m.shape[0] == m.shape[1]:
                self._mat = m[:, numpy.asarray(indices)]

        taxa_grp_prop = DenseTaxaMatrix.__dict__["taxa_grp"]
        taxa_grp_sorted_on_assignment = property(
            taxa_grp_prop.fget,
            lambda self, value: taxa_grp_prop.fset(self, None if value is None else numpy.sort(value)),
            taxa_grp_prop.fdel)

        # ---- mutants that undo the repairs of D17b and D27
        DenseTaxaMatrix_insert_taxa = DenseTaxaMatrix.__dict__["insert_taxa"]
        DenseVariantMatrix_incorp_vrnt = DenseVariantMatrix.__dict__["incorp_vrnt"]

        def insert_taxa_zero_dim_position_not_wrapped(self, obj, values, taxa=None, taxa_grp=None, **kwargs):
            if isinstance(obj, numpy.ndarray) and obj.ndim == 0:
                # labels as now; the data go through numpy.insert with the SCALAR position (moveaxis rule), as before D17b
                out = DenseTaxaMatrix_insert_taxa(self, [int(obj)], values, taxa=taxa, taxa_grp=taxa_grp, **kwargs)
                v = values.mat if isinstance(values, DenseTaxaMatrix) else values
                out._mat = numpy.insert(self._mat, int(obj), v, axis=self.taxa_axis)
                return out
            return DenseTaxaMatrix_insert_taxa(self, obj, values, taxa=taxa, taxa_grp=taxa_grp, **kwargs)

        def incorp_vrnt_zero_dim_position_not_wrapped(self, obj, values, **kwargs):
            if isinstance(obj, numpy.ndarray) and obj.ndim == 0:
                old = self._mat
                v = values.mat if isinstance(values, DenseVariantMatrix) else values
                DenseVariantMatrix_incorp_vrnt(self, [int(obj)], values, **kwargs)
                self._mat = numpy.insert(old, int(obj), v, axis=self.vrnt_axis)
                return
            DenseVariantMatrix_incorp_vrnt(self, obj, values, **kwargs)

        from pybrops.core.mat.DenseSquareTaxaTraitMatrix import DenseSquareTaxaTraitMatrix

        @contextlib.contextmanager
        def square_taxa_trait_overrides_removed(names):
            """the class falls back to the methods it inherits from its single-bundle parents (what it did before D27)"""
            saved = {n: DenseSquareTaxaTraitMatrix.__dict__[n] for n in names if n in DenseSquareTaxaTraitMatrix.__dict__}
            for n in saved:
                delattr(DenseSquareTaxaTraitMatrix, n)
            try:
                yield
            finally:
                for n, f in saved.items():
                    setattr(DenseSquareTaxaTraitMatrix, n, f)

        def lexsort_taxa_rejects_key_matrix(self, keys=None, **kwargs):
            if isinstance(keys, numpy.ndarray):
                raise TypeError("keys must be a tuple")
            return DenseTaxaMatrix_lexsort_taxa(self, keys, **kwargs)

        # ---- round 5: arrays outside the default dtypes
        DenseTraitMatrix_adjoin_trait = DenseTraitMatrix.__dict__["adjoin_trait"]
        DenseTaxaMatrix_concat_taxa = DenseTaxaMatrix.__dict__["concat_taxa"].__func__
        DenseTaxaMatrix_group_taxa = DenseTaxaMatrix.__dict__["group_taxa"]
        DenseTaxaMatrix_sort_taxa = DenseTaxaMatrix.__dict__["sort_taxa"]

        def adjoin_trait_result_keeps_storage_dtype(self, values, trait=None, **kwargs):
            out = DenseTraitMatrix_adjoin_trait(self, values, trait=trait, **kwargs)
            out._mat = out._mat.astype(self._mat.dtype)          # a wider block is narrowed (rounded / wrapped)
            return out

        def concat_taxa_result_in_dtype_of_first(cls, mats, **kwargs):
            out = DenseTaxaMatrix_concat_taxa(cls, mats, **kwargs)
            out._mat = out._mat.astype(mats[0]._mat.dtype)
            return out

        def group_taxa_sort_skipped_on_wrapped_differences(self, **kwargs):
            if self._taxa_grp is not None and not numpy.any(numpy.diff(self._taxa_grp) < 0):
                # "already in ascending order": unsigned / narrow signed differences wrap around
                u = numpy.unique(self._taxa_grp, return_index=True, return_counts=True)
                self._taxa_grp_name, self._taxa_grp_stix, self._taxa_grp_len = u
                self._taxa_grp_spix = self._taxa_grp_stix + self._taxa_grp_len
                return
            DenseTaxaMatrix_group_taxa(self, **kwargs)

        def group_vrnt_sort_skipped_on_wrapped_differences(self, **kwargs):
            if self._vrnt_chrgrp is not None and not numpy.any(numpy.diff(self._vrnt_chrgrp) < 0):
                u = numpy.unique(self._vrnt_chrgrp, return_index=True, return_counts=True)
                self._vrnt_chrgrp_name, self._vrnt_chrgrp_stix, self._vrnt_chrgrp_len = u
                self._vrnt_chrgrp_spix = self._vrnt_chrgrp_stix + self._vrnt_chrgrp_len
                return
            DenseVariantMatrix_group_vrnt(self, **kwargs)

        def sort_taxa_groups_through_float64(self, keys=None, **kwargs):
            DenseTaxaMatrix_sort_taxa(self, keys, **kwargs)
            if self._taxa_grp is not None:
                # "labels are numbers": exact for every int64 the harness renders (< 2^53), not for uint64 above 2^63
                self._taxa_grp = self._taxa_grp.astype("float64").astype(self._taxa_grp.dtype)

        return [
            ("adjoin_trait_wider_block_narrowed_to_storage_dtype",
             lambda: patch(DenseTraitMatrix, "adjoin_trait", adjoin_trait_result_keeps_storage_dtype)),
            ("concat_taxa_wider_blocks_narrowed_to_dtype_of_first",
             lambda: patch(DenseTaxaMatrix, "concat_taxa", classmethod(concat_taxa_result_in_dtype_of_first))),
            ("group_taxa_sort_skipped_when_wrapped_label_differences_nonnegative",
             lambda: patch(DenseTaxaMatrix, "group_taxa", group_taxa_sort_skipped_on_wrapped_differences)),
            ("group_vrnt_sort_skipped_when_wrapped_label_differences_nonnegative",
             lambda: patch(DenseVariantMatrix, "group_vrnt", group_vrnt_sort_skipped_on_wrapped_differences)),
            ("sort_taxa_group_labels_through_float64",
             lambda: patch(DenseTaxaMatrix, "sort_taxa", sort_taxa_groups_through_float64)),
            ("adjoin_taxa_data_through_float32_or_int32",
             lambda: patch(DenseTaxaMatrix, "adjoin_taxa", adjoin_taxa_data_through_float32)),
            ("insert_vrnt_map_positions_through_float32",
             lambda: patch(DenseVariantMatrix, "insert_vrnt", insert_vrnt_genpos_through_float32)),
            ("square_trait_select_second_axis_sorted",
             lambda: patch(DenseSquareTraitMatrix, "select_trait", square_trait_select_second_axis_sorted)),
            ("ungroup_taxa_zeroes_shared_metadata_in_place",
             lambda: patch(DenseTaxaMatrix, "ungroup_taxa", ungroup_taxa_zeroes_metadata_in_place)),
            ("reorder_vrnt_positions_second_chunk_past_1024",
             lambda: patch(DenseVariantMatrix, "reorder_vrnt", reorder_vrnt_second_chunk_past_1024)),
            ("generic_sort_default_axis_zero", lambda: patch(DenseTaxaVariantMatrix, "sort", tv_sort_default_axis_zero)),
            ("square_adjoin_operand_block_left_as_fill_value",
             lambda: patch2(DenseSquareTaxaMatrix, "adjoin_taxa", square_adjoin_operand_block_left_unfilled,
                            "append_taxa", square_append_operand_block_left_unfilled)),
            ("delete_taxa_numpy_integer_scalar_taken_for_sequence",
             lambda: patch(DenseTaxaMatrix, "delete_taxa", delete_taxa_numpy_scalar_taken_for_sequence)),
            ("reorder_trait_also_permutes_unlabelled_axis",
             lambda: patch(DenseTraitMatrix, "reorder_trait", reorder_trait_also_along_unlabelled_axis)),
            ("taxa_grp_setter_stores_sorted_copy",
             lambda: patch(DenseTaxaMatrix, "taxa_grp", taxa_grp_sorted_on_assignment)),
            ("insert_taxa_zero_dim_position_reaches_numpy_as_scalar",
             lambda: patch(DenseTaxaMatrix, "insert_taxa", insert_taxa_zero_dim_position_not_wrapped)),
            ("incorp_vrnt_zero_dim_position_reaches_numpy_as_scalar",
             lambda: patch(DenseVariantMatrix, "incorp_vrnt", incorp_vrnt_zero_dim_position_not_wrapped)),
            ("square_taxa_trait_taxa_methods_inherited_again",
             lambda: square_taxa_trait_overrides_removed(["select_taxa", "delete_taxa", "insert_taxa", "adjoin_taxa",
                                                          "concat_taxa"])),
            ("square_taxa_trait_trait_methods_inherited_again",
             lambda: square_taxa_trait_overrides_removed(["select_trait", "delete_trait", "insert_trait", "adjoin_trait",
                                                          "concat_trait"])),
            ("lexsort_taxa_rejects_key_matrix",
             lambda: patch(DenseTaxaMatrix, "lexsort_taxa", lexsort_taxa_rejects_key_matrix)),
            ("append_taxa_names_cut_to_fixed_width",
             lambda: patch(DenseTaxaMatrix, "append_taxa", append_taxa_fixed_width_names)),
            ("reorder_vrnt_positions_through_int32",
             lambda: patch(DenseVariantMatrix, "reorder_vrnt", reorder_vrnt_positions_int32)),
            ("select_taxa_returns_view_of_receiver_groups",
             lambda: patch(DenseTaxaMatrix, "select_taxa", select_taxa_group_view)),
            ("reorder_taxa_permutes_label_arrays_in_place",
             lambda: patch(DenseTaxaMatrix, "reorder_taxa", reorder_taxa_labels_in_place)),
            ("reorder_vrnt_permutes_positions_in_place",
             lambda: patch(DenseVariantMatrix, "reorder_vrnt", reorder_vrnt_positions_in_place)),
            ("square_reorder_taxa_first_two_axes_only",
             lambda: patch(DenseSquareTaxaMatrix, "reorder_taxa", square_reorder_first_two_axes)),
            ("square_select_taxa_first_two_axes_only",
             lambda: patch(DenseSquareTaxaMatrix, "select_taxa", square_select_first_two_axes)),
            ("incorp_trait_object_names_beat_keyword",
             lambda: patch(DenseTraitMatrix, "incorp_trait", incorp_trait_object_names_win)),
            ("adjoin_taxa_object_groups_beat_keyword",
             lambda: patch(DenseTaxaMatrix, "adjoin_taxa", adjoin_taxa_object_groups_win)),
            ("is_grouped_taxa_memoised", lambda: patch(DenseTaxaMatrix, "is_grouped_taxa", is_grouped_taxa_memo)),
            ("select_taxa_indices_cast_to_int8",
             lambda: patch(DenseTaxaMatrix, "select_taxa", select_taxa_int8_indices)),
            ("select_vrnt_reads_label_base_buffer",
             lambda: patch(DenseVariantMatrix, "select_vrnt", select_vrnt_label_base_buffer)),
            ("unphased_genotyping_sorts_shared_names_in_place",
             lambda: patch(DenseUnphasedGenotyping, "genotype", gt_unphased_then_sort_in_place)),
            ("breeding_value_delete_taxa_from_stored_values",
             lambda: patch(DenseBreedingValueMatrix, "delete_taxa", bv_delete_taxa_stored_values)),
            ("masked_genotyping_invert_metadata_from_wrong_mask",
             lambda: patch(DenseMaskedPhasedGenotyping, "genotype", gt_invert_wrong_mask)),
            ("group_vrnt_skips_sort_when_flagged_grouped_after_reorder",
             lambda: patch2(DenseVariantMatrix, "reorder_vrnt", reorder_vrnt_keeps_groups,
                            "group_vrnt", group_vrnt_skips_when_grouped)),
            ("append_taxa_name_placeholder_sized_by_wrong_axis",
             lambda: patch(DenseTaxaMatrix, "append_taxa", append_taxa_placeholder_wrong_axis)),
            ("masked_genotyping_stale_group_metadata",
             lambda: patch(DenseMaskedPhasedGenotyping, "genotype", gt_stale_metadata)),
            ("masked_unphased_genotyping_positions_not_masked",
             lambda: patch(DenseMaskedUnphasedGenotyping, "genotype", gt_unphased_positions_unmasked)),
            ("reorder_vrnt_omits_genpos", lambda: patch(DenseVariantMatrix, "reorder_vrnt", reorder_vrnt_no_genpos)),
            ("select_taxa_grp_not_parallel", lambda: patch(DenseTaxaMatrix, "select_taxa", select_taxa_grp_sorted)),
            ("remove_taxa_names_shifted", lambda: patch(DenseTaxaMatrix, "remove_taxa", remove_taxa_keeps_names)),
            ("select_vrnt_data_rolled", lambda: patch(DenseVariantMatrix, "select_vrnt", select_vrnt_rolls_data)),
            ("group_taxa_without_sort", lambda: patch(DenseTaxaMatrix, "group_taxa", group_taxa_unsorted)),
            ("lexsort_vrnt_key_order", lambda: patch(DenseVariantMatrix, "lexsort_vrnt", lexsort_vrnt_first_key_primary)),
            ("append_taxa_keeps_group_metadata", lambda: patch(DenseTaxaMatrix, "append_taxa", append_taxa_keeps_groups)),
            ("sort_vrnt_keeps_group_metadata", lambda: patch(DenseVariantMatrix, "sort_vrnt", sort_vrnt_keeps_groups)),
            ("generic_delete_wrong_axis", lambda: patch(DenseTaxaVariantMatrix, "delete", tv_delete_wrong_axis)),
            ("generic_sort_ignores_axis", lambda: patch(DenseTaxaVariantMatrix, "sort", tv_sort_ignores_axis)),
        ]


PROP = C03()
