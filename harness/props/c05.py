"""C05 — selection objectives mean what they say in every decision encoding.

Table-driven adapter over the concrete *SelectionProblem classes of pybrops.breed.prot.sel.prob:
every criterion has one entry (`CRITS`) that says which classes implement it in which decision
encoding, how to build them from plain data and how the same data is handed to the Lean model
(`lean/PybropsModel/Model/Selection.lean`, driver ops `c05.*`).
"""
import contextlib
import importlib
import math
from fractions import Fraction

import numpy

from .. import canon, compat
from ..core import Prop

compat.install()

PKG = "pybrops.breed.prot.sel.prob."
ENCODINGS = ("subset", "real", "integer", "binary")


def F(x, d=1):
    return Fraction(x, d)


def _f(x):
    return float(Fraction(x))


def _arr(a, dtype=float):
    """nested list of canonical rationals -> numpy array"""
    def conv(v):
        if isinstance(v, list):
            return [conv(u) for u in v]
        return _f(v)
    out = numpy.array(conv(a), dtype=float)
    if dtype is not float:
        out = out.astype(dtype)
    return out


def _mod(name):
    compat.import_pybrops()
    return importlib.import_module(PKG + name)


# --------------------------------------------------------------------------------------------
# criterion table
#   module     : file under sel/prob
#   classes    : encoding -> class name
#   data       : names of the data arrays of a case (case["data"][name])
#   ctor       : data dict (numpy) -> constructor keyword arguments (besides the standard ones)
#   crit       : data dict (canonical JSON) -> criterion fields of the driver request
#   mate       : decision variables index crosses (needs decn_space_xmap)
# --------------------------------------------------------------------------------------------
def _lin(modname, stem, attr, guard, mate=False, kw=None):
    """a criterion whose latent vector is minus the contribution-weighted mean of the rows of one matrix"""
    return {"module": modname, "classes": {e: f"{stem}{e.capitalize()}SelectionProblem" for e in ENCODINGS},
            "data": ["D"], "mate": mate, "attr": attr,
            "ctor": (lambda d, _a=(kw or attr): {_a: d["D"]}),
            "crit": (lambda d, _g=guard: {"crit": "lin", "guard": _g, "D": d["D"]})}


CRITS = {
    "EBV": _lin("EstimatedBreedingValueSelectionProblem", "EstimatedBreedingValue", "ebv", True),
    "GEBV": _lin("GenomicEstimatedBreedingValueSelectionProblem", "GenomicEstimatedBreedingValue", "gebv", True),
    "WGEBV": _lin("WeightedGenomicSelectionProblem", "WeightedGenomic", "gwgebv", True, kw="wgebv"),
    "GWGEBV": _lin("GeneralizedWeightedGenomicEstimatedBreedingValueSelectionProblem",
                   "GeneralizedWeightedGenomicEstimatedBreedingValue", "gwgebv", True),
    "RANDOM": _lin("RandomSelectionProblem", "Random", "rbv", True),
    "EMBV": _lin("ExpectedMaximumBreedingValueSelectionProblem", "ExpectedMaximumBreedingValue", "embv", True,
                 mate=True),
    "OHV": _lin("OptimalHaploidValueSelectionProblem", "OptimalHaploidValue", "ohvmat", False, mate=True),
    "UC": {"module": "UsefulnessCriterionSelectionProblem",
           "classes": {e: f"UsefulnessCriterion{e.capitalize()}MateSelectionProblem" for e in ENCODINGS},
           "data": ["D"], "mate": True, "attr": "ucmat",
           "ctor": lambda d: {"ucmat": d["D"]},
           "crit": lambda d: {"crit": "lin", "guard": False, "D": d["D"]}},
    "OCS": {"module": "OptimalContributionSelectionProblem",
            "classes": {e: f"OptimalContribution{e.capitalize()}SelectionProblem" for e in ENCODINGS},
            "data": ["C", "D"], "mate": False,
            "ctor": lambda d: {"ebv": d["D"], "C": d["C"]},
            "crit": lambda d: {"crit": "ocs", "C": d["C"], "D": d["D"]}},
    "MGR": {"module": "MeanGenomicRelationshipSelectionProblem",
            "classes": {e: f"MeanGenomicRelationship{e.capitalize()}SelectionProblem" for e in ENCODINGS},
            "data": ["C"], "mate": False,
            "ctor": lambda d: {"C": d["C"]},
            "crit": lambda d: {"crit": "mgr", "C": d["C"]}},
    "MEH": {"module": "MeanExpectedHeterozygositySelectionProblem",
            "classes": {e: f"MeanExpectedHeterozygosity{e.capitalize()}SelectionProblem" for e in ENCODINGS},
            "data": ["C"], "mate": False,
            "ctor": lambda d: {"C": d["C"]},
            "crit": lambda d: {"crit": "meh", "C": d["C"]}},
    "L1": {"module": "L1NormGenomicSelectionProblem",
           "classes": {e: f"L1NormGenomic{e.capitalize()}SelectionProblem" for e in ENCODINGS},
           "data": ["V"], "mate": False,
           "ctor": lambda d: {"V": d["V"]},
           "crit": lambda d: {"crit": "l1", "V": d["V"]}},
    "L2": {"module": "L2NormGenomicSelectionProblem",
           "classes": {e: f"L2NormGenomic{e.capitalize()}SelectionProblem" for e in ENCODINGS},
           "data": ["C3"], "mate": False,
           "ctor": lambda d: {"C": d["C3"]},
           "crit": lambda d: {"crit": "l2", "C": d["C3"]}},
    "FAMILY": {"module": "FamilyEstimatedBreedingValueSelectionProblem",
               "classes": {e: f"FamilyEstimatedBreedingValue{e.capitalize()}SelectionProblem" for e in ENCODINGS},
               "data": ["D", "familyid"], "mate": False,
               "ctor": lambda d: {"ebv": d["D"], "familyid": d["familyid"]},
               "crit": lambda d: dict(crit="family", D=d["D"], **_family_index(d["familyid"]))},
    "OPV": {"module": "OptimalPopulationValueSelectionProblem",
            "classes": {"subset": "OptimalPopulationValueSubsetSelectionProblem"},
            "data": ["H"], "mate": False,
            "ctor": lambda d: {"haplomat": d["H"]},
            "crit": lambda d: {"crit": "opv", "H": d["H"]}},
    "GB": {"module": "GenotypeBuilderSelectionProblem",
           "classes": {"subset": "GenotypeBuilderSubsetSelectionProblem"},
           "data": ["H", "nbest"], "mate": False,
           "ctor": lambda d: {"haplomat": d["H"], "nbestfndr": d["nbest"]},
           "crit": lambda d: {"crit": "gb", "H": d["H"], "nbest": d["nbest"]}},
    "PAFD": {"module": "PopulationAlleleFrequencyDistanceSelectionProblem",
             "classes": {"subset": "PopulationAlleleFrequencyDistanceSubsetSelectionProblem"},
             "data": ["geno", "ploidy", "mkrwt", "tfreq"], "mate": False,
             "ctor": lambda d: {k: d[k] for k in ("geno", "ploidy", "mkrwt", "tfreq")},
             "crit": lambda d: dict(crit="pafd", **{k: d[k] for k in ("geno", "ploidy", "mkrwt", "tfreq")})},
    "PAU": {"module": "PopulationAlleleUnavailabilitySelectionProblem",
            "classes": {"subset": "PopulationAlleleUnavailabilitySubsetSelectionProblem"},
            "data": ["geno", "ploidy", "mkrwt", "tfreq"], "mate": False,
            "ctor": lambda d: {k: d[k] for k in ("geno", "ploidy", "mkrwt", "tfreq")},
            "crit": lambda d: dict(crit="pau", **{k: d[k] for k in ("geno", "ploidy", "mkrwt", "tfreq")})},
    "MOGS": {"module": "MultiObjectiveGenomicSelectionProblem",
             "classes": {"subset": "MultiObjectiveGenomicSubsetSelectionProblem"},
             "data": ["geno", "ploidy", "mkrwt", "tfreq"], "mate": False,
             "ctor": lambda d: {k: d[k] for k in ("geno", "ploidy", "mkrwt", "tfreq")},
             "crit": lambda d: dict(crit="mogs", **{k: d[k] for k in ("geno", "ploidy", "mkrwt", "tfreq")})},
}
GUARDED = {"EBV", "GEBV", "WGEBV", "GWGEBV", "RANDOM", "EMBV", "OCS", "MGR", "MEH"}
NCLASSES = sum(len(c["classes"]) for c in CRITS.values())


def _family_index(familyid):
    """numpy.unique(familyid, return_inverse=True) recomputed without numpy"""
    ids = [int(v) for v in familyid]
    fam = sorted(set(ids))
    return {"fix": [fam.index(v) for v in ids], "nfam": len(fam)}


def ncand(crit, data):
    """number of candidates (taxa or crosses) the data covers"""
    if crit in ("OCS", "MGR", "MEH"):
        return len(data["C"][0])
    if crit == "L1":
        return len(data["V"][0][0])
    if crit == "L2":
        return len(data["C3"][0][0])
    if crit in ("OPV", "GB"):
        return len(data["H"][0])
    if crit in ("PAFD", "PAU", "MOGS"):
        return len(data["geno"])
    return len(data["D"])


def nlatent(crit, data):
    if crit in ("MGR", "MEH"):
        return 1
    if crit == "OCS":
        return 1 + len(data["D"][0])
    if crit == "L1":
        return len(data["V"])
    if crit == "L2":
        return len(data["C3"])
    if crit == "FAMILY":
        return len(data["D"][0]) + len(set(int(v) for v in data["familyid"]))
    if crit in ("OPV", "GB"):
        return len(data["H"][0][0][0])
    if crit in ("PAFD", "PAU"):
        return len(data["mkrwt"][0])
    if crit == "MOGS":
        return 2 * len(data["mkrwt"][0])
    return len(data["D"][0])


def np_data(crit, data):
    """canonical case data -> numpy arrays as the constructors want them"""
    out = {}
    for k, v in data.items():
        if k in ("ploidy", "nbest"):
            out[k] = int(v)
        elif k == "familyid":
            out[k] = numpy.array([int(x) for x in v], dtype="int64")
        elif k == "geno":
            out[k] = _arr(v, "int8")
        else:
            out[k] = _arr(v)
    return out


def build(crit, enc, data, n=None, k=None, xmap=None, **std):
    """instantiate the concrete class of criterion `crit` for decision encoding `enc`"""
    spec = CRITS[crit]
    cls = getattr(_mod(spec["module"]), spec["classes"][enc])
    d = np_data(crit, data)
    n = ncand(crit, data) if n is None else n
    kw = dict(spec["ctor"](d))
    if enc == "subset":
        kw.update(ndecn=k, decn_space=numpy.arange(n), decn_space_lower=None, decn_space_upper=None)
    elif enc == "real":
        kw.update(ndecn=n, decn_space=numpy.array([[0.0] * n, [1.0] * n]), decn_space_lower=0.0,
                  decn_space_upper=1.0)
    elif enc == "integer":
        kw.update(ndecn=n, decn_space=numpy.array([[0] * n, [8] * n]), decn_space_lower=0, decn_space_upper=8)
    else:
        kw.update(ndecn=n, decn_space=numpy.array([[0] * n, [1] * n]), decn_space_lower=0, decn_space_upper=1)
    if spec["mate"]:
        kw["decn_space_xmap"] = numpy.array(xmap if xmap is not None else [[i, (i + 1) % max(n, 1)] for i in range(n)],
                                            dtype="int64").reshape(n, -1)
    std.setdefault("nobj", nlatent(crit, data))
    kw.update(std)
    return cls(**kw)


def decision(enc, v):
    """canonical decision -> numpy vector of the dtype the encoding uses"""
    if enc in ("subset", "integer", "binary"):
        return numpy.array([int(Fraction(x)) for x in v], dtype="int64")
    return numpy.array([_f(x) for x in v], dtype=float)


def indicator(n, S):
    return [1 if i in S else 0 for i in range(n)]


def scaled(x, a):
    return [canon.enc(Fraction(v) * Fraction(a)) for v in x]


# --------------------------------------------------------------------------------------------
# random data
# --------------------------------------------------------------------------------------------
def _val(rng, lo=-6, hi=9):
    return canon.enc(Fraction(rng.randint(lo * 4, hi * 4), rng.choice([1, 1, 2, 4])))


def gen_data(rng, crit, n=None):
    n = n or rng.choice([2, 3, 3, 4, 4, 5, 6, 7])
    t = rng.choice([1, 2, 2, 3])
    if crit in ("EBV", "GEBV", "WGEBV", "GWGEBV", "RANDOM", "EMBV", "OHV", "UC"):
        return {"D": [[_val(rng) for _ in range(t)] for _ in range(n)]}
    if crit in ("OCS", "MGR", "MEH"):
        # upper triangular (the setter demands it), asymmetric, distinct entries
        C = [[(canon.enc(Fraction(rng.randint(1, 12) * rng.choice([1, -1]), rng.choice([1, 2]))) if j >= i else 0)
              for j in range(n)] for i in range(n)]
        d = {"C": C}
        if crit == "OCS":
            d["D"] = [[_val(rng) for _ in range(t)] for _ in range(n)]
        return d
    if crit == "L1":
        m = rng.randint(1, 4)
        return {"V": [[[_val(rng, -4, 4) for _ in range(n)] for _ in range(m)] for _ in range(t)]}
    if crit == "L2":
        # the setter demands square upper-triangular (n x n) slices
        return {"C3": [[[(_val(rng, -4, 4) if j >= i else 0) for j in range(n)] for i in range(n)] for _ in range(t)]}
    if crit == "FAMILY":
        nf = rng.randint(1, max(1, n - 1))
        labels = rng.sample(range(1, 40), nf)
        ids = [rng.choice(labels) for _ in range(n)]
        return {"D": [[_val(rng) for _ in range(t)] for _ in range(n)], "familyid": ids}
    if crit in ("OPV", "GB"):
        nb = rng.randint(1, 3)
        d = {"H": [[[[_val(rng) for _ in range(t)] for _ in range(nb)] for _ in range(n)] for _ in range(2)]}
        if crit == "GB":
            d["nbest"] = rng.randint(1, n)
        return d
    if crit in ("PAFD", "PAU", "MOGS"):
        m = rng.randint(1, 5)
        geno = [[rng.choice([0, 0, 1, 2, 2]) for _ in range(m)] for _ in range(n)]
        # force fixed loci now and then (all 0 / all 2): the boundary of the availability tests
        for j in range(m):
            r = rng.random()
            if r < 0.2:
                for row in geno:
                    row[j] = 2
            elif r < 0.4:
                for row in geno:
                    row[j] = 0
        return {"geno": geno, "ploidy": 2,
                "mkrwt": [[canon.enc(Fraction(rng.randint(1, 9), rng.choice([1, 2, 4]))) for _ in range(t)]
                          for _ in range(m)],
                "tfreq": [[canon.enc(rng.choice([F(0), F(1), F(1, 2), F(1, 4), F(3, 4), F(0), F(1)]))
                           for _ in range(t)] for _ in range(m)]}
    raise ValueError(crit)


def gen_latent_case(rng, crit=None, n=None):
    crit = crit or rng.choice(list(CRITS))
    data = gen_data(rng, crit, n)
    n = ncand(crit, data)
    k = rng.randint(1, n)
    if crit == "GB":
        k = rng.randint(int(data["nbest"]), n)       # nbestfndr founders are taken out of the k selected
    S = rng.sample(range(n), k)
    perm = list(S)
    rng.shuffle(perm)
    case = {"kind": "latent", "crit": crit, "data": data, "S": S, "perm": perm,
            "a": canon.enc(rng.choice([F(2), F(3), F(1, 2), F(5, 4), F(7), F(1, 8)]))}
    if len(CRITS[crit]["classes"]) > 1:
        x = [rng.choice([0, 0, 1, 2, 3, 5]) for _ in range(n)]
        if not any(x):
            x[rng.randrange(n)] = 2
        case["x"] = x
        if rng.random() < 0.5:
            case["xr"] = [canon.enc(Fraction(rng.randint(0, 16), 16)) for _ in range(n)]
            if not any(Fraction(v) for v in case["xr"]):
                case["xr"][rng.randrange(n)] = canon.enc(F(3, 8))
    return case


TRANS_BUILTIN = ("identity", "sum", "dot", "empty", "decn_sum_eq")


def gen_trans(rng, nl, role):
    """a transformation descriptor and the length of its output"""
    if role == "obj":
        t = rng.choice(["identity", "identity", "identity", "slice", "sum", "dot", "penalty", "affine"])
    else:
        t = rng.choice(["empty", "sum", "dot", "decn_sum_eq", "penalty", "identity", "identity", "slice"])
    if t == "identity":
        return {"t": "identity"}, nl
    if t == "sum":
        return {"t": "sum"}, 1
    if t == "dot":
        return {"t": "dot", "w": [canon.enc(Fraction(rng.randint(-6, 6), 2)) for _ in range(nl)]}, 1
    if t == "empty":
        return {"t": "empty"}, 0
    if t == "decn_sum_eq":
        return {"t": "decn_sum_eq", "target": canon.enc(Fraction(rng.randint(0, 8), 2))}, 1
    if t == "slice":         # user callable returning a *view* of the latent vector: latent[0:1]
        return {"t": "slice"}, 1
    if t == "penalty":       # user callable with a keyword argument: max(latent - thr, 0)
        return {"t": "penalty", "thr": canon.enc(Fraction(rng.randint(-8, 8), 2))}, nl
    return {"t": "affine", "m": canon.enc(Fraction(rng.randint(1, 5))), "c": canon.enc(Fraction(rng.randint(-3, 3)))}, nl


def gen_eval_case(rng):
    crit = rng.choice(list(CRITS))
    encs = list(CRITS[crit]["classes"])
    enc = rng.choice(encs)
    data = gen_data(rng, crit)
    n = ncand(crit, data)
    nl = nlatent(crit, data)
    nsol = rng.randint(1, 3)
    X = []
    k = rng.randint(1, n)
    if crit == "GB":
        k = rng.randint(int(data["nbest"]), n)
    for _ in range(nsol):
        if enc == "subset":
            X.append(rng.sample(range(n), k))
        elif enc == "real":
            x = [canon.enc(Fraction(rng.randint(0, 8), 8)) for _ in range(n)]
            if not any(Fraction(v) for v in x):
                x[rng.randrange(n)] = canon.enc(F(1, 2))
            X.append(x)
        elif enc == "integer":
            x = [rng.choice([0, 1, 2, 3]) for _ in range(n)]
            if not any(x):
                x[rng.randrange(n)] = 1
            X.append(x)
        else:
            x = [rng.choice([0, 1]) for _ in range(n)]
            if not any(x):
                x[rng.randrange(n)] = 1
            X.append(x)
    case = {"kind": "evalfn", "crit": crit, "enc": enc, "data": data, "X": X}
    for role in ("obj", "ineqcv", "eqcv"):
        tr, ln = gen_trans(rng, nl, role)
        case[role + "_trans"] = tr
        # distinct weights per role, mixed signs, never 0 or 1 so that a swapped weight vector shows
        case[role + "_wt"] = [canon.enc(rng.choice([Fraction(-1), Fraction(-1, 2), Fraction(-1), Fraction(-1, 2)])
                                        if rng.random() < 0.35 else
                                        Fraction(rng.choice([-3, -2, 2, 3, 5, -5, 7]), rng.choice([1, 2])))
                              for _ in range(ln)]
    return case


def gen_lookahead_case(rng):
    """RealLookAheadGeneralizedWeightedGenomicSelectionProblem: founders, one trait, the alphas of each simulated
    generation as decision vector, and the (scripted) offspring populations the mating protocol will return"""
    from . import c05_factories as CF
    p = rng.randint(3, 5)
    founders = CF.gen_pop(rng, n=rng.randint(3, 5), p=p, t=1, nchr=1)
    founders["phased"] = True
    ngen = rng.randint(1, 2)
    nsimul = rng.randint(1, 2)
    gens = []
    for _ in range(nsimul):
        row = []
        for _ in range(ngen):
            q = CF.gen_pop(rng, n=rng.randint(3, 4), p=p, t=1, nchr=1)
            row.append(q["geno"])
        gens.append(row)
    return {"kind": "lookahead", "founders": founders, "gens": gens, "nparent": rng.randint(1, 3),
            "x": [canon.enc(rng.choice([F(0), F(1, 2), F(1), F(1, 2)])) for _ in range(ngen)]}


def make_trans(desc, log):
    """descriptor -> (python callable handed to the problem, kwargs dict); calls are logged"""
    compat.import_pybrops()
    import pybrops.breed.prot.sel.prob.trans as T
    t = desc["t"]
    kwargs = {}
    if t == "identity":
        fn = T.trans_identity
    elif t == "sum":
        fn = T.trans_sum
    elif t == "dot":
        fn = T.trans_dot
        kwargs = {"latentvec_wt": numpy.array([_f(v) for v in desc["w"]])}
    elif t == "empty":
        fn = T.trans_empty
    elif t == "decn_sum_eq":
        fn = T.trans_decnvec_sum_eq
        kwargs = {"decnvec_sum": _f(desc["target"])}
    elif t == "slice":
        def fn(decnvec, latentvec, **kw):
            return latentvec[0:1]
    elif t == "penalty":
        kwargs = {"thr": _f(desc["thr"])}

        def fn(decnvec, latentvec, thr, **kw):
            return numpy.maximum(latentvec - thr, 0.0)
    elif t == "affine":
        kwargs = {"m": _f(desc["m"]), "c": _f(desc["c"])}

        def fn(decnvec, latentvec, m, c, **kw):
            return m * latentvec + c
    else:
        raise ValueError(t)

    def spy(decnvec, latentvec, **kw):
        out = fn(decnvec, latentvec, **kw)
        log.append({"x": canon.enc(numpy.asarray(decnvec)), "latent": canon.enc(numpy.asarray(latentvec)),
                    "kwargs": sorted(kw), "out": canon.enc(numpy.asarray(out))})
        return out
    return spy, kwargs


def ref_trans(desc, x, latent):
    """exact reference value of a transformation (Fractions)"""
    t = desc["t"]
    x = [Fraction(v) for v in x]
    l = [Fraction(v) for v in latent]
    if t == "identity":
        return l
    if t == "sum":
        return [sum(l, Fraction(0))]
    if t == "dot":
        return [sum((Fraction(w) * v for w, v in zip(desc["w"], l)), Fraction(0))]
    if t == "empty":
        return []
    if t == "decn_sum_eq":
        return [abs(sum(x, Fraction(0)) - Fraction(desc["target"]))]
    if t == "slice":
        return l[0:1]
    if t == "penalty":
        return [max(v - Fraction(desc["thr"]), Fraction(0)) for v in l]
    if t == "affine":
        return [Fraction(desc["m"]) * v + Fraction(desc["c"]) for v in l]
    raise ValueError(t)


def _finite(v):
    return not any(isinstance(canon.dec(x), str) for x in v)


def _close_vec(a, b, rel=1e-9, abs_=1e-12):
    return len(a) == len(b) and _finite(a) and _finite(b) and canon.close_enc(a, b, rel, abs_)


class C05(Prop):
    PID = "C05"
    MODULE = "PybropsModel.Props.C05"
    N_QUICK = 1500
    N_THOROUGH = 15000
    CORRESPONDENCE = "functional"
    RULE = ("per case one criterion of the 19-entry table (%d concrete classes incl. the genotype builder; plus the look-ahead class with a scripted mating protocol and the under-construction mating class, which only raises), data over small integers / dyadic "
            "rationals with distinct entries (upper-triangular asymmetric kinship factors, unsorted family labels, "
            "fixed loci and target frequencies exactly 0, 1/4, 1/2, 3/4, 1); one duplicate-free parent set evaluated "
            "through the subset class (two listings), the integer, binary and real classes (two scalings), plus a "
            "general count vector / real vector and its rescaling; evalfn cases with spy transformations (built-in "
            "and user callables with keyword arguments), distinct weights per role and the batch path evaluate(X); "
            "factory cases build the problem from population objects (usefulness criterion with two-way and three-way designs, the latter also through the real three-way variance factory; kinship factors checked against the K of the C13 model).  Non-trivial = at least two candidates, a "
            "proper subset or a non-uniform vector, and a latent vector that is not all zero" % NCLASSES)
    TRUSTED = ["numpy.linalg.norm(.., ord=2) = sqrt of the sum of squares; numpy.power; numpy.linalg.cholesky and "
               "apply_jitter entered through the contract C^T C = K, where K is computed by the C13 model "
               "(Model/Coancestry.lean, op c05.kinship) from the genotype counts; the diagonal may exceed it by the jitter <= 0.5e-6",
               "genetic variance factories (C12), haplotype binning (C18), mating simulation (C01) are stubbed / taken as given "
               "in the factory cases: the factory code around them is what is checked here",
               "pymoo's Problem.evaluate plumbing (only its call of _evaluate is exercised)"]
    ASSUMPTIONS = ["a contribution vector has |sum x| >= 1e-10 (inside the guard the classes deliberately leave x "
                   "unnormalised: theorem scale_guard_counterexample); zero-sum vectors are only compared with the model",
                   "subset decisions are duplicate-free index lists (the declared decision space of SubsetProblem)",
                   "inputs are integers / dyadic rationals so that float arithmetic is exact up to 1e-9"]

    # ------------------------------------------------------------------ cases
    def corpus(self):
        out = []
        D = [[1, 2], [3, 4], [5, 7], [2, 2]]
        out.append({"kind": "latent", "crit": "EBV", "data": {"D": D}, "S": [2, 0], "perm": [0, 2], "a": 3,
                    "x": [1, 0, 2, 0], "xr": ["1/4", 0, "1/2", 0]})
        out.append({"kind": "latent", "crit": "OCS", "data": {"C": [[2, 1, -3], [0, 1, 5], [0, 0, 4]], "D": D[:3]},
                    "S": [1, 2], "perm": [2, 1], "a": "1/2", "x": [0, 3, 1]})
        out.append({"kind": "latent", "crit": "MEH", "data": {"C": [[1, 2], [0, 3]]}, "S": [1], "perm": [1], "a": 2,
                    "x": [1, 1]})
        out.append({"kind": "latent", "crit": "FAMILY", "data": {"D": D, "familyid": [7, 3, 7, 5]}, "S": [3, 0, 2],
                    "perm": [0, 2, 3], "a": 5, "x": [2, 0, 0, 1]})
        g = {"geno": [[2, 0, 1], [2, 0, 2], [2, 0, 0]], "ploidy": 2, "mkrwt": [[1], [2], [4]],
             "tfreq": [["1/2"], ["1/2"], ["1/2"]]}
        out.append({"kind": "latent", "crit": "PAU", "data": g, "S": [0, 1], "perm": [1, 0], "a": 1})
        # regression D50 (fixed 59e0f579): targets 1 and 0 at loci the two parents are already fixed at
        out.append({"kind": "latent", "crit": "PAU", "S": [0, 1], "perm": [1, 0], "a": 1,
                    "data": {"geno": [[2, 0], [2, 0]], "ploidy": 2, "mkrwt": [[1], [10]], "tfreq": [[1], [0]]}})
        out.append({"kind": "latent", "crit": "PAU", "S": [0, 1], "perm": [1, 0], "a": 1,
                    "data": {"geno": [[2, 0], [2, 0]], "ploidy": 2, "mkrwt": [[1], [10]], "tfreq": [[0], [1]]}})
        out.append({"kind": "latent", "crit": "MOGS", "data": dict(g, tfreq=[[1], [0], ["1/2"]]), "S": [0, 1, 2],
                    "perm": [1, 0, 2], "a": 1})
        # inside the 1e-10 guard: only compared with the model (see ASSUMPTIONS)
        # aliasing: identity / view objective transformation, weights -1 and -1/2, constraints that read the latent
        # vector afterwards (an in-place `obj *= obj_wt` would corrupt what they see)
        out.append({"kind": "evalfn", "crit": "EBV", "enc": "subset", "data": {"D": D}, "X": [[2, 0], [1, 3]],
                    "obj_trans": {"t": "identity"}, "obj_wt": [-1, "-1/2"],
                    "ineqcv_trans": {"t": "identity"}, "ineqcv_wt": [2, 3],
                    "eqcv_trans": {"t": "sum"}, "eqcv_wt": ["-1/2"]})
        out.append({"kind": "evalfn", "crit": "GEBV", "enc": "real", "data": {"D": D}, "X": [["1/2", 0, "1/4", "1/4"]],
                    "obj_trans": {"t": "slice"}, "obj_wt": ["-1/2"],
                    "ineqcv_trans": {"t": "slice"}, "ineqcv_wt": [5],
                    "eqcv_trans": {"t": "dot", "w": [1, -2]}, "eqcv_wt": [3]})
        # interior target frequency at loci where the selected subset is fixed (must be scored unavailable)
        out.append({"kind": "latent", "crit": "PAU", "S": [0, 1], "perm": [1, 0], "a": 1,
                    "data": {"geno": [[2, 0, 1], [2, 0, 2], [0, 2, 0]], "ploidy": 2, "mkrwt": [[1], [2], [4]],
                             "tfreq": [["1/4"], ["3/4"], ["1/2"]]}})
        # the class that is "still under construction": no objective exists
        out.append({"kind": "unimplemented", "cls": "MultiObjectiveGenomicSubsetMatingProblem"})
        out.append({"kind": "guard", "crit": "EBV", "data": {"D": D}, "enc": "binary", "x": [0, 0, 0, 0]})
        out.append({"kind": "guard", "crit": "GEBV", "data": {"D": D}, "enc": "real",
                    "x": ["1/100000000000000", 0, 0, 0]})
        from . import c05_factories
        return out + c05_factories.corpus()

    def generate(self, rng, n, tier):
        from . import c05_factories
        out = []
        crits = list(CRITS)
        combos = list(c05_factories.COMBOS)
        nfac = 0
        for i in range(n):
            r = rng.random()
            if r < 0.02:
                out.append(gen_lookahead_case(rng))
            elif r < 0.24:
                # cycle through the (factory, criterion) pairs as well
                if nfac < 3 * len(combos):
                    out.append(c05_factories.gen_case(rng, *combos[nfac % len(combos)]))
                else:
                    out.append(c05_factories.gen_case(rng))
                nfac += 1
            elif r < 0.70:
                # cycle through the table so that every class is met in every run
                out.append(gen_latent_case(rng, crits[i % len(crits)] if i < 3 * len(crits) else None))
            elif r < 0.97:
                out.append(gen_eval_case(rng))
            else:
                crit = rng.choice(sorted(GUARDED))
                data = gen_data(rng, crit)
                nn = ncand(crit, data)
                enc = rng.choice(["real", "binary", "integer"])
                x = [0] * nn
                if enc == "real" and rng.random() < 0.6:
                    x[rng.randrange(nn)] = canon.enc(Fraction(rng.randint(1, 9), 10 ** rng.choice([11, 12, 15])))
                out.append({"kind": "guard", "crit": crit, "data": data, "enc": enc, "x": x})
        return out

    def exhaustive(self, tier):
        """thorough tier: for every criterion one fixed 4-candidate data set and *all* 15 non-empty parent sets"""
        if tier != "thorough":
            return None
        import itertools
        import random
        out = []
        for ci, crit in enumerate(CRITS):
            rng = random.Random(4242 + ci)
            data = gen_data(rng, crit, 4)
            if crit == "GB":
                data["nbest"] = 1
            for k in range(1, 5):
                for S in itertools.combinations(range(4), k):
                    out.append({"kind": "latent", "crit": crit, "data": data, "S": list(S), "perm": list(S)[::-1],
                                "a": "3/2"})
        return out

    # ------------------------------------------------------------------ implementation
    def _latent_evals(self, case):
        """[(tag, encoding, decision, group)] the decisions one latent case is evaluated on"""
        crit = case["crit"]
        n = ncand(crit, case["data"])
        S = case["S"]
        k = len(S)
        ev = [("subset", "subset", S, "set"), ("subset_perm", "subset", case["perm"], "set")]
        if len(CRITS[crit]["classes"]) > 1:
            ind = indicator(n, S)
            unit = [canon.enc(Fraction(v, k)) for v in ind]
            ev += [("integer", "integer", ind, "set"), ("binary", "binary", ind, "set"),
                   ("real", "real", unit, "set"), ("real_scaled", "real", scaled(ind, case["a"]), "set")]
            if "x" in case:
                ev += [("v_integer", "integer", case["x"], "vec"), ("v_real", "real", case["x"], "vec"),
                       ("v_real_scaled", "real", scaled(case["x"], case["a"]), "vec")]
            if "xr" in case:
                ev += [("r_real", "real", case["xr"], "rvec"),
                       ("r_real_scaled", "real", scaled(case["xr"], case["a"]), "rvec")]
        return ev

    def run_impl(self, case):
        kind = case["kind"]
        if kind == "latent":
            crit, data = case["crit"], case["data"]
            probs = {}
            obs = {}
            for tag, enc, dv, _ in self._latent_evals(case):
                key = (enc, len(dv) if enc == "subset" else 0)
                if key not in probs:
                    probs[key] = build(crit, enc, data, k=len(dv))
                x = decision(enc, dv)
                x0 = x.copy()
                obs[tag] = canon.enc(numpy.asarray(probs[key].latentfn(x), dtype=float))
                if not (x0 == x).all():
                    obs["__mutated__"] = tag
            return obs
        if kind == "guard":
            p = build(case["crit"], case["enc"], case["data"])
            return {"latent": canon.enc(numpy.asarray(p.latentfn(decision(case["enc"], case["x"])), dtype=float))}
        if kind == "evalfn":
            return self._run_evalfn(case)
        if kind == "unimplemented":
            return self._run_unimplemented(case)
        if kind == "lookahead":
            return self._run_lookahead(case)
        if kind == "factory":
            from . import c05_factories
            return c05_factories.run(case)
        raise ValueError(kind)

    def _run_unimplemented(self, case):
        """MultiObjectiveGenomicSubsetMatingProblem: `latentfn` raises unconditionally ("STILL UNDER CONSTRUCTION",
        `raise Exception('implement extraction of parents from xmap')`) and `from_object` cannot supply the
        mandatory `decn_space_xmap` — the class has no objective to compare with a definition."""
        mod = _mod("MultiObjectiveGenomicMatingProblem")
        cls = getattr(mod, case["cls"])
        p = cls(geno=numpy.array([[2, 0], [1, 1], [0, 2]], dtype="int8"), ploidy=2, mkrwt=numpy.array([[1.0], [2.0]]),
                tfreq=numpy.array([[0.5], [1.0]]), decn_space_xmap=numpy.array([[0, 1], [0, 2], [1, 2]]),
                ndecn=2, decn_space=numpy.arange(3), decn_space_lower=None, decn_space_upper=None, nobj=2)
        out = {}
        try:
            p.latentfn(numpy.array([0, 1]))
            out["latentfn"] = "returned"
        except Exception as e:      # noqa: BLE001 - the documented behaviour is a bare Exception
            out["latentfn"] = f"{type(e).__name__}: {e}"
        return out

    def _run_lookahead(self, case):
        from . import c05_factories as CF
        compat.import_pybrops()
        from pybrops.breed.prot.mate.MatingProtocol import MatingProtocol
        mod = _mod("RealLookAheadGeneralizedWeightedGenomicSelectionProblem")
        fp = case["founders"]
        g0 = CF.make_pgmat(fp, True)
        gm = CF.make_gpmod(fp)
        steps = []
        ngen = len(case["x"])

        class Stub(MatingProtocol):
            nparent = 2

            def __init__(self):
                self.i = 0

            def mate(self, pgmat, xconfig, nmating, nprogeny, miscout, **kw):
                sim, gen = divmod(self.i, ngen)
                self.i += 1
                ff = gm.fafreq(pgmat)
                steps.append({"Z": canon.enc(numpy.asarray(pgmat.mat_asformat("{0,1,2}")).astype(int)),
                              "fafreq": canon.enc(numpy.asarray(ff, dtype=float)),
                              "sel": sorted(int(v) for v in numpy.asarray(xconfig).ravel()),
                              "nmating": int(nmating), "nprogeny": int(nprogeny)})
                gg = case["gens"][sim][gen]
                q = dict(fp, geno=gg, taxa_grp=[1] * len(gg[0]))
                return CF.make_pgmat(q, True)
        n0 = len(fp["geno"][0])
        p = mod.RealLookAheadGeneralizedWeightedGenomicSelectionProblem(
            fndr_pgmat=g0, fndr_algmod=gm, mtprot=Stub(), nparent=case["nparent"], ncross=1, nprogeny=3,
            nsimul=len(case["gens"]), ndecn=ngen, decn_space=numpy.array([[0.0] * ngen, [1.0] * ngen]),
            decn_space_lower=0.0, decn_space_upper=1.0, nobj=2)
        state = numpy.random.get_state()
        numpy.random.seed(777)                      # the code shuffles the selected indices with the global stream
        try:
            lat = p.latentfn(numpy.array([_f(v) for v in case["x"]]))
        finally:
            numpy.random.set_state(state)
        return {"latent": canon.enc(numpy.asarray(lat, dtype=float)), "steps": steps, "n0": n0}

    def _run_evalfn(self, case):
        crit, enc, data = case["crit"], case["enc"], case["data"]
        logs = {r: [] for r in ("obj", "ineqcv", "eqcv")}
        std = {}
        for r in ("obj", "ineqcv", "eqcv"):
            fn, kw = make_trans(case[r + "_trans"], logs[r])
            std[r + "_trans"] = fn
            std[r + "_trans_kwargs"] = kw
            std[r + "_wt"] = numpy.array([_f(v) for v in case[r + "_wt"]], dtype=float)
        std["nobj"] = len(case["obj_wt"])
        std["nineqcv"] = len(case["ineqcv_wt"])
        std["neqcv"] = len(case["eqcv_wt"])
        X = case["X"]
        p = build(crit, enc, data, k=len(X[0]), **std)
        rows = []
        for xv in X:
            x = decision(enc, xv)
            lat = numpy.asarray(p.latentfn(x), dtype=float)
            for r in logs:
                logs[r].clear()
            o, g, h = p.evalfn(x)
            rows.append({"latent": canon.enc(lat), "obj": canon.enc(numpy.asarray(o, dtype=float)),
                         "ineqcv": canon.enc(numpy.asarray(g, dtype=float)),
                         "eqcv": canon.enc(numpy.asarray(h, dtype=float)),
                         "calls": {r: list(logs[r]) for r in logs}})
        Xa = numpy.stack([decision(enc, xv) for xv in X])
        res = p.evaluate(Xa, return_as_dictionary=True)
        batch = {k2: canon.enc(numpy.asarray(res[k2], dtype=float)) for k2 in ("F", "G", "H") if res.get(k2) is not None}
        res1 = p.evaluate(decision(enc, X[0]), return_as_dictionary=True)      # a single decision vector
        single = {k2: canon.enc(numpy.asarray(res1[k2], dtype=float)) for k2 in ("F", "G", "H") if res1.get(k2) is not None}
        return {"rows": rows, "batch": batch, "single": single}

    # ------------------------------------------------------------------ model requests
    def requests(self, case, obs):
        kind = case["kind"]
        if kind == "latent":
            crit = CRITS[case["crit"]]["crit"](case["data"])
            n = ncand(case["crit"], case["data"])
            reqs = []
            groups = {}
            for tag, enc, dv, grp in self._latent_evals(case):
                reqs.append(dict(crit, op="c05.latent", **({"S": dv} if enc == "subset" else {"x": dv})))
                groups.setdefault(grp, []).append(tag)
            for grp, tags in groups.items():
                if grp == "set":
                    k = len(case["S"])
                    sh = [canon.enc(Fraction(v, k)) for v in indicator(n, case["S"])]
                else:
                    x = [Fraction(v) for v in case["x" if grp == "vec" else "xr"]]
                    tot = sum(x)
                    sh = [canon.enc(v / tot) for v in x]
                supp = [i for i, v in enumerate(sh) if Fraction(v) > 0]
                reqs.append(dict(crit, op="c05.spec_latent", shares=sh, supp=supp,
                                 reported=[obs[t] for t in tags if _finite(obs[t])]))
            return reqs
        if kind == "guard":
            crit = CRITS[case["crit"]]["crit"](case["data"])
            return [dict(crit, op="c05.latent", x=case["x"])]
        if kind == "unimplemented":
            return []
        if kind == "lookahead":
            from . import c05_factories as CF
            u = case["founders"]["u"]
            ngen = len(case["x"])
            reqs = []
            for i, st in enumerate(obs["steps"]):
                alpha = case["x"][i % ngen]
                ff = numpy.array([[_f(v) for v in r] for r in st["fafreq"]])
                ff[ff <= 0] = 1.0
                reqs.append({"op": "c05.la_step", "Z": st["Z"], "u": u, "pw": canon.enc(numpy.power(ff, -_f(alpha))),
                             "nparent": case["nparent"]})
            finals = [[[a + b for a, b in zip(r0, r1)] for r0, r1 in zip(g[-1][0], g[-1][1])] for g in case["gens"]]
            reqs.append({"op": "c05.la_latent", "ploidy": 2, "u": u, "finals": finals})
            return reqs
        if kind == "evalfn":
            reqs = []
            if all(case[r + "_trans"]["t"] in TRANS_BUILTIN for r in ("obj", "ineqcv", "eqcv")):
                for xv, row in zip(case["X"], obs["rows"]):
                    if not _finite(row["latent"]):
                        continue
                    reqs.append({"op": "c05.evalfn", "x": xv, "latent": row["latent"],
                                 **{r + "_wt": case[r + "_wt"] for r in ("obj", "ineqcv", "eqcv")},
                                 **{r + "_trans": case[r + "_trans"] for r in ("obj", "ineqcv", "eqcv")}})
            return reqs
        if kind == "factory":
            from . import c05_factories
            return c05_factories.requests(case, obs)
        raise ValueError(kind)

    # ------------------------------------------------------------------ verdicts
    def judge(self, case, obs, answers):
        kind = case["kind"]
        if kind == "latent":
            return self._judge_latent(case, obs, answers)
        if kind == "guard":
            a = answers[0]
            if "err" in a:
                raise RuntimeError("driver error: " + a["err"])
            corr = _close_vec(a["ok"], obs["latent"])
            return {"corr": corr, "spec": True, "nontrivial": False,
                    "detail": f"guard[{case['crit']}/{case['enc']}] model={a['ok']} impl={obs['latent']}"}
        if kind == "evalfn":
            return self._judge_evalfn(case, obs, answers)
        if kind == "lookahead":
            return self._judge_lookahead(case, obs, answers)
        if kind == "unimplemented":
            ok = obs["latentfn"].startswith("Exception: implement extraction of parents")
            return {"corr": ok, "spec": True, "nontrivial": False,
                    "detail": f"{case['cls']}.latentfn -> {obs['latentfn']} (no objective implemented; the model has no "
                              f"criterion for it either)"}
        if kind == "factory":
            from . import c05_factories
            return c05_factories.judge(case, obs, answers)
        raise ValueError(kind)

    def _judge_lookahead(self, case, obs, answers):
        bad_corr, bad_spec = [], []
        for a in answers:
            if "err" in a:
                raise RuntimeError("driver error: " + a["err"])
        ngen = len(case["x"])
        if len(obs["steps"]) != ngen * len(case["gens"]):
            bad_spec.append(f"{len(obs['steps'])} matings for {len(case['gens'])} simulations x {ngen} generations")
        for st, a in zip(obs["steps"], answers[:-1]):
            sc = [Fraction(v) for v in a["ok"]["scores"]]
            sel = st["sel"]
            k = min(case["nparent"], len(sc))
            # Spec: the selected set is a top-k set of the weighted breeding values (ties may go either way)
            tol = Fraction(1, 10 ** 9) * max([abs(v) for v in sc] + [Fraction(1)])     # float ties (irrational weights)
            if len(set(sel)) != k or any(i < 0 or i >= len(sc) for i in sel) or \
                    (sel and min(sc[i] for i in sel) + tol <
                     max([sc[i] for i in range(len(sc)) if i not in sel], default=min(sc))):
                bad_spec.append(f"selected {sel} is not a top-{k} set of the weighted breeding values {a['ok']['scores']}")
            srt = sorted(sc)
            distinct = all(b - a > tol for a, b in zip(srt, srt[1:]))
            if distinct and sorted(a["ok"]["sel"]) != sel:
                bad_corr.append(f"selection model={sorted(a['ok']['sel'])} impl={sel}")
            if st["nmating"] != 1 or st["nprogeny"] != 3:
                bad_spec.append(f"mate() called with ncross={st['nmating']} nprogeny={st['nprogeny']}")
        m = answers[-1]["ok"]
        if not _close_vec(m, obs["latent"]):
            bad_corr.append(f"latent model={m} impl={obs['latent']}")
        # definition, exact: minus the mean (over simulations) genotypic value of the last generation and
        # minus the mean upper selection limit term
        u = [Fraction(r[0]) for r in case["founders"]["u"]]
        gains, usls = [], []
        for g in case["gens"]:
            Z = [[a + b for a, b in zip(r0, r1)] for r0, r1 in zip(g[-1][0], g[-1][1])]
            n = len(Z)
            gains.append(sum(sum(Fraction(z) * um for z, um in zip(row, u)) for row in Z) / n)
            tot = Fraction(0)
            for mi, um in enumerate(u):
                pf = Fraction(sum(row[mi] for row in Z), 2 * n)
                ok = (pf > 0) if um > 0 else (pf >= 1)
                tot += 2 * um * (1 if ok else 0)
            usls.append(tot)
        want = [canon.enc(-sum(gains) / len(gains)), canon.enc(-sum(usls) / len(usls))]
        if not _close_vec(want, obs["latent"]):
            bad_spec.append(f"latent {obs['latent']} is not [-mean gain, -mean selection-limit term] = {want}")
        return {"corr": not bad_corr, "spec": not bad_spec, "nontrivial": True,
                "detail": "lookahead " + ("; ".join(bad_spec + bad_corr)[:1200] if (bad_spec or bad_corr) else "ok")}

    def _judge_latent(self, case, obs, answers):
        evs = self._latent_evals(case)
        bad_corr, bad_spec = [], []
        if "__mutated__" in obs:
            bad_spec.append("decision vector modified in place by " + obs["__mutated__"])
        for (tag, enc, dv, grp), a in zip(evs, answers):
            if "err" in a:
                raise RuntimeError(f"driver error on {tag}: {a['err']}")
            if not _close_vec(a["ok"], obs[tag]):
                bad_corr.append(f"{tag}: model={a['ok']} impl={obs[tag]}")
            if not _finite(obs[tag]):
                bad_spec.append(f"{tag}: non-finite latent value {obs[tag]}")
        grp_tags = {}
        for tag, enc, dv, grp in evs:
            grp_tags.setdefault(grp, []).append(tag)
        for (grp, tags), a in zip(grp_tags.items(), answers[len(evs):]):
            if "err" in a:
                raise RuntimeError(f"driver error on spec[{grp}]: {a['err']}")
            fin = [t for t in tags if _finite(obs[t])]
            for ix in a["ok"]["bad"]:
                bad_spec.append(f"{fin[ix]}: latent {obs[fin[ix]]} is not the definition {a['ok']['definition']} "
                                f"(entries a+b*sqrt(q) as [a,b,q])")
        n = ncand(case["crit"], case["data"])
        nz = any(Fraction(v) != 0 for v in obs["subset"] if not isinstance(canon.dec(v), str))
        return {"corr": not bad_corr, "spec": not bad_spec, "nontrivial": n >= 2 and nz,
                "detail": f"latent[{case['crit']}] " + "; ".join(bad_spec + bad_corr)[:1500] if (bad_corr or bad_spec)
                else f"latent[{case['crit']}] {len(evs)} evaluations agree with model and definition"}

    def _judge_evalfn(self, case, obs, answers):
        bad_corr, bad_spec = [], []
        ai = 0
        builtin = all(case[r + "_trans"]["t"] in TRANS_BUILTIN for r in ("obj", "ineqcv", "eqcv"))
        for xv, row in zip(case["X"], obs["rows"]):
            lat = row["latent"]
            if not _finite(lat):
                bad_spec.append(f"non-finite latent {lat}")
                continue
            if builtin:
                a = answers[ai]
                ai += 1
                if "err" in a:
                    raise RuntimeError("driver error: " + a["err"])
                for r in ("obj", "ineqcv", "eqcv"):
                    if not _close_vec(a["ok"][r], row[r], 1e-12, 1e-15):
                        bad_corr.append(f"{r}: model={a['ok'][r]} impl={row[r]}")
            for r in ("obj", "ineqcv", "eqcv"):
                # Spec: exactly weight * declared transformation of (x, latentfn(x)), declared kwargs handed over
                want_t = ref_trans(case[r + "_trans"], xv, lat)
                want = [canon.enc(Fraction(w) * v) for w, v in zip(case[r + "_wt"], want_t)]
                if len(want) != len(case[r + "_wt"]) or not _close_vec(want, row[r], 1e-12, 1e-15):
                    bad_spec.append(f"{r}: reported {row[r]} but weight*transformation(latent) = {want}")
                calls = row["calls"][r]
                if len(calls) != 1:
                    bad_spec.append(f"{r}: transformation called {len(calls)} times")
                else:
                    c = calls[0]
                    if not _close_vec(c["x"], [canon.enc(Fraction(v)) for v in xv], 0, 0):
                        bad_spec.append(f"{r}: transformation received decision vector {c['x']}, not {xv}")
                    if not _close_vec(c["latent"], lat, 0, 0):
                        bad_spec.append(f"{r}: transformation received latent {c['latent']}, latentfn gives {lat}")
                    want_kw = {"dot": ["latentvec_wt"], "decn_sum_eq": ["decnvec_sum"], "penalty": ["thr"],
                               "affine": ["c", "m"]}.get(case[r + "_trans"]["t"], [])
                    if c["kwargs"] != want_kw:
                        bad_spec.append(f"{r}: transformation received keyword arguments {c['kwargs']}, declared {want_kw}")
        # batch path
        names = {"F": "obj", "G": "ineqcv", "H": "eqcv"}
        for key, r in names.items():
            want = [row[r] for row in obs["rows"]]
            got = obs["batch"].get(key)
            if len(case[r + "_wt"]) == 0:
                continue
            if got is None or len(got) != len(want) or not all(_close_vec(g, w, 1e-12, 1e-15) for g, w in zip(got, want)):
                bad_spec.append(f"evaluate(X)[{key}] = {got} but row-wise evalfn gives {want}")
            got1 = obs.get("single", {}).get(key)
            if got1 is None or not _close_vec(got1, want[0], 1e-12, 1e-15):
                bad_spec.append(f"evaluate(x)[{key}] = {got1} but evalfn gives {want[0]}")
        nl = nlatent(case["crit"], case["data"])
        return {"corr": not bad_corr, "spec": not bad_spec,
                "nontrivial": ncand(case["crit"], case["data"]) >= 2 and nl >= 1,
                "detail": f"evalfn[{case['crit']}/{case['enc']}] " + ("; ".join(bad_spec + bad_corr)[:1500]
                                                                      if (bad_spec or bad_corr) else "ok")}

    # ------------------------------------------------------------------ findings / shrinking
    def signature(self, case, obs, verdict):
        sig = {"kind": case.get("kind"), "crit": case.get("crit")}
        if case.get("kind") == "factory":
            sig["factory"] = case.get("factory")
            from . import c05_factories
            sig.update(c05_factories.signature(case, obs, verdict))
        return sig

    def shrink(self, case):
        kind = case.get("kind")
        if kind == "latent":
            S = case["S"]
            for i in range(len(S)):
                if len(S) > 1:
                    c = dict(case)
                    c["S"] = S[:i] + S[i + 1:]
                    c["perm"] = [v for v in case["perm"] if v != S[i]]
                    yield c
            for key in ("x", "xr"):
                if key in case:
                    c = dict(case)
                    del c[key]
                    yield c
            d = case["data"]
            if case["crit"] in ("PAFD", "PAU", "MOGS") and len(d["mkrwt"]) > 1:
                for m in range(len(d["mkrwt"])):
                    c = dict(case)
                    c["data"] = dict(d, geno=[r[:m] + r[m + 1:] for r in d["geno"]],
                                     mkrwt=d["mkrwt"][:m] + d["mkrwt"][m + 1:], tfreq=d["tfreq"][:m] + d["tfreq"][m + 1:])
                    yield c
            if case["crit"] in ("PAFD", "PAU", "MOGS") and len(d["mkrwt"][0]) > 1:
                c = dict(case)
                c["data"] = dict(d, mkrwt=[r[:1] for r in d["mkrwt"]], tfreq=[r[:1] for r in d["tfreq"]])
                yield c
        elif kind == "evalfn":
            if len(case["X"]) > 1:
                for i in range(len(case["X"])):
                    c = dict(case)
                    c["X"] = case["X"][:i] + case["X"][i + 1:]
                    yield c
        elif kind == "factory":
            from . import c05_factories
            yield from c05_factories.shrink(case)

    # ------------------------------------------------------------------ self-test mutants
    def mutants(self):
        from . import c05_mutants
        return c05_mutants.mutants()


PROP = C05()
