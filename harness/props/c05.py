"""C05 — selection objectives mean what they say in every decision encoding.

Table-driven adapter over the concrete *SelectionProblem classes of pybrops.breed.prot.sel.prob:
every criterion has one entry (`CRITS`) that says which classes implement it in which decision
encoding, how to build them from plain data and how the same data is handed to the Lean model
(`lean/PybropsModel/Model/Selection.lean`, driver ops `c05.*`).
"""
import contextlib
import importlib
import math
from fractions import Fraction

import numpy

from .. import canon, compat
from ..core import Prop

compat.install()

PKG = "pybrops.breed.prot.sel.prob."
ENCODINGS = ("subset", "real", "integer", "binary")


def F(x, d=1):
    return Fraction(x, d)


def _f(x):
    return float(Fraction(x))


def _arr(a, dtype=float):
    """nested list of canonical rationals -> numpy array"""
    def conv(v):
        if isinstance(v, list):
            return [conv(u) for u in v]
        return _f(v)
    out = numpy.array(conv(a), dtype=float)
    if dtype is not float:
        out = out.astype(dtype)
    return out


def _mod(name):
    compat.import_pybrops()
    return importlib.import_module(PKG + name)


# --------------------------------------------------------------------------------------------
# criterion table
#   module     : file under sel/prob
#   classes    : encoding -> class name
#   data       : names of the data arrays of a case (case["data"][name])
#   ctor       : data dict (numpy) -> constructor keyword arguments (besides the standard ones)
#   crit       : data dict (canonical JSON) -> criterion fields of the driver request
#   mate       : decision variables index crosses (needs decn_space_xmap)
# --------------------------------------------------------------------------------------------
def _lin(modname, stem, attr, guard, mate=False, kw=None):
    """a criterion whose latent vector is minus the contribution-weighted mean of the rows of one matrix"""
    return {"module": modname, "classes": {e: f"{stem}{e.capitalize()}SelectionProblem" for e in ENCODINGS},
            "data": ["D"], "mate": mate, "attr": attr,
            "ctor": (lambda d, _a=(kw or attr): {_a: d["D"]}),
            "crit": (lambda d, _g=guard: {"crit": "lin", "guard": _g, "D": d["D"]})}


CRITS = {
    "EBV": _lin("EstimatedBreedingValueSelectionProblem", "EstimatedBreedingValue", "ebv", True),
    "GEBV": _lin("GenomicEstimatedBreedingValueSelectionProblem", "GenomicEstimatedBreedingValue", "gebv", True),
    "WGEBV": _lin("WeightedGenomicSelectionProblem", "WeightedGenomic", "gwgebv", True, kw="wgebv"),
    "GWGEBV": _lin("GeneralizedWeightedGenomicEstimatedBreedingValueSelectionProblem",
                   "GeneralizedWeightedGenomicEstimatedBreedingValue", "gwgebv", True),
    "RANDOM": _lin("RandomSelectionProblem", "Random", "rbv", True),
    "EMBV": _lin("ExpectedMaximumBreedingValueSelectionProblem", "ExpectedMaximumBreedingValue", "embv", True,
                 mate=True),
    "OHV": _lin("OptimalHaploidValueSelectionProblem", "OptimalHaploidValue", "ohvmat", False, mate=True),
    "UC": {"module": "UsefulnessCriterionSelectionProblem",
           "classes": {e: f"UsefulnessCriterion{e.capitalize()}MateSelectionProblem" for e in ENCODINGS},
           "data": ["D"], "mate": True, "attr": "ucmat",
           "ctor": lambda d: {"ucmat": d["D"]},
           "crit": lambda d: {"crit": "lin", "guard": False, "D": d["D"]}},
    "OCS": {"module": "OptimalContributionSelectionProblem",
            "classes": {e: f"OptimalContribution{e.capitalize()}SelectionProblem" for e in ENCODINGS},
            "data": ["C", "D"], "mate": False,
            "ctor": lambda d: {"ebv": d["D"], "C": d["C"]},
            "crit": lambda d: {"crit": "ocs", "C": d["C"], "D": d["D"]}},
    "MGR": {"module": "MeanGenomicRelationshipSelectionProblem",
            "classes": {e: f"MeanGenomicRelationship{e.capitalize()}SelectionProblem" for e in ENCODINGS},
            "data": ["C"], "mate": False,
            "ctor": lambda d: {"C": d["C"]},
            "crit": lambda d: {"crit": "mgr", "C": d["C"]}},
    "MEH": {"module": "MeanExpectedHeterozygositySelectionProblem",
            "classes": {e: f"MeanExpectedHeterozygosity{e.capitalize()}SelectionProblem" for e in ENCODINGS},
            "data": ["C"], "mate": False,
            "ctor": lambda d: {"C": d["C"]},
            "crit": lambda d: {"crit": "meh", "C": d["C"]}},
    "L1": {"module": "L1NormGenomicSelectionProblem",
           "classes": {e: f"L1NormGenomic{e.capitalize()}SelectionProblem" for e in ENCODINGS},
           "data": ["V"], "mate": False,
           "ctor": lambda d: {"V": d["V"]},
           "crit": lambda d: {"crit": "l1", "V": d["V"]}},
    "L2": {"module": "L2NormGenomicSelectionProblem",
           "classes": {e: f"L2NormGenomic{e.capitalize()}SelectionProblem" for e in ENCODINGS},
           "data": ["C3"], "mate": False,
           "ctor": lambda d: {"C": d["C3"]},
           "crit": lambda d: {"crit": "l2", "C": d["C3"]}},
    "FAMILY": {"module": "FamilyEstimatedBreedingValueSelectionProblem",
               "classes": {e: f"FamilyEstimatedBreedingValue{e.capitalize()}SelectionProblem" for e in ENCODINGS},
               "data": ["D", "familyid"], "mate": False,
               "ctor": lambda d: {"ebv": d["D"], "familyid": d["familyid"]},
               "crit": lambda d: dict(crit="family", D=d["D"], **_family_index(d["familyid"]))},
    "OPV": {"module": "OptimalPopulationValueSelectionProblem",
            "classes": {"subset": "OptimalPopulationValueSubsetSelectionProblem"},
            "data": ["H"], "mate": False,
            "ctor": lambda d: {"haplomat": d["H"]},
            "crit": lambda d: {"crit": "opv", "H": d["H"]}},
    "GB": {"module": "GenotypeBuilderSelectionProblem",
           "classes": {"subset": "GenotypeBuilderSubsetSelectionProblem"},
           "data": ["H", "nbest"], "mate": False,
           "ctor": lambda d: {"haplomat": d["H"], "nbestfndr": d["nbest"]},
           "crit": lambda d: {"crit": "gb", "H": d["H"], "nbest": d["nbest"]}},
    "PAFD": {"module": "PopulationAlleleFrequencyDistanceSelectionProblem",
             "classes": {"subset": "PopulationAlleleFrequencyDistanceSubsetSelectionProblem"},
             "data": ["geno", "ploidy", "mkrwt", "tfreq"], "mate": False,
             "ctor": lambda d: {k: d[k] for k in ("geno", "ploidy", "mkrwt", "tfreq")},
             "crit": lambda d: dict(crit="pafd", **{k: d[k] for k in ("geno", "ploidy", "mkrwt", "tfreq")})},
    "PAU": {"module": "PopulationAlleleUnavailabilitySelectionProblem",
            "classes": {"subset": "PopulationAlleleUnavailabilitySubsetSelectionProblem"},
            "data": ["geno", "ploidy", "mkrwt", "tfreq"], "mate": False,
            "ctor": lambda d: {k: d[k] for k in ("geno", "ploidy", "mkrwt", "tfreq")},
            "crit": lambda d: dict(crit="pau", **{k: d[k] for k in ("geno", "ploidy", "mkrwt", "tfreq")})},
    "MOGS": {"module": "MultiObjectiveGenomicSelectionProblem",
             "classes": {"subset": "MultiObjectiveGenomicSubsetSelectionProblem"},
             "data": ["geno", "ploidy", "mkrwt", "tfreq"], "mate": False,
             "ctor": lambda d: {k: d[k] for k in ("geno", "ploidy", "mkrwt", "tfreq")},
             "crit": lambda d: dict(crit="mogs", **{k: d[k] for k in ("geno", "ploidy", "mkrwt", "tfreq")})},
}
GUARDED = {"EBV", "GEBV", "WGEBV", "GWGEBV", "RANDOM", "EMBV", "OCS", "MGR", "MEH"}
NCLASSES = sum(len(c["classes"]) for c in CRITS.values())


def _family_index(familyid):
    """numpy.unique(familyid, return_inverse=True) recomputed without numpy"""
    ids = [int(v) for v in familyid]
    fam = sorted(set(ids))
    return {"fix": [fam.index(v) for v in ids], "nfam": len(fam)}


def ncand(crit, data):
    """number of candidates (taxa or crosses) the data covers"""
    if crit in ("OCS", "MGR", "MEH"):
        return len(data["C"][0])
    if crit == "L1":
        return len(data["V"][0][0])
    if crit == "L2":
        return len(data["C3"][0][0])
    if crit in ("OPV", "GB"):
        return len(data["H"][0])
    if crit in ("PAFD", "PAU", "MOGS"):
        return len(data["geno"])
    return len(data["D"])


def nlatent(crit, data):
    if crit in ("MGR", "MEH"):
        return 1
    if crit == "OCS":
        return 1 + len(data["D"][0])
    if crit == "L1":
        return len(data["V"])
    if crit == "L2":
        return len(data["C3"])
    if crit == "FAMILY":
        return len(data["D"][0]) + len(set(int(v) for v in data["familyid"]))
    if crit in ("OPV", "GB"):
        return len(data["H"][0][0][0])
    if crit in ("PAFD", "PAU"):
        return len(data["mkrwt"][0])
    if crit == "MOGS":
        return 2 * len(data["mkrwt"][0])
    return len(data["D"][0])


def relayout(a, layout):
    """the same values in another memory layout: "F" = Fortran order, "strided" = a non-contiguous view (every
    second element along each of the first two axes of a larger buffer), "neg" = a reversed-stride view"""
    if layout in (None, "C") or a.ndim == 0:
        return a
    if layout == "F":
        return numpy.asfortranarray(a)
    if layout == "strided":
        big = numpy.full(tuple(2 * s + 1 for s in a.shape[:2]) + a.shape[2:], 77, dtype=a.dtype)
        view = big[1::2, 1::2] if a.ndim >= 2 else big[1::2]
        view[...] = a
        return view
    if layout == "neg":
        return numpy.ascontiguousarray(a[::-1])[::-1]
    raise ValueError(layout)


def np_data(crit, data, layout=None):
    """canonical case data -> numpy arrays as the constructors want them"""
    out = {}
    for k, v in data.items():
        if k in ("ploidy", "nbest"):
            out[k] = int(v)
        elif k == "familyid":
            out[k] = relayout(numpy.array([int(x) for x in v], dtype="int64"), layout)
        elif k == "geno":
            out[k] = relayout(_arr(v, "int8"), layout)
        else:
            out[k] = relayout(_arr(v), layout)
    return out


def build(crit, enc, data, n=None, k=None, xmap=None, layout=None, **std):
    """instantiate the concrete class of criterion `crit` for decision encoding `enc`"""
    spec = CRITS[crit]
    cls = getattr(_mod(spec["module"]), spec["classes"][enc])
    d = np_data(crit, data, layout)
    n = ncand(crit, data) if n is None else n
    kw = dict(spec["ctor"](d))
    if enc == "subset":
        kw.update(ndecn=k, decn_space=numpy.arange(n), decn_space_lower=None, decn_space_upper=None)
    elif enc == "real":
        kw.update(ndecn=n, decn_space=numpy.array([[0.0] * n, [1.0] * n]), decn_space_lower=0.0,
                  decn_space_upper=1.0)
    elif enc == "integer":
        kw.update(ndecn=n, decn_space=numpy.array([[0] * n, [8] * n]), decn_space_lower=0, decn_space_upper=8)
    else:
        kw.update(ndecn=n, decn_space=numpy.array([[0] * n, [1] * n]), decn_space_lower=0, decn_space_upper=1)
    if spec["mate"]:
        kw["decn_space_xmap"] = numpy.array(xmap if xmap is not None else [[i, (i + 1) % max(n, 1)] for i in range(n)],
                                            dtype="int64").reshape(n, -1)
    std.setdefault("nobj", nlatent(crit, data))
    kw.update(std)
    return cls(**kw)


def decision(enc, v, form=None):
    """canonical decision -> numpy vector of the dtype the encoding uses.  `form`: an integer dtype name
    ("int32", "int8", ...) for the index / count / indicator encodings and / or "strided" (a non-contiguous view)"""
    form = form or {}
    if enc in ("subset", "integer", "binary"):
        vals = [int(Fraction(x)) for x in v]
        dt = form.get("dtype", "int64")
        if dt == "int8" and vals and max(vals) > 127:
            dt = "int64"
        if dt == "bool" and (enc != "binary" or any(v not in (0, 1) for v in vals)):
            dt = "int64"             # boolean vectors: what pymoo's binary operators hand to a binary problem
        if dt == "float64" and enc == "subset":
            dt = "int64"             # whole-valued float vectors: what real-coded operators hand to integer problems
        x = numpy.array(vals, dtype=dt)
    else:
        x = numpy.array([_f(x) for x in v], dtype=float)
    if form.get("strided"):
        big = numpy.full(2 * len(x) + 1, 3, dtype=x.dtype)
        big[1::2] = x
        x = big[1::2]
    return x


def indicator(n, S):
    return [1 if i in S else 0 for i in range(n)]


def scaled(x, a):
    return [canon.enc(Fraction(v) * Fraction(a)) for v in x]


# --------------------------------------------------------------------------------------------
# random data
# --------------------------------------------------------------------------------------------
_STYLE = [None]      # magnitude style of the values drawn by _val: None | "offset" | "tiny" | "huge"


def _val(rng, lo=-6, hi=9):
    v = Fraction(rng.randint(lo * 4, hi * 4), rng.choice([1, 1, 2, 4]))
    st = _STYLE[0]
    if st == "offset":          # a large common offset with small differences (25000 + d): exact in binary64
        v = 25000 + v / 1024
    elif st == "tiny":          # magnitudes around 1e-8 (dyadic, so still exact)
        v = v / 2 ** 27
    elif st == "huge":          # 1e9 +- small
        v = 2 ** 30 + v / 2
    return canon.enc(v)


def gen_data(rng, crit, n=None, style=None, common=False):
    """data of one criterion.  `style`: magnitude of the values (see `_val`); `common`: genotype data dominated by
    one nearly fixed allele (allele counts of a large subset exceed 127)"""
    _STYLE[0] = style
    try:
        return _gen_data(rng, crit, n, common)
    finally:
        _STYLE[0] = None


def _gen_data(rng, crit, n=None, common=False):
    n = n or rng.choice([2, 3, 3, 4, 4, 5, 6, 7])
    t = rng.choice([1, 2, 2, 3])
    if crit in ("EBV", "GEBV", "WGEBV", "GWGEBV", "RANDOM", "EMBV", "OHV", "UC"):
        D = [[_val(rng) for _ in range(t)] for _ in range(n)]
        if rng.random() < 0.1:             # a constant trait column next to varying ones
            j, c = rng.randrange(t), _val(rng)
            for row in D:
                row[j] = c
        return {"D": D}
    if crit in ("OCS", "MGR", "MEH"):
        # upper triangular (the setter demands it), asymmetric, distinct entries
        C = [[(canon.enc(Fraction(rng.randint(1, 12) * rng.choice([1, -1]), rng.choice([1, 2]))) if j >= i else 0)
              for j in range(n)] for i in range(n)]
        d = {"C": C}
        if crit == "OCS":
            d["D"] = [[_val(rng) for _ in range(t)] for _ in range(n)]
        return d
    if crit == "L1":
        m = rng.randint(1, 4)
        return {"V": [[[_val(rng, -4, 4) for _ in range(n)] for _ in range(m)] for _ in range(t)]}
    if crit == "L2":
        # the setter demands square upper-triangular (n x n) slices
        return {"C3": [[[(_val(rng, -4, 4) if j >= i else 0) for j in range(n)] for i in range(n)] for _ in range(t)]}
    if crit == "FAMILY":
        nf = rng.randint(1, min(12, max(1, n - 1)))
        labels = rng.sample(range(1, 40), nf)
        ids = [rng.choice(labels) for _ in range(n)]
        return {"D": [[_val(rng) for _ in range(t)] for _ in range(n)], "familyid": ids}
    if crit in ("OPV", "GB"):
        nb = rng.randint(1, 3)
        d = {"H": [[[[_val(rng) for _ in range(t)] for _ in range(nb)] for _ in range(n)] for _ in range(2)]}
        if crit == "GB":
            d["nbest"] = rng.randint(1, n)
        return d
    if crit in ("PAFD", "PAU", "MOGS"):
        m = rng.randint(3, 6) if common else rng.randint(1, 5)
        ploidy = rng.choice([2, 2, 2, 2, 4, 1])
        if common:
            # one nearly fixed allele: most individuals carry `ploidy` copies
            geno = [[(ploidy if rng.random() < 0.9 else rng.randint(0, ploidy)) for _ in range(m)] for _ in range(n)]
        else:
            geno = [[rng.choice([0, 0] + list(range(ploidy + 1)) + [ploidy]) for _ in range(m)] for _ in range(n)]
        # force fixed loci now and then (all 0 / all ploidy): the boundary of the availability tests
        for j in range(m):
            r = rng.random()
            if r < 0.2:
                for row in geno:
                    row[j] = ploidy
            elif r < 0.4 and not common:
                for row in geno:
                    row[j] = 0
        if common:
            for row in geno:
                row[0] = ploidy
            # nearly fixed loci: everybody carries `ploidy` copies (resp. none) except one or two individuals with one
            # copy less (more) -- frequencies within 1/(ploidy n) of 1 and 0 without being 1 or 0
            for j in range(1, m):
                r = rng.random()
                if r < 0.35:
                    for row in geno:
                        row[j] = ploidy
                    for i in rng.sample(range(n), rng.choice([1, 1, 2])):
                        geno[i][j] = ploidy - 1
                elif r < 0.6:
                    for row in geno:
                        row[j] = 0
                    for i in rng.sample(range(n), rng.choice([1, 1, 2])):
                        geno[i][j] = 1
        # targets: exactly 0, 1/4, 1/2, 3/4, 1 and, now and then, targets within 1e-9 of 0 and 1 (interior targets)
        tf = [F(0), F(1), F(1, 2), F(1, 4), F(3, 4), F(0), F(1), F(1, 2 ** 30), 1 - F(1, 2 ** 30)]
        tfreq = [[canon.enc(rng.choice(tf)) for _ in range(t)] for _ in range(m)]
        if rng.random() < 0.5:
            # planted boundary: an interior target within 1e-9 of 0 (resp. 1) at a locus where nobody (resp. everybody)
            # carries the allele -- unattainable, although the target is "almost" the fixation the population is at
            j0 = rng.randrange(m)
            for row in geno:
                row[j0] = 0
            tfreq[j0][rng.randrange(t)] = canon.enc(F(1, 2 ** 30))
            if m >= 2:
                j1 = rng.choice([j for j in range(m) if j != j0])
                for row in geno:
                    row[j1] = ploidy
                tfreq[j1][rng.randrange(t)] = canon.enc(1 - F(1, 2 ** 30))
        return {"geno": geno, "ploidy": ploidy,
                "mkrwt": [[canon.enc(Fraction(rng.randint(1, 9), rng.choice([1, 2, 4]))) for _ in range(t)]
                          for _ in range(m)],
                "tfreq": tfreq}
    raise ValueError(crit)


BIG_N = {"OCS": 40, "MGR": 40, "MEH": 40, "L2": 24}      # kinship criteria: the Spec forms K = C'C (n^3)


RECIP_SIZES = [49, 98, 103, 107]        # (1.0/k)*k != 1.0 in binary64


def gen_latent_case(rng, crit=None, n=None, big=False, recip=False, scale=None, mid=False, style=None):
    """`big`: a population past the 8-bit limits (more than 127 candidates, subsets of more than 63 / 127
    members, allele counts of the subset above 127, count vectors whose total exceeds 127)"""
    crit = crit or rng.choice(list(CRITS))
    if big:
        n = BIG_N.get(crit, rng.choice([130, 140, 150]))
    elif mid:
        n = rng.choice([50, 53, 60])            # a population just large enough for a subset of 49
    elif style is None and rng.random() < 0.15:
        style = rng.choice(["offset", "tiny", "huge"])
    data = gen_data(rng, crit, n, style=style, common=big or mid)
    n = ncand(crit, data)
    k = rng.randint(1, n)
    if big:
        k = rng.randint(min(n, 129), n) if n > 129 else rng.randint(n // 2, n)
        if recip and n > 107:
            k = rng.choice(RECIP_SIZES)         # subset sizes whose float reciprocal is inexact
        elif crit in ("PAFD", "PAU", "MOGS"):
            k = n                               # everybody: the one or two carriers that keep a locus from fixation are in
        if crit == "GB":
            data["nbest"] = rng.randint(1, k)
    elif mid:
        k = 49
        if crit == "GB":
            data["nbest"] = rng.randint(1, k)
    if crit == "GB":
        k = rng.randint(int(data["nbest"]), n)       # nbestfndr founders are taken out of the k selected
    S = rng.sample(range(n), k)
    perm = list(S)
    rng.shuffle(perm)
    # rescaling factors: moderate ones and (dyadic) extreme ones that bring the total of a vector near 1e-6 .. 1e-9
    # (still >= 1e-10, the classes' own guard) or to 1e6
    a = rng.choice([F(2), F(3), F(1, 2), F(5, 4), F(7), F(1, 8), F(1, 2 ** 20), F(1, 2 ** 27), F(1, 2 ** 29), F(2 ** 20)])
    if scale == "tiny":
        a = rng.choice([F(1, 2 ** 27), F(1, 2 ** 29)])
    elif scale == "huge":
        a = F(2 ** 20)
    case = {"kind": "latent", "crit": crit, "data": data, "S": S, "perm": perm, "a": canon.enc(a)}
    if len(CRITS[crit]["classes"]) > 1:
        x = [rng.choice([0, 0, 1, 2, 3, 5]) for _ in range(n)]
        if not any(x):
            x[rng.randrange(n)] = 2
        case["x"] = x
        if rng.random() < 0.5:
            case["xr"] = [canon.enc(Fraction(rng.randint(0, 16), 16)) for _ in range(n)]
            if not any(Fraction(v) for v in case["xr"]):
                case["xr"][rng.randrange(n)] = canon.enc(F(3, 8))
    if rng.random() < 0.4:
        case["near1"] = True
    # rarely used argument forms: memory layout of the data arrays, dtype / contiguity of the decision vector
    r = rng.random()
    if r < 0.25:
        case["layout"] = rng.choice(["F", "strided", "neg"])
    r = rng.random()
    if big:
        case["xform"] = {"dtype": "int8"}          # 8-bit index / count / indicator vectors (totals above 127)
    elif r < 0.3:
        case["xform"] = {"dtype": rng.choice(["int32", "int8", "int16", "intp", "bool", "float64", "bool", "float64"])}
        if rng.random() < 0.5:
            case["xform"]["strided"] = True
    elif r < 0.4:
        case["xform"] = {"strided": True}
    return case


TRANS_BUILTIN = ("identity", "sum", "dot", "empty", "decn_sum_eq", "slice", "penalty", "affine")    # all modelled (Trans)


def gen_trans(rng, nl, role):
    """a transformation descriptor and the length of its output"""
    if role == "obj":
        t = rng.choice(["identity", "identity", "identity", "slice", "sum", "dot", "penalty", "affine"])
    else:
        t = rng.choice(["empty", "sum", "dot", "decn_sum_eq", "penalty", "identity", "identity", "slice"])
    if t == "identity":
        return {"t": "identity"}, nl
    if t == "sum":
        return {"t": "sum"}, 1
    if t == "dot":
        return {"t": "dot", "w": [canon.enc(Fraction(rng.randint(-6, 6), 2)) for _ in range(nl)]}, 1
    if t == "empty":
        return {"t": "empty"}, 0
    if t == "decn_sum_eq":
        if rng.random() < 0.25:          # the documented default target: decnvec_sum = 1.0, no keyword argument given
            return {"t": "decn_sum_eq", "target": 1, "default_kw": True}, 1
        return {"t": "decn_sum_eq", "target": canon.enc(Fraction(rng.randint(0, 8), 2))}, 1
    if t == "slice":         # user callable returning a *view* of the latent vector: latent[0:1]
        return {"t": "slice"}, 1
    if t == "penalty":       # user callable with a keyword argument: max(latent - thr, 0)
        return {"t": "penalty", "thr": canon.enc(Fraction(rng.randint(-8, 8), 2))}, nl
    return {"t": "affine", "m": canon.enc(Fraction(rng.randint(1, 5))), "c": canon.enc(Fraction(rng.randint(-3, 3)))}, nl


def gen_eval_case(rng, crit=None, enc=None):
    crit = crit or rng.choice(list(CRITS))
    encs = list(CRITS[crit]["classes"])
    enc = enc or rng.choice(encs)
    # magnitudes: now and then data with a large common offset, around 1e-8 or around 1e9 (see _val)
    data = gen_data(rng, crit, style=(rng.choice(["offset", "tiny", "huge"]) if rng.random() < 0.15 else None))
    n = ncand(crit, data)
    nl = nlatent(crit, data)
    nsol = rng.randint(1, 3)
    X = []
    k = rng.randint(1, n)
    if crit == "GB":
        k = rng.randint(int(data["nbest"]), n)
    for _ in range(nsol):
        if enc == "subset":
            X.append(rng.sample(range(n), k))
        elif enc == "real":
            x = [canon.enc(Fraction(rng.randint(0, 8), 8)) for _ in range(n)]
            if not any(Fraction(v) for v in x):
                x[rng.randrange(n)] = canon.enc(F(1, 2))
            X.append(x)
        elif enc == "integer":
            x = [rng.choice([0, 1, 2, 3]) for _ in range(n)]
            if not any(x):
                x[rng.randrange(n)] = 1
            X.append(x)
        else:
            x = [rng.choice([0, 1]) for _ in range(n)]
            if not any(x):
                x[rng.randrange(n)] = 1
            X.append(x)
    if len(X) >= 2 and rng.random() < 0.35:
        # a batch with repeated rows, in no particular order (evaluate(X) must answer row by row)
        for _ in range(rng.randint(1, 2)):
            X.insert(rng.randrange(len(X) + 1), list(X[rng.randrange(len(X))]))
    case = {"kind": "evalfn", "crit": crit, "enc": enc, "data": data, "X": X}
    if rng.random() < 0.3:
        case["elementwise"] = False

    def weights(ln):
        # distinct weights per role, mixed signs, never 0 or 1 so that a swapped weight vector shows
        return [canon.enc(rng.choice([Fraction(-1), Fraction(-1, 2), Fraction(-1), Fraction(-1, 2)])
                          if rng.random() < 0.35 else
                          Fraction(rng.choice([-3, -2, 2, 3, 5, -5, 7]), rng.choice([1, 2])))
                for _ in range(ln)]
    forms = {}
    for role in ("obj", "ineqcv", "eqcv"):
        tr, ln = gen_trans(rng, nl, role)
        r = rng.random()
        if r < 0.06:
            # transformation left at its default (None): identity for the objectives, empty for the constraints
            tr, ln = {"t": "default"}, (nl if role == "obj" else 0)
        if tr["t"] == "decn_sum_eq" and rng.random() < 0.4:
            # a target within 1e-6 .. 1e-9 of the total of the first decision vector, but not equal to it; for the
            # documented default target (1.0) a real decision vector whose total is 1 - 2^-30
            d = Fraction(rng.choice([1, -1]), 2 ** rng.choice([20, 27, 30]))
            if not tr.get("default_kw"):
                tr = {"t": "decn_sum_eq", "target": canon.enc(abs(sum(Fraction(v) for v in X[0]) + d))}
            elif enc == "real" and n >= 2:
                i, j = rng.sample(range(n), 2)
                X[0] = [0] * n
                X[0][i], X[0][j] = canon.enc(Fraction(1, 2)), canon.enc(Fraction(1, 2) - Fraction(1, 2 ** 30))
        case[role + "_trans"] = tr
        case[role + "_wt"] = weights(ln)
        # rarely used argument forms of the weights: one Real for all entries, or None (= 1.0 everywhere)
        r = rng.random()
        if r < 0.12 and ln > 0:
            forms[role] = "scalar"
            case[role + "_wt"] = [case[role + "_wt"][0]] * ln
        elif r < 0.2:
            forms[role] = "none"
            case[role + "_wt"] = [1] * ln
    if forms:
        case["wt_form"] = forms
    if rng.random() < 0.3:
        # history on one object: weights (and transformation keyword arguments) re-assigned after the first
        # evaluations; the next evaluation must use the new ones
        sec = {}
        for role in ("obj", "ineqcv", "eqcv"):
            sec[role + "_wt"] = weights(len(case[role + "_wt"]))
            tr = dict(case[role + "_trans"])
            if tr["t"] == "dot":
                tr["w"] = [canon.enc(Fraction(rng.randint(-6, 6), 2)) for _ in range(nl)]
            elif tr["t"] == "penalty":
                tr["thr"] = canon.enc(Fraction(rng.randint(-8, 8), 2))
            elif tr["t"] == "decn_sum_eq" and not tr.get("default_kw"):
                tr["target"] = canon.enc(Fraction(rng.randint(0, 8), 2))
            elif tr["t"] == "affine":
                tr["m"], tr["c"] = canon.enc(Fraction(rng.randint(1, 5))), canon.enc(Fraction(rng.randint(-3, 3)))
            if tr["t"] != "default" and rng.random() < 0.35:
                # the transformation FUNCTION itself re-declared (same output length)
                ln = len(case[role + "_wt"])
                if ln == nl and tr["t"] in ("identity", "penalty", "affine"):
                    alt = rng.choice([{"t": "identity"}, {"t": "penalty", "thr": canon.enc(Fraction(rng.randint(-8, 8), 2))},
                                      {"t": "affine", "m": canon.enc(Fraction(rng.randint(2, 5))),
                                       "c": canon.enc(Fraction(rng.randint(-3, 3)))}])
                elif ln == 1 and tr["t"] in ("sum", "dot", "slice", "decn_sum_eq"):
                    alt = rng.choice([{"t": "sum"}, {"t": "slice"},
                                      {"t": "dot", "w": [canon.enc(Fraction(rng.randint(-6, 6), 2)) for _ in range(nl)]},
                                      {"t": "decn_sum_eq", "target": canon.enc(Fraction(rng.randint(0, 8), 2))}])
                else:
                    alt = None
                if alt is not None and alt["t"] != tr["t"]:
                    tr = dict(alt, refn=True)
            sec[role + "_trans"] = tr
        case["second"] = sec
    if rng.random() < 0.2:
        case["layout"] = rng.choice(["F", "strided", "neg"])
    r = rng.random()
    if r < 0.2:
        case["xform"] = {"strided": True}
    elif r < 0.35:
        case["xform"] = {"dtype": rng.choice(["bool", "float64", "int32"])}
    return case


DERIVED_STATE = ("PAU", "PAFD", "MOGS", "FAMILY")           # setters compute masks / indices from the assigned value
INPLACE_UNSAFE = ("tfreq", "familyid", "ploidy", "nbest")    # derived masks / indices are computed by the setters


def gen_reassign_case(rng, crit=None, enc=None, flip=False):
    """history on ONE problem object: query latentfn, replace the data (by assigning the documented properties
    or by editing the held arrays in place), query again.  The second answer must be the definition on the new data."""
    crit = crit or rng.choice(list(CRITS))
    enc = enc or rng.choice(list(CRITS[crit]["classes"]))
    n = rng.choice([3, 4, 5, 6])
    st = rng.getstate()
    data = gen_data(rng, crit, n)
    data2 = gen_data(rng, crit, n)
    # same shapes are needed for the in-place variant: redraw the second data set from the same generator state
    # until the shapes agree (number of traits / markers / blocks are drawn inside gen_data)
    for _ in range(200):
        if _shape(data2) == _shape(data) and nlatent(crit, data2) == nlatent(crit, data):
            break
        data2 = gen_data(rng, crit, n)
    else:
        rng.setstate(st)
        data = gen_data(rng, crit, n)
        data2 = data
    if flip and crit in ("PAU", "PAFD", "MOGS"):
        # the second data set differs from the first in the CATEGORY of the targets only (fixation targets exchanged,
        # interior ones sent to a fixation), at loci the whole population is fixed at: whatever the setter derives from
        # `tfreq` must follow the re-assignment
        import copy
        data = copy.deepcopy(data)
        m = len(data["mkrwt"])
        for row in data["geno"]:
            row[0] = data["ploidy"]
            if m > 1:
                row[1] = 0
        data["tfreq"][0] = [1 for _ in data["tfreq"][0]]
        if m > 1:
            data["tfreq"][1] = [0 for _ in data["tfreq"][1]]
        data2 = copy.deepcopy(data)
        data2["tfreq"] = [[(0 if Fraction(v) >= 1 else 1 if Fraction(v) <= 0 else rng.choice([0, 1])) for v in r]
                          for r in data["tfreq"]]
    k = rng.randint(1, n)
    if crit == "GB":
        k = rng.randint(max(int(data["nbest"]), int(data2["nbest"])), n)
    if enc == "subset":
        decn = rng.sample(range(n), k)
    elif enc == "real":
        decn = [canon.enc(Fraction(rng.randint(0, 8), 8)) for _ in range(n)]
        if not any(Fraction(v) for v in decn):
            decn[rng.randrange(n)] = canon.enc(F(1, 2))
    else:
        decn = [rng.choice([0, 1]) if enc == "binary" else rng.choice([0, 1, 2, 3]) for _ in range(n)]
        if not any(decn):
            decn[rng.randrange(n)] = 1
    return {"kind": "reassign", "crit": crit, "enc": enc, "data": data, "data2": data2, "decn": decn,
            "mode": rng.choice(["assign", "assign", "inplace"]), "prime": rng.choice(["latentfn", "evalfn", "evaluate"])}


def _shape(d):
    def sh(v):
        return (len(v),) + sh(v[0]) if isinstance(v, list) and v else ()
    return {k: sh(v) for k, v in d.items()}


def gen_lookahead_case(rng):
    """RealLookAheadGeneralizedWeightedGenomicSelectionProblem: founders, one trait, the alphas of each simulated
    generation as decision vector, and the (scripted) offspring populations the mating protocol will return"""
    from . import c05_factories as CF
    p = rng.randint(3, 5)
    founders = CF.gen_pop(rng, n=rng.randint(3, 5), p=p, t=1, nchr=1)
    founders["phased"] = True
    ngen = rng.randint(1, 2)
    nsimul = rng.randint(1, 2)
    gens = []
    for _ in range(nsimul):
        row = []
        for _ in range(ngen):
            q = CF.gen_pop(rng, n=rng.randint(3, 4), p=p, t=1, nchr=1)
            row.append(q["geno"])
        gens.append(row)
    return {"kind": "lookahead", "founders": founders, "gens": gens, "nparent": rng.randint(1, 3),
            "x": [canon.enc(rng.choice([F(0), F(1, 2), F(1), F(1, 2)])) for _ in range(ngen)]}


def make_trans(desc, log):
    """descriptor -> (python callable handed to the problem, kwargs dict); calls are logged"""
    compat.import_pybrops()
    import pybrops.breed.prot.sel.prob.trans as T
    t = desc["t"]
    kwargs = {}
    if t == "default":
        return None, None
    if t == "identity":
        fn = T.trans_identity
    elif t == "sum":
        fn = T.trans_sum
    elif t == "dot":
        fn = T.trans_dot
        kwargs = {"latentvec_wt": numpy.array([_f(v) for v in desc["w"]])}
    elif t == "empty":
        fn = T.trans_empty
    elif t == "decn_sum_eq":
        fn = T.trans_decnvec_sum_eq
        kwargs = {} if desc.get("default_kw") else {"decnvec_sum": _f(desc["target"])}
    elif t == "slice":
        def fn(decnvec, latentvec, **kw):
            return latentvec[0:1]
    elif t == "penalty":
        kwargs = {"thr": _f(desc["thr"])}

        def fn(decnvec, latentvec, thr, **kw):
            return numpy.maximum(latentvec - thr, 0.0)
    elif t == "affine":
        kwargs = {"m": _f(desc["m"]), "c": _f(desc["c"])}

        def fn(decnvec, latentvec, m, c, **kw):
            return m * latentvec + c
    else:
        raise ValueError(t)

    def spy(decnvec, latentvec, **kw):
        out = fn(decnvec, latentvec, **kw)
        dv = numpy.asarray(decnvec)
        log.append({"x": canon.enc(dv.astype("int64") if dv.dtype == bool else dv), "latent": canon.enc(numpy.asarray(latentvec)),
                    "kwargs": sorted(kw), "out": canon.enc(numpy.asarray(out))})
        return out
    return spy, kwargs


def ref_trans(desc, x, latent, role="obj"):
    """exact reference value of a transformation (Fractions)"""
    t = desc["t"]
    x = [Fraction(v) for v in x]
    l = [Fraction(v) for v in latent]
    if t == "identity" or (t == "default" and role == "obj"):
        return l
    if t == "default":
        return []
    if t == "sum":
        return [sum(l, Fraction(0))]
    if t == "dot":
        return [sum((Fraction(w) * v for w, v in zip(desc["w"], l)), Fraction(0))]
    if t == "empty":
        return []
    if t == "decn_sum_eq":
        return [abs(sum(x, Fraction(0)) - Fraction(desc["target"]))]
    if t == "slice":
        return l[0:1]
    if t == "penalty":
        return [max(v - Fraction(desc["thr"]), Fraction(0)) for v in l]
    if t == "affine":
        return [Fraction(desc["m"]) * v + Fraction(desc["c"]) for v in l]
    raise ValueError(t)


def _finite(v):
    return not any(isinstance(canon.dec(x), str) for x in v)


def _close_vec(a, b, rel=1e-9, abs_=1e-12):
    return len(a) == len(b) and _finite(a) and _finite(b) and canon.close_enc(a, b, rel, abs_)


class C05(Prop):
    PID = "C05"
    MODULE = "PybropsModel.Props.C05"
    N_QUICK = 850
    N_THOROUGH = 6000
    CORRESPONDENCE = "functional"
    RULE = ("per case one criterion of the 19-entry table (%d concrete classes incl. the genotype builder; plus the look-ahead class with a scripted mating protocol and the under-construction mating class, which only raises), data over small integers / dyadic "
            "rationals with distinct entries (upper-triangular asymmetric kinship factors, unsorted family labels, "
            "fixed loci and target frequencies exactly 0, 1/4, 1/2, 3/4, 1); one duplicate-free parent set evaluated "
            "through the subset class (two listings), the integer, binary and real classes (two scalings), plus a "
            "general count vector / real vector and its rescaling; evalfn cases with spy transformations (built-in "
            "and user callables with keyword arguments), distinct weights per role and the batch path evaluate(X); "
            "factory cases build the problem from population objects (usefulness criterion with two-way and three-way designs, the latter also through the real three-way variance factory; kinship factors checked against the K of the C13 model).  "
            "Round 3 case classes: (sizes) per criterion two populations of 130-150 candidates with subsets of 49/98/103/107 and of more than 128 members, one nearly fixed allele (allele counts of the subset above 127, loci one copy away from fixation), 8-bit decision vectors whose total exceeds 127; "
            "cross maps of 1035 / 1081 rows (past the 1024-row chunk of _calc_ohvmat) and _calc_ohvmat called with mem = 1, 2, 3, ..., None; "
            "(magnitudes) data with a common offset 25000 + d/4096, around 1e-8 and around 1e9, rescalings down to totals of 2e-9, totals 1 +- 6e-8, target / favourable-allele frequencies 2^-30; "
            "(histories on one object) every result re-read after later calls, a second query after the caller overwrote the returned array, another subset on the same object, data re-assigned or edited in place between two queries, weights and keyword arguments re-assigned between two evaluations, "
            "two factory calls on the same population objects with reorder_taxa / sort_taxa / group_taxa / mat / u_a assigned in between; "
            "(argument forms) Fortran-ordered, strided and reverse-strided data arrays, int8/int16/int32 and non-contiguous decision vectors, scalar / None weights, default transformations and default target, ploidy 1 and 4, four-phase genotype matrices, 1-3 parents per cross with and without selfs, "
            "per-taxon nrep / nprogeny arrays with unequal entries, label-free breeding value matrices, one-marker chromosomes; fully and partly inbred lines through the real doubled-haploid simulation (EMBV = GEBV, resp. within the range of the line's doubled haploids).  "
            "Round 4 case classes: (two objects / three channels) problem A evaluated, problem B (half of the time the same class) built, evaluated and re-configured - keyword arguments and weights assigned through the setters or edited in place through the containers the getters return, "
            "transformations without keyword arguments declared with None, default weights - then A evaluated again: every evaluation of A must meet A's own declaration; "
            "(histories) every criterion re-assigned / edited in place on one object in every run, the classes whose setters derive masks / indices (allele-frequency targets, family labels) three times, compared with the stateful object model as well; the transformation FUNCTION re-declared between two evaluations; "
            "(entry points) every factory method of every concrete class (104 per run, cycled through the four encodings) is handed a full evaluation declaration (weights as array / scalar / None, transformations with keyword arguments, constraint counts) and evalfn of the returned problem is checked against it; every one of the 60 constructors twice per run; "
            "(argument forms) boolean and whole-valued float64 decision vectors, elementwise=False (pymoo hands whole batches to _evaluate), batches with repeated rows in no particular order; "
            "(magnitudes) evalfn on data with offset 25000 / around 1e-8 / around 1e9, decision totals within 1e-6 .. 1e-9 of the declared target of trans_decnvec_sum_eq (target 1.0 by default: total 1 - 2^-30).  "
            "Non-trivial = at least two candidates, a "
            "proper subset or a non-uniform vector, and a latent vector that is not all zero" % NCLASSES)
    TRUSTED = ["numpy.linalg.norm(.., ord=2) = sqrt of the sum of squares; numpy.power; numpy.linalg.cholesky and "
               "apply_jitter entered through the contract C^T C = K, where K is computed by the C13 model "
               "(Model/Coancestry.lean, op c05.kinship) from the genotype counts; the diagonal may exceed it by the jitter <= 0.5e-6",
               "genetic variance factories (C12), haplotype binning (C18), mating simulation (C01) are stubbed / taken as given "
               "in the factory cases: the factory code around them is what is checked here",
               "pymoo's Problem.evaluate plumbing (only its call of _evaluate is exercised, elementwise and batch-wise)",
               "the harness's own user transformations (slice / penalty / affine) are modelled as Selection.Trans constructors; "
               "that a container returned by a getter is live (edits in place are seen by the owner) is NOT demanded",
               "EMBV matrix factory: the doubled-haploid simulation (dense_dh, C01) and the prediction are scripted in the "
               "model-compared cases (the real DenseBreedingValueMatrix.tmax is run on the scripted values); the real simulation "
               "is run on fully / partly inbred lines, where the result is determined resp. bounded without knowing the draws"]
    ASSUMPTIONS = ["a contribution vector has |sum x| >= 1e-10 (inside the guard the classes deliberately leave x "
                   "unnormalised: theorem scale_guard_counterexample); zero-sum vectors are only compared with the model",
                   "subset decisions are duplicate-free index lists (the declared decision space of SubsetProblem)",
                   "inputs are integers / dyadic rationals so that float arithmetic is exact up to 1e-9",
                   "a problem object reads the arrays it was given: data assigned through the documented properties, or edited "
                   "in place (except tfreq / familyid, whose derived masks / indices the setters compute), must be reflected by "
                   "the next latentfn call; population objects mutated in place between two factory calls must be reflected by "
                   "the second problem"]

    # ------------------------------------------------------------------ cases
    def corpus(self):
        out = []
        D = [[1, 2], [3, 4], [5, 7], [2, 2]]
        out.append({"kind": "latent", "crit": "EBV", "data": {"D": D}, "S": [2, 0], "perm": [0, 2], "a": 3,
                    "x": [1, 0, 2, 0], "xr": ["1/4", 0, "1/2", 0]})
        out.append({"kind": "latent", "crit": "OCS", "data": {"C": [[2, 1, -3], [0, 1, 5], [0, 0, 4]], "D": D[:3]},
                    "S": [1, 2], "perm": [2, 1], "a": "1/2", "x": [0, 3, 1]})
        out.append({"kind": "latent", "crit": "MEH", "data": {"C": [[1, 2], [0, 3]]}, "S": [1], "perm": [1], "a": 2,
                    "x": [1, 1]})
        out.append({"kind": "latent", "crit": "FAMILY", "data": {"D": D, "familyid": [7, 3, 7, 5]}, "S": [3, 0, 2],
                    "perm": [0, 2, 3], "a": 5, "x": [2, 0, 0, 1]})
        g = {"geno": [[2, 0, 1], [2, 0, 2], [2, 0, 0]], "ploidy": 2, "mkrwt": [[1], [2], [4]],
             "tfreq": [["1/2"], ["1/2"], ["1/2"]]}
        out.append({"kind": "latent", "crit": "PAU", "data": g, "S": [0, 1], "perm": [1, 0], "a": 1})
        # regression D50 (fixed 59e0f579): targets 1 and 0 at loci the two parents are already fixed at
        out.append({"kind": "latent", "crit": "PAU", "S": [0, 1], "perm": [1, 0], "a": 1,
                    "data": {"geno": [[2, 0], [2, 0]], "ploidy": 2, "mkrwt": [[1], [10]], "tfreq": [[1], [0]]}})
        out.append({"kind": "latent", "crit": "PAU", "S": [0, 1], "perm": [1, 0], "a": 1,
                    "data": {"geno": [[2, 0], [2, 0]], "ploidy": 2, "mkrwt": [[1], [10]], "tfreq": [[0], [1]]}})
        out.append({"kind": "latent", "crit": "MOGS", "data": dict(g, tfreq=[[1], [0], ["1/2"]]), "S": [0, 1, 2],
                    "perm": [1, 0, 2], "a": 1})
        # inside the 1e-10 guard: only compared with the model (see ASSUMPTIONS)
        # aliasing: identity / view objective transformation, weights -1 and -1/2, constraints that read the latent
        # vector afterwards (an in-place `obj *= obj_wt` would corrupt what they see)
        out.append({"kind": "evalfn", "crit": "EBV", "enc": "subset", "data": {"D": D}, "X": [[2, 0], [1, 3]],
                    "obj_trans": {"t": "identity"}, "obj_wt": [-1, "-1/2"],
                    "ineqcv_trans": {"t": "identity"}, "ineqcv_wt": [2, 3],
                    "eqcv_trans": {"t": "sum"}, "eqcv_wt": ["-1/2"]})
        out.append({"kind": "evalfn", "crit": "GEBV", "enc": "real", "data": {"D": D}, "X": [["1/2", 0, "1/4", "1/4"]],
                    "obj_trans": {"t": "slice"}, "obj_wt": ["-1/2"],
                    "ineqcv_trans": {"t": "slice"}, "ineqcv_wt": [5],
                    "eqcv_trans": {"t": "dot", "w": [1, -2]}, "eqcv_wt": [3]})
        # interior target frequency at loci where the selected subset is fixed (must be scored unavailable)
        out.append({"kind": "latent", "crit": "PAU", "S": [0, 1], "perm": [1, 0], "a": 1,
                    "data": {"geno": [[2, 0, 1], [2, 0, 2], [0, 2, 0]], "ploidy": 2, "mkrwt": [[1], [2], [4]],
                             "tfreq": [["1/4"], ["3/4"], ["1/2"]]}})
        # the class that is "still under construction": no objective exists
        out.append({"kind": "unimplemented", "cls": "MultiObjectiveGenomicSubsetMatingProblem"})
        out.append({"kind": "guard", "crit": "EBV", "data": {"D": D}, "enc": "binary", "x": [0, 0, 0, 0]})
        out.append({"kind": "guard", "crit": "GEBV", "data": {"D": D}, "enc": "real",
                    "x": ["1/100000000000000", 0, 0, 0]})
        from . import c05_factories, c05_isolation
        return out + c05_isolation.corpus() + c05_factories.corpus()

    def generate(self, rng, n, tier):
        from . import c05_factories
        out = []
        crits = list(CRITS)
        combos = list(c05_factories.COMBOS)
        nfac = 0
        neval = 0
        pairs = [(c, e) for c in crits for e in CRITS[c]["classes"]]
        for i in range(n):
            r = rng.random()
            if r < 0.02:
                out.append(gen_lookahead_case(rng))
            elif r < 0.24:
                # cycle through the (factory, criterion) pairs as well
                if nfac < 4 * len(combos):
                    # every (factory, criterion) pair in every decision encoding: each concrete class has its own
                    # copy of the factory method (and of the hand-over of the evaluation declaration)
                    out.append(c05_factories.gen_case(rng, *combos[nfac % len(combos)],
                                                      enc=ENCODINGS[(nfac // len(combos)) % 4]))
                else:
                    out.append(c05_factories.gen_case(rng))
                nfac += 1
            elif r < 0.66:
                # cycle through the table so that every class is met in every run
                nlat = sum(1 for c in out if c["kind"] == "latent")
                if nlat < 3 * len(crits):
                    # first round: rescaling down to totals of 1e-8 .. 1e-9, second: up by 2^20, third: at random
                    rnd = nlat // len(crits)
                    out.append(gen_latent_case(rng, crits[nlat % len(crits)], scale=("tiny", "huge", None)[rnd],
                                               style=(None, "offset", rng.choice(["tiny", "huge"]))[rnd]))
                else:
                    out.append(gen_latent_case(rng))
            elif r < 0.70:
                out.append(gen_reassign_case(rng))
            elif r < 0.74:
                from . import c05_isolation
                out.append(c05_isolation.gen_case(rng))
            elif r < 0.97:
                # every concrete class (its own constructor hands the declaration on) twice per run, then at random
                out.append(gen_eval_case(rng, *(pairs[neval % len(pairs)] if neval < 2 * len(pairs) else ())))
                neval += 1
            else:
                crit = rng.choice(sorted(GUARDED))
                data = gen_data(rng, crit)
                nn = ncand(crit, data)
                enc = rng.choice(["real", "binary", "integer"])
                x = [0] * nn
                if enc == "real" and rng.random() < 0.6:
                    x[rng.randrange(nn)] = canon.enc(Fraction(rng.randint(1, 9), 10 ** rng.choice([11, 12, 15])))
                out.append({"kind": "guard", "crit": crit, "data": data, "enc": enc, "x": x})
        # sizes past the 8-bit limits: one population of 130-150 candidates per criterion and run
        # (subsets of more than 127 members, allele counts above 127, count vectors with a total above 127)
        nbig = 2 * len(crits) if tier == "quick" else 8 * len(crits)
        for i in range(nbig):
            out.append(gen_latent_case(rng, crits[i % len(crits)], big=True, recip=(i // len(crits)) % 2 == 1))
        # histories on one object, every criterion in every run: the classes whose setters derive further state from
        # what is assigned (target-frequency masks, family index) three times, the others once
        for crit in crits:
            for enc in CRITS[crit]["classes"]:
                out.append(gen_reassign_case(rng, crit, enc))
            for _ in range(2 if crit in DERIVED_STATE else 0):
                out.append(gen_reassign_case(rng, crit, flip=True))
        # two factory calls on the same population objects with an in-place edit in between: every factory that reads
        # population objects, once with the rows re-ordered and once with the values replaced
        for fac in c05_factories.HISTORY_FACTORIES:
            for want in ("reorder", "assign_mat"):
                out.append(c05_factories.gen_case(rng, fac, history=want))
        # subsets of 49 out of 50-60 (inexact reciprocal, allele counts just below / above the 8-bit limit, loci one copy
        # away from fixation) for the criteria that form allele frequencies
        for crit in ("PAFD", "PAU", "MOGS"):
            for _ in range(2):
                out.append(gen_latent_case(rng, crit, mid=True))
        return out

    def exhaustive(self, tier):
        """thorough tier: for every criterion one fixed 4-candidate data set and *all* 15 non-empty parent sets"""
        if tier != "thorough":
            return None
        import itertools
        import random
        out = []
        for ci, crit in enumerate(CRITS):
            rng = random.Random(4242 + ci)
            data = gen_data(rng, crit, 4)
            if crit == "GB":
                data["nbest"] = 1
            for k in range(1, 5):
                for S in itertools.combinations(range(4), k):
                    out.append({"kind": "latent", "crit": crit, "data": data, "S": list(S), "perm": list(S)[::-1],
                                "a": "3/2"})
        return out

    # ------------------------------------------------------------------ implementation
    def _latent_evals(self, case):
        """[(tag, encoding, decision, group)] the decisions one latent case is evaluated on"""
        crit = case["crit"]
        n = ncand(crit, case["data"])
        S = case["S"]
        k = len(S)
        ev = [("subset", "subset", S, "set"), ("subset_perm", "subset", case["perm"], "set")]
        if n > k or k > 1:
            # another subset of the same size on the same problem object (a shared work buffer would show)
            ev.append(("subset_other", "subset", self._other(case), "oset"))
        if len(CRITS[crit]["classes"]) > 1:
            ind = indicator(n, S)
            unit = [canon.enc(Fraction(v, k)) for v in ind]
            ev += [("integer", "integer", ind, "set"), ("binary", "binary", ind, "set"),
                   ("real", "real", unit, "set"), ("real_scaled", "real", scaled(ind, case["a"]), "set")]
            if "x" in case:
                ev += [("v_integer", "integer", case["x"], "vec"), ("v_real", "real", case["x"], "vec"),
                       ("v_real_scaled", "real", scaled(case["x"], case["a"]), "vec")]
            if case.get("near1"):
                # real vectors whose total is 1 +- 6e-8: "already normalised" to a tolerance, not exactly
                e = Fraction(1, 2 ** 24)
                ev.append(("real_near1", "real", scaled(ind, (1 - e) / k), "set"))
                if "x" in case:
                    tot = sum(Fraction(v) for v in case["x"])
                    ev.append(("v_real_near1", "real", scaled(case["x"], (1 + e) / tot), "vec"))
            if "xr" in case:
                ev += [("r_real", "real", case["xr"], "rvec"),
                       ("r_real_scaled", "real", scaled(case["xr"], case["a"]), "rvec")]
        return ev

    @staticmethod
    def _other(case):
        n = ncand(case["crit"], case["data"])
        S = case["S"]
        if len(S) < n:
            free = [i for i in range(n) if i not in S]
            return S[:-1] + [free[0]]
        return S[1:] + S[:1]

    def run_impl(self, case):
        kind = case["kind"]
        if kind == "latent":
            crit, data = case["crit"], case["data"]
            probs = {}
            obs = {}
            raw = []
            for tag, enc, dv, _ in self._latent_evals(case):
                key = (enc, len(dv) if enc == "subset" else 0)
                if key not in probs:
                    probs[key] = build(crit, enc, data, k=len(dv), layout=case.get("layout"))
                x = decision(enc, dv, case.get("xform"))
                x0 = x.copy()
                out = probs[key].latentfn(x)
                raw.append((tag, out, probs[key], x))
                obs[tag] = canon.enc(numpy.asarray(out, dtype=float))
                if not (x0 == x).all():
                    obs["__mutated__"] = tag
            # history on one object: results handed out earlier must not change when the problem is queried again
            # (no shared work buffer), and a repeated query after the caller scribbled on the returned array must give
            # the same value (no cached array handed out by reference)
            for tag, out, _, _ in raw:
                if canon.enc(numpy.asarray(out, dtype=float)) != obs[tag]:
                    obs["__aliased__"] = tag
                    break
            tag, out, prob, x = raw[0]
            try:
                if isinstance(out, numpy.ndarray) and out.size:
                    out[...] = 12345.0
            except ValueError:
                pass
            obs["__again__"] = canon.enc(numpy.asarray(prob.latentfn(x), dtype=float))
            return obs
        if kind == "reassign":
            return self._run_reassign(case)
        if kind == "guard":
            p = build(case["crit"], case["enc"], case["data"])
            return {"latent": canon.enc(numpy.asarray(p.latentfn(decision(case["enc"], case["x"])), dtype=float))}
        if kind == "evalfn":
            return self._run_evalfn(case)
        if kind == "unimplemented":
            return self._run_unimplemented(case)
        if kind == "lookahead":
            return self._run_lookahead(case)
        if kind == "factory":
            from . import c05_factories
            return c05_factories.run(case)
        if kind == "isolation":
            from . import c05_isolation
            return c05_isolation.run(self, case)
        raise ValueError(kind)

    def _run_reassign(self, case):
        crit, enc = case["crit"], case["enc"]
        spec = CRITS[crit]
        decn = case["decn"]
        p = build(crit, enc, case["data"], k=len(decn))
        x = decision(enc, decn)

        def query():
            lat = canon.enc(numpy.asarray(p.latentfn(x), dtype=float))
            o, _, _ = p.evalfn(x)
            res = p.evaluate(x, return_as_dictionary=True)
            out = {"latent": lat, "obj": canon.enc(numpy.asarray(o, dtype=float)),
                   "F": canon.enc(numpy.asarray(res["F"], dtype=float))}
            if crit == "FAMILY":
                out["family"] = [int(v) for v in p.family]
                out["familyix"] = [int(v) for v in p.familyix]
            return out
        # prime whatever the object may remember
        if case["prime"] == "latentfn":
            p.latentfn(x)
        elif case["prime"] == "evalfn":
            p.evalfn(x)
        else:
            p.evaluate(x, return_as_dictionary=True)
        obs = {"first": query()}
        d2 = np_data(crit, case["data2"])
        names = spec["ctor"]({k: k for k in case["data2"]})           # constructor keyword -> data key
        for name, key in names.items():
            val = d2[key]
            prop = name if isinstance(getattr(type(p), name, None), property) else spec.get("attr", name)
            if case["mode"] == "inplace" and isinstance(val, numpy.ndarray) and key not in INPLACE_UNSAFE:
                held = getattr(p, prop)
                held[...] = val
            else:
                setattr(p, prop, val)
        obs["second"] = query()
        return obs

    def _run_unimplemented(self, case):
        """MultiObjectiveGenomicSubsetMatingProblem: `latentfn` raises unconditionally ("STILL UNDER CONSTRUCTION",
        `raise Exception('implement extraction of parents from xmap')`) and `from_object` cannot supply the
        mandatory `decn_space_xmap` — the class has no objective to compare with a definition."""
        mod = _mod("MultiObjectiveGenomicMatingProblem")
        cls = getattr(mod, case["cls"])
        p = cls(geno=numpy.array([[2, 0], [1, 1], [0, 2]], dtype="int8"), ploidy=2, mkrwt=numpy.array([[1.0], [2.0]]),
                tfreq=numpy.array([[0.5], [1.0]]), decn_space_xmap=numpy.array([[0, 1], [0, 2], [1, 2]]),
                ndecn=2, decn_space=numpy.arange(3), decn_space_lower=None, decn_space_upper=None, nobj=2)
        out = {}
        try:
            p.latentfn(numpy.array([0, 1]))
            out["latentfn"] = "returned"
        except Exception as e:      # noqa: BLE001 - the documented behaviour is a bare Exception
            out["latentfn"] = f"{type(e).__name__}: {e}"
        return out

    def _run_lookahead(self, case):
        from . import c05_factories as CF
        compat.import_pybrops()
        from pybrops.breed.prot.mate.MatingProtocol import MatingProtocol
        mod = _mod("RealLookAheadGeneralizedWeightedGenomicSelectionProblem")
        fp = case["founders"]
        g0 = CF.make_pgmat(fp, True)
        gm = CF.make_gpmod(fp)
        steps = []
        ngen = len(case["x"])

        class Stub(MatingProtocol):
            nparent = 2

            def __init__(self):
                self.i = 0
                # every concrete mating protocol holds its generator; since a6a4b0a3 the look-ahead problem shuffles the
                # selected parents with it (before: numpy's global stream)
                self.rng = numpy.random.RandomState(777)

            def mate(self, pgmat, xconfig, nmating, nprogeny, miscout, **kw):
                sim, gen = divmod(self.i, ngen)
                self.i += 1
                ff = gm.fafreq(pgmat)
                steps.append({"Z": canon.enc(numpy.asarray(pgmat.mat_asformat("{0,1,2}")).astype(int)),
                              "fafreq": canon.enc(numpy.asarray(ff, dtype=float)),
                              "sel": sorted(int(v) for v in numpy.asarray(xconfig).ravel()),
                              "nmating": int(nmating), "nprogeny": int(nprogeny)})
                gg = case["gens"][sim][gen]
                q = dict(fp, geno=gg, taxa_grp=[1] * len(gg[0]))
                return CF.make_pgmat(q, True)
        n0 = len(fp["geno"][0])
        p = mod.RealLookAheadGeneralizedWeightedGenomicSelectionProblem(
            fndr_pgmat=g0, fndr_algmod=gm, mtprot=Stub(), nparent=case["nparent"], ncross=1, nprogeny=3,
            nsimul=len(case["gens"]), ndecn=ngen, decn_space=numpy.array([[0.0] * ngen, [1.0] * ngen]),
            decn_space_lower=0.0, decn_space_upper=1.0, nobj=2)
        state = numpy.random.get_state()
        numpy.random.seed(777)                      # the code shuffles the selected indices with the global stream
        try:
            lat = p.latentfn(numpy.array([_f(v) for v in case["x"]]))
        finally:
            numpy.random.set_state(state)
        return {"latent": canon.enc(numpy.asarray(lat, dtype=float)), "steps": steps, "n0": n0}

    def _eval_problem(self, case, none_for_empty=False):
        """build the problem of an evalfn-style case part with spy transformations; returns (problem, logs, one)
        where one(xv) evaluates one decision vector.  `none_for_empty`: a transformation without keyword arguments
        is declared with `*_trans_kwargs=None` (the documented way) instead of an explicit empty dict"""
        crit, enc, data = case["crit"], case["enc"], case["data"]
        logs = {r: [] for r in ("obj", "ineqcv", "eqcv")}
        std = {}
        forms = case.get("wt_form", {})
        for r in ("obj", "ineqcv", "eqcv"):
            fn, kw = make_trans(case[r + "_trans"], logs[r])
            std[r + "_trans"] = fn
            std[r + "_trans_kwargs"] = None if (none_for_empty and not kw) else kw
            if forms.get(r) == "scalar":
                std[r + "_wt"] = _f(case[r + "_wt"][0])
            elif forms.get(r) == "none":
                std[r + "_wt"] = None
            else:
                std[r + "_wt"] = numpy.array([_f(v) for v in case[r + "_wt"]], dtype=float)
        std["nobj"] = len(case["obj_wt"])
        std["nineqcv"] = len(case["ineqcv_wt"])
        std["neqcv"] = len(case["eqcv_wt"])
        if case.get("elementwise") is False:
            std["elementwise"] = False         # rarely used option: pymoo hands the whole batch to _evaluate at once
        X = case["X"]
        p = build(crit, enc, data, k=len(X[0]), layout=case.get("layout"), **std)

        def one(xv):
            x = decision(enc, xv, case.get("xform"))
            lat = numpy.asarray(p.latentfn(x), dtype=float)
            for r in logs:
                logs[r].clear()
            o, g, h = p.evalfn(x)
            return {"latent": canon.enc(lat), "obj": canon.enc(numpy.asarray(o, dtype=float)),
                    "ineqcv": canon.enc(numpy.asarray(g, dtype=float)),
                    "eqcv": canon.enc(numpy.asarray(h, dtype=float)),
                    "calls": {r: list(logs[r]) for r in logs}}
        return p, logs, one

    def _run_evalfn(self, case):
        enc = case["enc"]
        X = case["X"]
        p, logs, one = self._eval_problem(case)
        rows = [one(xv) for xv in X]
        Xa = numpy.stack([decision(enc, xv) for xv in X])
        res = p.evaluate(Xa, return_as_dictionary=True)
        batch = {k2: canon.enc(numpy.asarray(res[k2], dtype=float)) for k2 in ("F", "G", "H") if res.get(k2) is not None}
        res1 = p.evaluate(decision(enc, X[0]), return_as_dictionary=True)      # a single decision vector
        single = {k2: canon.enc(numpy.asarray(res1[k2], dtype=float)) for k2 in ("F", "G", "H") if res1.get(k2) is not None}
        obs = {"rows": rows, "batch": batch, "single": single}
        if "second" in case:
            sec = case["second"]
            for r in ("obj", "ineqcv", "eqcv"):
                setattr(p, r + "_wt", numpy.array([_f(v) for v in sec[r + "_wt"]], dtype=float))
                if sec[r + "_trans"]["t"] != "default":
                    fn, kw = make_trans(sec[r + "_trans"], logs[r])
                    if sec[r + "_trans"].get("refn"):
                        setattr(p, r + "_trans", fn)
                    setattr(p, r + "_trans_kwargs", kw)
            obs["second"] = one(X[0])
            res2 = p.evaluate(decision(enc, X[0]), return_as_dictionary=True)
            obs["second_single"] = {k2: canon.enc(numpy.asarray(res2[k2], dtype=float)) for k2 in ("F", "G", "H")
                                    if res2.get(k2) is not None}
        return obs

    # ------------------------------------------------------------------ model requests
    def requests(self, case, obs):
        kind = case["kind"]
        if kind == "latent":
            crit = CRITS[case["crit"]]["crit"](case["data"])
            n = ncand(case["crit"], case["data"])
            reqs = []
            groups = {}
            for tag, enc, dv, grp in self._latent_evals(case):
                reqs.append(dict(crit, op="c05.latent", **({"S": dv} if enc == "subset" else {"x": dv})))
                groups.setdefault(grp, []).append(tag)
            for grp, tags in groups.items():
                if grp == "set":
                    k = len(case["S"])
                    sh = [canon.enc(Fraction(v, k)) for v in indicator(n, case["S"])]
                elif grp == "oset":
                    k = len(case["S"])
                    sh = [canon.enc(Fraction(v, k)) for v in indicator(n, self._other(case))]
                else:
                    x = [Fraction(v) for v in case["x" if grp == "vec" else "xr"]]
                    tot = sum(x)
                    sh = [canon.enc(v / tot) for v in x]
                supp = [i for i, v in enumerate(sh) if Fraction(v) > 0]
                reqs.append(dict(crit, op="c05.spec_latent", shares=sh, supp=supp,
                                 reported=[obs[t] for t in tags if _finite(obs[t])]))
            return reqs
        if kind == "reassign":
            reqs = []
            n = ncand(case["crit"], case["data"])
            enc, decn = case["enc"], case["decn"]
            if enc == "subset":
                sh = [canon.enc(Fraction(decn.count(i), len(decn))) for i in range(n)]
            else:
                tot = sum(Fraction(v) for v in decn)
                sh = [canon.enc(Fraction(v) / tot) for v in decn]
            supp = [i for i, v in enumerate(sh) if Fraction(v) > 0]
            for key, which in (("data", "first"), ("data2", "second")):
                crit = CRITS[case["crit"]]["crit"](case[key])
                reqs.append(dict(crit, op="c05.latent", **({"S": decn} if enc == "subset" else {"x": decn})))
                lat = obs[which]["latent"]
                reqs.append(dict(crit, op="c05.spec_latent", shares=sh, supp=supp, reported=[lat] if _finite(lat) else []))
            # the stateful model (Model/SelectionObj.lean): constructor, the assignments of this history, latentfn
            if case["crit"] in ("PAU", "PAFD", "MOGS"):
                d1, d2 = case["data"], case["data2"]
                reqs.append({"op": "c05.tf_history", "cls": case["crit"].lower(), "S": decn,
                             **{k: d1[k] for k in ("geno", "ploidy", "mkrwt", "tfreq")},
                             "ops": [{"set": k, "value": d2[k]} for k in ("geno", "ploidy", "mkrwt", "tfreq")]})
            elif case["crit"] == "FAMILY":
                reqs.append({"op": "c05.family_index", "ids": [int(v) for v in case["data2"]["familyid"]]})
            return reqs
        if kind == "guard":
            crit = CRITS[case["crit"]]["crit"](case["data"])
            return [dict(crit, op="c05.latent", x=case["x"])]
        if kind == "unimplemented":
            return []
        if kind == "lookahead":
            from . import c05_factories as CF
            u = case["founders"]["u"]
            ngen = len(case["x"])
            reqs = []
            for i, st in enumerate(obs["steps"]):
                alpha = case["x"][i % ngen]
                ff = numpy.array([[_f(v) for v in r] for r in st["fafreq"]])
                ff[ff <= 0] = 1.0
                reqs.append({"op": "c05.la_step", "Z": st["Z"], "u": u, "pw": canon.enc(numpy.power(ff, -_f(alpha))),
                             "nparent": case["nparent"]})
            finals = [[[a + b for a, b in zip(r0, r1)] for r0, r1 in zip(g[-1][0], g[-1][1])] for g in case["gens"]]
            reqs.append({"op": "c05.la_latent", "ploidy": 2, "u": u, "finals": finals})
            return reqs
        if kind == "evalfn":
            reqs = []
            for xv, row in zip(case["X"], obs["rows"]):
                if not _finite(row["latent"]):
                    continue
                decl = self._declaration(case)
                reqs.append(dict(decl, op="c05.evalfn", x=xv, latent=row["latent"]))
                reqs.append(self._spec_evalfn_req(case, xv, row))
            if "second" in case and "second" in obs and _finite(obs["second"]["latent"]):
                reqs.append(self._spec_evalfn_req(dict(case, **case["second"]), case["X"][0], obs["second"]))
            return reqs
        if kind == "factory":
            from . import c05_factories
            return c05_factories.requests(case, obs)
        if kind == "isolation":
            from . import c05_isolation
            return c05_isolation.requests(self, case, obs)
        raise ValueError(kind)

    # ------------------------------------------------------------------ verdicts
    def judge(self, case, obs, answers):
        kind = case["kind"]
        if kind == "latent":
            return self._judge_latent(case, obs, answers)
        if kind == "reassign":
            bad_corr, bad_spec = [], []
            for i, which in enumerate(("first", "second")):
                m, sp = answers[2 * i], answers[2 * i + 1]
                for a in (m, sp):
                    if "err" in a:
                        raise RuntimeError("driver error: " + a["err"])
                o = obs[which]
                what = "" if which == "first" else f"after the data were re-assigned ({case['mode']}): "
                if not _finite(o["latent"]):
                    bad_spec.append(f"{what}non-finite latent {o['latent']}")
                    continue
                if not _close_vec(m["ok"], o["latent"]):
                    bad_corr.append(f"{what}model={m['ok']} impl={o['latent']}")
                if sp["ok"]["bad"]:
                    bad_spec.append(f"{what}latent {o['latent']} is not the definition {sp['ok']['definition']} on the data "
                                    f"the problem now holds")
                # default weights (1) and transformation (identity): objectives = latent vector
                if not _close_vec(o["obj"], o["latent"], 1e-12, 1e-15) or not _close_vec(o["F"], o["latent"], 1e-12, 1e-15):
                    bad_spec.append(f"{what}evalfn {o['obj']} / evaluate {o['F']} differ from latentfn {o['latent']}")
            if len(answers) > 4:
                h = answers[4]
                if "err" in h:
                    raise RuntimeError("driver error: " + h["err"])
                o2 = obs["second"]
                if case["crit"] == "FAMILY":
                    if o2.get("familyix") is not None and (h["ok"]["familyix"] != o2["familyix"] or
                                                           h["ok"]["family"] != o2["family"]):
                        bad_corr.append(f"stored family index after the re-assignment: model={h['ok']} "
                                        f"impl={o2['family']},{o2['familyix']}")
                elif _finite(o2["latent"]) and not _close_vec(h["ok"], o2["latent"]):
                    bad_corr.append(f"object model after the history: {h['ok']} impl={o2['latent']}")
            return {"corr": not bad_corr, "spec": not bad_spec, "nontrivial": case["data"] != case["data2"],
                    "detail": f"reassign[{case['crit']}/{case['enc']}/{case['mode']}] " +
                              ("; ".join(bad_spec + bad_corr)[:1500] if (bad_spec or bad_corr) else "ok")}
        if kind == "guard":
            a = answers[0]
            if "err" in a:
                raise RuntimeError("driver error: " + a["err"])
            corr = _close_vec(a["ok"], obs["latent"])
            return {"corr": corr, "spec": True, "nontrivial": False,
                    "detail": f"guard[{case['crit']}/{case['enc']}] model={a['ok']} impl={obs['latent']}"}
        if kind == "evalfn":
            return self._judge_evalfn(case, obs, answers)
        if kind == "lookahead":
            return self._judge_lookahead(case, obs, answers)
        if kind == "unimplemented":
            ok = obs["latentfn"].startswith("Exception: implement extraction of parents")
            return {"corr": ok, "spec": True, "nontrivial": False,
                    "detail": f"{case['cls']}.latentfn -> {obs['latentfn']} (no objective implemented; the model has no "
                              f"criterion for it either)"}
        if kind == "factory":
            from . import c05_factories
            return c05_factories.judge(case, obs, answers)
        if kind == "isolation":
            from . import c05_isolation
            return c05_isolation.judge(self, case, obs, answers)
        raise ValueError(kind)

    def _judge_lookahead(self, case, obs, answers):
        bad_corr, bad_spec = [], []
        for a in answers:
            if "err" in a:
                raise RuntimeError("driver error: " + a["err"])
        ngen = len(case["x"])
        if len(obs["steps"]) != ngen * len(case["gens"]):
            bad_spec.append(f"{len(obs['steps'])} matings for {len(case['gens'])} simulations x {ngen} generations")
        for st, a in zip(obs["steps"], answers[:-1]):
            sc = [Fraction(v) for v in a["ok"]["scores"]]
            sel = st["sel"]
            k = min(case["nparent"], len(sc))
            # Spec: the selected set is a top-k set of the weighted breeding values (ties may go either way)
            tol = Fraction(1, 10 ** 9) * max([abs(v) for v in sc] + [Fraction(1)])     # float ties (irrational weights)
            if len(set(sel)) != k or any(i < 0 or i >= len(sc) for i in sel) or \
                    (sel and min(sc[i] for i in sel) + tol <
                     max([sc[i] for i in range(len(sc)) if i not in sel], default=min(sc))):
                bad_spec.append(f"selected {sel} is not a top-{k} set of the weighted breeding values {a['ok']['scores']}")
            srt = sorted(sc)
            distinct = all(b - a > tol for a, b in zip(srt, srt[1:]))
            if distinct and sorted(a["ok"]["sel"]) != sel:
                bad_corr.append(f"selection model={sorted(a['ok']['sel'])} impl={sel}")
            if st["nmating"] != 1 or st["nprogeny"] != 3:
                bad_spec.append(f"mate() called with ncross={st['nmating']} nprogeny={st['nprogeny']}")
        m = answers[-1]["ok"]
        if not _close_vec(m, obs["latent"]):
            bad_corr.append(f"latent model={m} impl={obs['latent']}")
        # definition, exact: minus the mean (over simulations) genotypic value of the last generation and
        # minus the mean upper selection limit term
        u = [Fraction(r[0]) for r in case["founders"]["u"]]
        gains, usls = [], []
        for g in case["gens"]:
            Z = [[a + b for a, b in zip(r0, r1)] for r0, r1 in zip(g[-1][0], g[-1][1])]
            n = len(Z)
            gains.append(sum(sum(Fraction(z) * um for z, um in zip(row, u)) for row in Z) / n)
            tot = Fraction(0)
            for mi, um in enumerate(u):
                pf = Fraction(sum(row[mi] for row in Z), 2 * n)
                ok = (pf > 0) if um > 0 else (pf >= 1)
                tot += 2 * um * (1 if ok else 0)
            usls.append(tot)
        want = [canon.enc(-sum(gains) / len(gains)), canon.enc(-sum(usls) / len(usls))]
        if not _close_vec(want, obs["latent"]):
            bad_spec.append(f"latent {obs['latent']} is not [-mean gain, -mean selection-limit term] = {want}")
        return {"corr": not bad_corr, "spec": not bad_spec, "nontrivial": True,
                "detail": "lookahead " + ("; ".join(bad_spec + bad_corr)[:1200] if (bad_spec or bad_corr) else "ok")}

    def _judge_latent(self, case, obs, answers):
        evs = self._latent_evals(case)
        bad_corr, bad_spec = [], []
        if "__mutated__" in obs:
            bad_spec.append("decision vector modified in place by " + obs["__mutated__"])
        if "__aliased__" in obs:
            bad_spec.append("the latent vector returned for " + obs["__aliased__"] + " was changed by a later call")
        if "__again__" in obs and obs["__again__"] != obs[evs[0][0]]:
            bad_spec.append(f"latentfn called twice on the same decision gives {obs[evs[0][0]]} and then {obs['__again__']}")
        for (tag, enc, dv, grp), a in zip(evs, answers):
            if "err" in a:
                raise RuntimeError(f"driver error on {tag}: {a['err']}")
            if not _close_vec(a["ok"], obs[tag]):
                bad_corr.append(f"{tag}: model={a['ok']} impl={obs[tag]}")
            if not _finite(obs[tag]):
                bad_spec.append(f"{tag}: non-finite latent value {obs[tag]}")
        grp_tags = {}
        for tag, enc, dv, grp in evs:
            grp_tags.setdefault(grp, []).append(tag)
        for (grp, tags), a in zip(grp_tags.items(), answers[len(evs):]):
            if "err" in a:
                raise RuntimeError(f"driver error on spec[{grp}]: {a['err']}")
            fin = [t for t in tags if _finite(obs[t])]
            for ix in a["ok"]["bad"]:
                bad_spec.append(f"{fin[ix]}: latent {obs[fin[ix]]} is not the definition {a['ok']['definition']} "
                                f"(entries a+b*sqrt(q) as [a,b,q])")
        n = ncand(case["crit"], case["data"])
        nz = any(Fraction(v) != 0 for v in obs["subset"] if not isinstance(canon.dec(v), str))
        return {"corr": not bad_corr, "spec": not bad_spec, "nontrivial": n >= 2 and nz,
                "detail": f"latent[{case['crit']}] " + "; ".join(bad_spec + bad_corr)[:1500] if (bad_corr or bad_spec)
                else f"latent[{case['crit']}] {len(evs)} evaluations agree with model and definition"}

    def _declaration(self, case):
        """the evaluation declaration of a case part as the driver wants it (Selection.EvalCfg)"""
        return {**{r + "_wt": case[r + "_wt"] for r in ("obj", "ineqcv", "eqcv")},
                **{r + "_trans": {k: v for k, v in self._eff_trans(case, r).items() if k not in ("default_kw", "refn")}
                   for r in ("obj", "ineqcv", "eqcv")}}

    def _spec_evalfn_req(self, case, xv, row):
        """Selection.evalOk on what the implementation reported; absolute tolerance as in _check_row (float
        cancellation in a sum / dot product of the latent entries)"""
        lat = row["latent"]
        mag = max([1.0] + [abs(float(Fraction(v))) for v in lat] + [abs(float(Fraction(v))) for v in xv])
        wmag = max([1.0] + [abs(float(Fraction(v))) for r in ("obj", "ineqcv", "eqcv") for v in case[r + "_wt"]] +
                   [abs(float(Fraction(v))) for r in ("obj", "ineqcv", "eqcv") for v in case[r + "_trans"].get("w", [])])
        return dict(self._declaration(case), op="c05.spec_evalfn", x=[canon.enc(Fraction(v)) for v in xv], latent=lat,
                    obj=row["obj"], ineqcv=row["ineqcv"], eqcv=row["eqcv"],
                    rel="1/1000000000000", abs=canon.enc(Fraction(1e-14 * mag * wmag * wmag)))

    @staticmethod
    def _eff_trans(case, r):
        d = case[r + "_trans"]
        if d["t"] == "default":
            return {"t": "identity"} if r == "obj" else {"t": "empty"}
        return d

    def _check_row(self, case, xv, row, bad_spec, what="", skip=()):
        """Spec of one evalfn call: exactly weight * declared transformation of (x, latentfn(x)), the declared
        keyword arguments handed over, every transformation called once with the decision and latent vectors"""
        lat = row["latent"]
        # float evaluation of a sum / dot product of the latent entries is exact up to ~1e-16 of the largest summand
        # (cancellation can leave an absolute error of that size in a result that is exactly 0)
        mag = max([1.0] + [abs(float(Fraction(v))) for v in lat] + [abs(float(Fraction(v))) for v in xv])
        for r in ("obj", "ineqcv", "eqcv"):
            if r in skip:
                continue
            want_t = ref_trans(case[r + "_trans"], xv, lat, r)
            want = [canon.enc(Fraction(w) * v) for w, v in zip(case[r + "_wt"], want_t)]
            wmag = max([1.0] + [abs(float(Fraction(v))) for v in case[r + "_wt"]] +
                       [abs(float(Fraction(v))) for v in case[r + "_trans"].get("w", [])])
            if len(want) != len(case[r + "_wt"]) or not _close_vec(want, row[r], 1e-12, 1e-14 * mag * wmag * wmag):
                bad_spec.append(f"{what}{r}: reported {row[r]} but weight*transformation(latent) = {want}")
            if case[r + "_trans"]["t"] == "default":
                continue
            calls = row["calls"][r]
            if len(calls) != 1:
                bad_spec.append(f"{what}{r}: transformation called {len(calls)} times")
            else:
                c = calls[0]
                if not _close_vec(c["x"], [canon.enc(Fraction(v)) for v in xv], 0, 0):
                    bad_spec.append(f"{what}{r}: transformation received decision vector {c['x']}, not {xv}")
                if not _close_vec(c["latent"], lat, 0, 0):
                    bad_spec.append(f"{what}{r}: transformation received latent {c['latent']}, latentfn gives {lat}")
                want_kw = {"dot": ["latentvec_wt"], "decn_sum_eq": ["decnvec_sum"], "penalty": ["thr"],
                           "affine": ["c", "m"]}.get(case[r + "_trans"]["t"], [])
                if case[r + "_trans"].get("default_kw"):
                    want_kw = []
                if c["kwargs"] != want_kw:
                    bad_spec.append(f"{what}{r}: transformation received keyword arguments {c['kwargs']}, declared {want_kw}")

    def _judge_evalfn(self, case, obs, answers):
        bad_corr, bad_spec = [], []
        ai = 0
        builtin = all(self._eff_trans(case, r)["t"] in TRANS_BUILTIN for r in ("obj", "ineqcv", "eqcv"))
        for xv, row in zip(case["X"], obs["rows"]):
            lat = row["latent"]
            if not _finite(lat):
                bad_spec.append(f"non-finite latent {lat}")
                continue
            if builtin:
                a, sp = answers[ai], answers[ai + 1]
                ai += 2
                for q in (a, sp):
                    if "err" in q:
                        raise RuntimeError("driver error: " + q["err"])
                mag = max([1.0] + [abs(float(Fraction(v))) for v in lat] + [abs(float(Fraction(v))) for v in xv])
                for r in ("obj", "ineqcv", "eqcv"):
                    wmag = max([1.0] + [abs(float(Fraction(v))) for v in case[r + "_wt"]] +
                               [abs(float(Fraction(v))) for v in case[r + "_trans"].get("w", [])])
                    if not _close_vec(a["ok"][r], row[r], 1e-12, 1e-14 * mag * wmag * wmag):
                        bad_corr.append(f"{r}: model={a['ok'][r]} impl={row[r]}")
                # the Lean oracle Selection.evalOk on the implementation's three vectors
                if not sp["ok"]["ok"]:
                    for r in sp["ok"]["bad"]:
                        bad_spec.append(f"{r}: reported {row[r]} is not weights x declared transformation = "
                                        f"{sp['ok']['want'][r]} (Selection.evalOk)")
            self._check_row(case, xv, row, bad_spec)
        # batch path
        names = {"F": "obj", "G": "ineqcv", "H": "eqcv"}
        for key, r in names.items():
            want = [row[r] for row in obs["rows"]]
            got = obs["batch"].get(key)
            if len(case[r + "_wt"]) == 0:
                continue
            if got is None or len(got) != len(want) or not all(_close_vec(g, w, 1e-12, 1e-15) for g, w in zip(got, want)):
                bad_spec.append(f"evaluate(X)[{key}] = {got} but row-wise evalfn gives {want}")
            got1 = obs.get("single", {}).get(key)
            if got1 is None or not _close_vec(got1, want[0], 1e-12, 1e-15):
                bad_spec.append(f"evaluate(x)[{key}] = {got1} but evalfn gives {want[0]}")
        # weights / keyword arguments re-assigned on the same object: the next evaluation uses the new ones, and the
        # latent vector (the data did not change) is the same
        if "second" in case and "second" in obs:
            row2 = obs["second"]
            if row2["latent"] != obs["rows"][0]["latent"]:
                bad_spec.append(f"latent vector changed from {obs['rows'][0]['latent']} to {row2['latent']} after re-assigning weights")
            elif _finite(row2["latent"]):
                sp = answers[-1]
                if "err" in sp:
                    raise RuntimeError("driver error: " + sp["err"])
                for r in sp["ok"]["bad"]:
                    bad_spec.append(f"after re-assignment: {r}: reported {row2[r]} is not weights x declared "
                                    f"transformation = {sp['ok']['want'][r]} (Selection.evalOk)")
                self._check_row(dict(case, **case["second"]), case["X"][0], row2, bad_spec, "after re-assignment: ")
                for key, r in names.items():
                    if len(case[r + "_wt"]) == 0:
                        continue
                    got2 = obs.get("second_single", {}).get(key)
                    if got2 is None or not _close_vec(got2, row2[r], 1e-12, 1e-15):
                        bad_spec.append(f"after re-assignment: evaluate(x)[{key}] = {got2} but evalfn gives {row2[r]}")
        nl = nlatent(case["crit"], case["data"])
        return {"corr": not bad_corr, "spec": not bad_spec,
                "nontrivial": ncand(case["crit"], case["data"]) >= 2 and nl >= 1,
                "detail": f"evalfn[{case['crit']}/{case['enc']}] " + ("; ".join(bad_spec + bad_corr)[:1500]
                                                                      if (bad_spec or bad_corr) else "ok")}

    # ------------------------------------------------------------------ findings / shrinking
    def signature(self, case, obs, verdict):
        sig = {"kind": case.get("kind"), "crit": case.get("crit")}
        if case.get("kind") == "factory":
            sig["factory"] = case.get("factory")
            from . import c05_factories
            sig.update(c05_factories.signature(case, obs, verdict))
        return sig

    def shrink(self, case):
        kind = case.get("kind")
        if kind == "latent":
            S = case["S"]
            for i in range(len(S)):
                if len(S) > 1:
                    c = dict(case)
                    c["S"] = S[:i] + S[i + 1:]
                    c["perm"] = [v for v in case["perm"] if v != S[i]]
                    yield c
            for key in ("x", "xr"):
                if key in case:
                    c = dict(case)
                    del c[key]
                    yield c
            d = case["data"]
            if case["crit"] in ("PAFD", "PAU", "MOGS") and len(d["mkrwt"]) > 1:
                for m in range(len(d["mkrwt"])):
                    c = dict(case)
                    c["data"] = dict(d, geno=[r[:m] + r[m + 1:] for r in d["geno"]],
                                     mkrwt=d["mkrwt"][:m] + d["mkrwt"][m + 1:], tfreq=d["tfreq"][:m] + d["tfreq"][m + 1:])
                    yield c
            if case["crit"] in ("PAFD", "PAU", "MOGS") and len(d["mkrwt"][0]) > 1:
                c = dict(case)
                c["data"] = dict(d, mkrwt=[r[:1] for r in d["mkrwt"]], tfreq=[r[:1] for r in d["tfreq"]])
                yield c
        elif kind == "evalfn":
            if len(case["X"]) > 1:
                for i in range(len(case["X"])):
                    c = dict(case)
                    c["X"] = case["X"][:i] + case["X"][i + 1:]
                    yield c
        elif kind == "factory":
            from . import c05_factories
            yield from c05_factories.shrink(case)

    # ------------------------------------------------------------------ self-test mutants
    def mutants(self):
        from . import c05_mutants
        return c05_mutants.mutants()


PROP = C05()
