"""C19 — Pareto filter, dominance predicate, distance-to-preference-vector transformations."""
import contextlib
import math
from fractions import Fraction

import numpy

from .. import canon, compat
from ..core import Prop

compat.install()


def _mods():
    compat.import_pybrops()
    import pybrops.core.util.pareto as pareto
    import pybrops.core.util.trans as ctrans
    import pybrops.breed.prot.sel.prob.trans as ptrans
    import pybrops.breed.prot.sel.transfn as transfn
    import pybrops.opt.algo.pymoo_addon as addon
    return pareto, ctrans, ptrans, transfn, addon


def _f(x):
    return float(Fraction(x))


def _arr(rows):
    return numpy.array([[_f(v) for v in r] for r in rows], dtype=float).reshape(len(rows), -1)


class C19(Prop):
    PID = "C19"
    MODULE = "PybropsModel.Props.C19"
    N_QUICK = 400
    N_THOROUGH = 12000
    RULE = ("point sets of 1-14 points x 1-4 objectives over small integers/dyadics with forced duplicates, "
            "coordinate ties and collinear fronts, weight vectors with mixed signs; dominance pairs with "
            "feasible/infeasible mixes; distance transforms in the three source variants (constant objectives, "
            "fronts at a large level, single-objective fronts, fronts collinear with the preference line = "
            "distance exactly 0), translation pairs (the same front translated by a large vector).  Non-trivial = "
            "pareto case with >= 2 distinct points and at least one dominated or duplicated point, "
            "dominates case with differing objective vectors, dist case with >= 2 points and >= 2 objectives, "
            "dist_pair case with >= 2 points, >= 2 objectives and a non-zero translation")
    TRUSTED = ["numpy.linalg.norm = sqrt of sum of squares (model and Spec compare squared distances; the "
               "implementation's distances are squared exactly in Fraction arithmetic before they are sent)"]
    # tolerance rule of the distance Spec (same as canon.close's defaults, as exact rationals)
    REL = Fraction(1, 10 ** 9)
    ABS = Fraction(1, 10 ** 12)
    ABS_ZERO = Fraction(1, 10 ** 18)     # fronts collinear with the line: |d| <= 1e-9
    ASSUMPTIONS = ["inputs are integers / dyadic rationals so that the float computation is exact up to 1e-9",
                   "NaN output of the unguarded transformation is modelled as `none`"]

    # ------------------------------------------------------------------ generation
    def corpus(self):
        return [
            {"kind": "pareto", "fmat": [[1, 2], [2, 1], [1, 1], [2, 1], ["1/2", 3]], "wt": [1, 1]},
            {"kind": "pareto", "fmat": [[1, 1], [1, 1], [1, 1]], "wt": [1, -1]},
            {"kind": "pareto", "fmat": [[3]], "wt": [2]},
            {"kind": "pareto", "fmat": [[0, 0], [1, 1], [2, 2], [2, 2], [1, 3]], "wt": [-1, 1]},
            {"kind": "dist", "variant": "core", "mat": [[1, 2], [2, 2], [0, 2]], "sign": [1, 1], "line": [1, 1]},
            {"kind": "dist", "variant": "prob", "mat": [[1, 2], [2, 2], [0, 2]], "sign": [1, 1], "line": [1, 1]},
            {"kind": "dist", "variant": "transfn", "mat": [[1, 2], [2, 2], [0, 2]], "sign": [1, 1], "line": [1, 1]},
            {"kind": "dist", "variant": "prob", "mat": [[8388609, 2], [8388610, 1], [8388608, 0]], "sign": [1, 1], "line": [1, 2]},
            {"kind": "dist", "variant": "transfn", "mat": [[1000001, 2], [1000002, 1], [1000000, 0]], "sign": [1, -1], "line": [2, 1]},
            {"kind": "dist", "variant": "core", "mat": [[1000001, 2], [1000002, 1], [1000000, 0]], "sign": [-1, 1], "line": [1, 1]},
            # single objective: every point lies on the line
            {"kind": "dist", "variant": "core", "mat": [[3], [5], [4]], "sign": [-1], "line": [2], "expect_zero": True},
            {"kind": "dist", "variant": "prob", "mat": [[7]], "sign": [1], "line": [1], "expect_zero": True},
            {"kind": "dist", "variant": "transfn", "mat": [[2], [2]], "sign": [1], "line": [3], "expect_zero": True},
            # fronts collinear with the preference line after scaling: distance exactly 0
            {"kind": "dist", "variant": "core", "mat": [[0, 10], [1, 12], [4, 18], [2, 14]], "sign": [1, 1],
             "line": [1, 1], "expect_zero": True},
            {"kind": "dist", "variant": "prob", "mat": [[0, 10, 5], [1, 12, 5], [4, 18, 5]], "sign": [-1, -1, 1],
             "line": [2, 2, 0], "expect_zero": True},
            # translation pairs
            {"kind": "dist_pair", "variant": "core", "mat": [[1, 2], [2, 1], [0, 0]], "shift": [8388608, -10000000],
             "sign": [1, -1], "line": [1, 2]},
            {"kind": "dist_pair", "variant": "prob", "mat": [[1, 2], [2, 1], [0, 0]], "shift": [1048576, 12345678],
             "sign": [1, 1], "line": [1, 2]},
            {"kind": "dist_pair", "variant": "transfn", "mat": [["1/2", 2, 3], [2, 1, 3], [0, 0, 3]],
             "shift": [1000000, 0, -8388608], "sign": [-1, 1, 1], "line": [0, 1, 3]},
            {"kind": "dominates", "obj1": [1, 2], "cv1": -2, "obj2": [1, 1], "cv2": 0},
            {"kind": "dominates", "obj1": [1, 2], "cv1": 0, "obj2": [1, 2], "cv2": 0},
            {"kind": "dominates", "obj1": [1, 2], "cv1": 1, "obj2": [0, 0], "cv2": 2},
        ]

    def _points(self, rng):
        npt = rng.choice([1, 2, 2, 3, 3, 4, 5, 6, 8, 10, 14])
        nobj = rng.choice([1, 2, 2, 3, 3, 4])
        hi = rng.choice([1, 2, 3, 5])
        style = rng.random()
        pts = [[rng.randint(0, hi) for _ in range(nobj)] for _ in range(npt)]
        if style < 0.25 and npt > 1:      # duplicates
            for _ in range(rng.randint(1, npt)):
                pts[rng.randrange(npt)] = list(pts[rng.randrange(npt)])
        elif style < 0.4 and nobj >= 2:    # collinear anti-diagonal front
            pts = [[i, npt - i] + [0] * (nobj - 2) for i in range(npt)]
            rng.shuffle(pts)
        elif style < 0.5:
            pts = [[Fraction(v, 2) for v in r] for r in pts]
        return pts, nobj

    def generate(self, rng, n, tier):
        out = []
        for i in range(n):
            r = rng.random()
            if r < 0.55:
                pts, nobj = self._points(rng)
                wt = [rng.choice([1, -1, 1, -1, 2, Fraction(1, 2), -3]) for _ in range(nobj)]
                out.append({"kind": "pareto", "fmat": canon.enc(pts), "wt": canon.enc(wt)})
            elif r < 0.75:
                nobj = rng.randint(1, 4)
                o1 = [rng.randint(0, 3) for _ in range(nobj)]
                o2 = [v + rng.choice([0, 0, 1, -1]) for v in o1] if rng.random() < 0.7 else \
                    [rng.randint(0, 3) for _ in range(nobj)]
                cv = lambda: rng.choice([0, 0, -1, Fraction(1, 2), 1, 2])
                out.append({"kind": "dominates", "obj1": o1, "cv1": canon.enc(cv()), "obj2": o2,
                            "cv2": canon.enc(cv())})
            elif r < 0.84:
                pts, nobj = self._points(rng)
                if rng.random() < 0.3:                   # one constant objective
                    j = rng.randrange(nobj)
                    for p in pts:
                        p[j] = pts[0][j]
                shift = [rng.choice([0, 3, -1, 2 ** 20, 10 ** 6, 2 ** 23, -(10 ** 7), 12345678]) for _ in range(nobj)]
                if not any(abs(v) > 1000 for v in shift):
                    shift[rng.randrange(nobj)] = rng.choice([2 ** 20, 10 ** 6, 2 ** 23, -(10 ** 7)])
                sign = [rng.choice([1, -1]) for _ in range(nobj)]
                line = [rng.choice([0, 1, 1, 2, 3]) for _ in range(nobj)]
                if not any(line):
                    line[rng.randrange(nobj)] = 1
                out.append({"kind": "dist_pair", "variant": rng.choice(["core", "prob", "transfn"]),
                            "mat": canon.enc(pts), "shift": shift, "sign": sign, "line": line})
            elif r < 0.89:
                # front collinear with the preference line: objective j is a_j + u_i * 2^k_j where the line is
                # non-zero, constant where it is zero; u takes the values 0 and 1 => scaled point = u_i * (1,..,1)
                npt = rng.choice([1, 2, 3, 5, 8])
                nobj = rng.choice([1, 1, 2, 3, 4])
                c = rng.choice([1, 2, 3])
                line = [c * rng.choice([0, 1, 1]) for _ in range(nobj)]
                if not any(line):
                    line[rng.randrange(nobj)] = c
                us = [Fraction(rng.randint(0, 8), 8) for _ in range(npt)]
                if npt >= 2:
                    us[0], us[1] = Fraction(0), Fraction(1)
                    rng.shuffle(us)
                sg = rng.choice([1, -1])
                a = [rng.choice([0, 1, -3, 2 ** 20, 10 ** 6]) for _ in range(nobj)]
                k = [2 ** rng.randint(0, 4) for _ in range(nobj)]
                pts = [[a[j] + (u * k[j] if line[j] else 0) for j in range(nobj)] for u in us]
                out.append({"kind": "dist", "variant": rng.choice(["core", "prob", "transfn"]),
                            "mat": canon.enc(pts), "sign": [sg] * nobj, "line": line, "expect_zero": True})
            else:
                pts, nobj = self._points(rng)
                if rng.random() < 0.3 and nobj >= 1:     # one constant objective
                    j = rng.randrange(nobj)
                    for p in pts:
                        p[j] = pts[0][j]
                if rng.random() < 0.35:                  # translated front: a large level with a small range
                    off = [rng.choice([0, 2 ** 20, 10 ** 6, 2 ** 23, -(10 ** 7), 12345678]) for _ in range(nobj)]
                    pts = [[v + o for v, o in zip(p, off)] for p in pts]
                sign = [rng.choice([1, -1]) for _ in range(nobj)]
                line = [rng.choice([0, 1, 1, 2, 3]) for _ in range(nobj)]
                if not any(line):
                    line[rng.randrange(nobj)] = 1
                out.append({"kind": "dist", "variant": rng.choice(["core", "prob", "transfn"]),
                            "mat": canon.enc(pts), "sign": sign, "line": line})
        return out

    # ------------------------------------------------------------------ implementation
    def run_impl(self, case):
        pareto, ctrans, ptrans, transfn, addon = _mods()
        k = case["kind"]
        if k == "pareto":
            fmat = _arr(case["fmat"])
            wt = numpy.array([_f(v) for v in case["wt"]])
            f0 = fmat.copy()
            mask = pareto.is_pareto_efficient(fmat, wt, return_mask=True)
            idx = pareto.is_pareto_efficient(fmat, wt, return_mask=False)
            return {"mask": canon.enc(mask), "idx": canon.enc(idx), "input_untouched": bool((f0 == fmat).all())}
        if k == "dominates":
            r = addon.dominates(numpy.array([_f(v) for v in case["obj1"]]), _f(case["cv1"]),
                                numpy.array([_f(v) for v in case["obj2"]]), _f(case["cv2"]))
            return {"dom": bool(r)}
        if k in ("dist", "dist_pair"):
            sign = numpy.array([float(v) for v in case["sign"]])
            line = numpy.array([float(v) for v in case["line"]])
            v = case["variant"]

            def call(rows):
                mat = _arr(rows)
                if v == "core":
                    d = ctrans.trans_ndpt_pseudo_dist(mat, sign.copy(), line.copy())
                elif v == "prob":
                    d = ptrans.trans_ndpt_to_vec_dist(mat, line.copy(), sign.copy())   # (mat, obj_wt=line, vec_wt=sign)
                else:
                    d = transfn.trans_ndpt_to_vec_dist(mat, line.copy(), sign.copy())  # (mat, objfn_wt=line, wt=sign)
                return canon.enc(d)

            if k == "dist":
                return {"d": call(case["mat"])}
            return {"d": call(case["mat"]), "dt": call(self._translated(case))}
        raise ValueError(k)

    @staticmethod
    def _translated(case):
        """the front of a dist_pair case translated by its shift (exact, canonical encoding)"""
        return canon.enc([[Fraction(v) + Fraction(o) for v, o in zip(r, case["shift"])] for r in case["mat"]])

    @staticmethod
    def _sq(d):
        """implementation distances -> exact squares as canonical rationals (None for NaN / inf)"""
        out = []
        for x in d:
            y = canon.dec(x)
            out.append(None if isinstance(y, str) or y is None else canon.enc(y * y))
        return out

    def _spec_req(self, case, mat, d, abs_=None):
        return {"op": "c19.spec_dist", "mat": mat, "sign": case["sign"], "line": case["line"], "d2": self._sq(d),
                "rel": canon.enc(self.REL), "abs": canon.enc(self.ABS if abs_ is None else abs_)}

    # ------------------------------------------------------------------ model requests
    def requests(self, case, obs):
        k = case["kind"]
        if k == "pareto":
            return [{"op": "c19.pareto", "fmat": case["fmat"], "wt": case["wt"]},
                    {"op": "c19.spec_pareto", "fmat": case["fmat"], "wt": case["wt"],
                     "mask": obs["mask"], "idx": obs["idx"]}]
        if k == "dominates":
            return [{"op": "c19.dominates", **{x: case[x] for x in ("obj1", "cv1", "obj2", "cv2")}}]
        if k == "dist":
            abs_ = self.ABS_ZERO if case.get("expect_zero") else self.ABS
            return [{"op": "c19.dist", "mat": case["mat"], "sign": case["sign"], "line": case["line"],
                     "guarded": True},
                    self._spec_req(case, case["mat"], obs["d"], abs_)]
        if k == "dist_pair":
            mt = self._translated(case)
            return [{"op": "c19.dist", "mat": case["mat"], "sign": case["sign"], "line": case["line"],
                     "guarded": True},
                    {"op": "c19.dist", "mat": mt, "sign": case["sign"], "line": case["line"], "guarded": True},
                    self._spec_req(case, case["mat"], obs["d"]),
                    self._spec_req(case, mt, obs["dt"])]
        raise ValueError(k)

    def judge(self, case, obs, answers):
        k = case["kind"]
        for a in answers:
            if "err" in a:
                raise RuntimeError("driver error: " + a["err"])
        if k == "pareto":
            m, s = answers[0]["ok"], answers[1]["ok"]
            corr = (m["mask"] == obs["mask"] and m["idx"] == obs["idx"])
            spec = bool(s["ok"]) and obs["input_untouched"]
            pts = [tuple(r) for r in case["fmat"]]
            nontriv = len(set(map(str, pts))) >= 2 and (not all(obs["mask"]))
            return {"corr": corr, "spec": spec, "nontrivial": nontriv,
                    "detail": f"pareto model={m} impl={obs} spec={s['detail']}"}
        if k == "dominates":
            m = answers[0]["ok"]
            corr = (m == obs["dom"])
            # Spec (definition, evaluated here on the implementation's answer)
            o1 = [Fraction(v) for v in case["obj1"]]
            o2 = [Fraction(v) for v in case["obj2"]]
            c1, c2 = Fraction(case["cv1"]), Fraction(case["cv2"])
            if c1 <= 0 and c2 <= 0:
                want = all(a <= b for a, b in zip(o1, o2)) and any(a < b for a, b in zip(o1, o2))
            else:
                want = c1 < c2
            return {"corr": corr, "spec": obs["dom"] == want, "nontrivial": o1 != o2,
                    "detail": f"dominates model={m} impl={obs['dom']} definition={want}"}
        if k == "dist":
            m = answers[0]["ok"]
            d = obs["d"]
            corr = self._corr_dist(m, d)
            # Spec: finite, one per point, equal to the geometric definition — evaluated in Lean
            # (Pareto.specDist, proved to accept the model's output: C19.Q_spec_dist_sound) on the
            # implementation's exact squared distances; the Python twin must give the same verdict
            abs_ = self.ABS_ZERO if case.get("expect_zero") else self.ABS
            spec, why = self._lean_spec(case, case["mat"], d, answers[1]["ok"], abs_)
            if case.get("expect_zero") and m is not None:
                corr = corr and all(canon.dec(y) == 0 for y in m)    # exact 0 in the model
            nontriv = len(case["mat"]) >= 2 and len(case["sign"]) >= 2
            return {"corr": corr, "spec": spec, "nontrivial": nontriv,
                    "detail": f"dist[{case['variant']}] model={m} impl={d} {why}"}
        if k == "dist_pair":
            m, mt = answers[0]["ok"], answers[1]["ok"]
            d, dt = obs["d"], obs["dt"]
            # model side: translation invariance is a theorem (C19.Q_dist_translation_invariant): exact equality
            corr = self._corr_dist(m, d) and self._corr_dist(mt, dt) and m == mt
            s0, why0 = self._lean_spec(case, case["mat"], d, answers[2]["ok"], self.ABS)
            s1, why1 = self._lean_spec(case, self._translated(case), dt, answers[3]["ok"], self.ABS)
            finite = all(not isinstance(canon.dec(x), str) for x in list(d) + list(dt))
            same = finite and len(d) == len(dt) and all(
                canon.close(canon.dec(x), canon.dec(y), rel=1e-9, abs_=1e-9) for x, y in zip(d, dt))
            spec = s0 and s1 and same
            nontriv = len(case["mat"]) >= 2 and len(case["sign"]) >= 2 and any(case["shift"])
            return {"corr": corr, "spec": spec, "nontrivial": nontriv,
                    "detail": f"dist_pair[{case['variant']}] model={m} impl={d} impl_translated={dt} "
                              f"translation_invariant={same} original: {why0} translated: {why1}"}
        raise ValueError(k)

    @staticmethod
    def _corr_dist(m, d):
        isnan = [x == "nan" for x in d]
        if m is None:
            return all(isnan) and len(d) > 0
        return (not any(isnan)) and len(m) == len(d) and all(
            not isinstance(canon.dec(x), str) and
            canon.close(canon.dec(x) ** 2, canon.dec(y), rel=1e-9, abs_=1e-12) for x, y in zip(d, m))

    def _lean_spec(self, case, mat, d, ans, abs_):
        """verdict of the Lean Spec op, cross-checked against the independent Python evaluation"""
        ok = bool(ans["ok"])
        py_ok, py_why = self._spec_dist(mat, case["sign"], case["line"], d, self.REL, abs_)
        if py_ok != ok:
            raise RuntimeError(f"c19.spec_dist ({ok}: {ans['detail']}) and the Python Spec ({py_ok}: {py_why}) "
                               f"disagree on mat={mat} sign={case['sign']} line={case['line']} d={d}")
        return ok, ans["detail"]

    @staticmethod
    def _spec_dist(mat, sign, line, d, rel, abs_):
        """geometric definition over exact rationals (cross-check of the Lean Spec): scale each signed
        objective to [0,1] (constant objective -> 0), distance from P to its projection on the preference line"""
        if any(isinstance(canon.dec(x), str) for x in d):
            return False, "non-finite distance"
        if len(d) != len(mat):
            return False, "one distance per point expected"
        P = [[Fraction(v) * s for v, s in zip(r, sign)] for r in mat]
        cols = list(zip(*P)) if P else []
        sc = []
        for c in cols:
            lo, hi = min(c), max(c)
            sc.append([Fraction(0) if hi == lo else (x - lo) / (hi - lo) for x in c])
        Q = [list(r) for r in zip(*sc)] if sc else []
        L = [Fraction(v) for v in line]
        LL = sum(x * x for x in L)
        for q, x in zip(Q, d):
            t = sum(a * b for a, b in zip(q, L)) / LL
            want = sum((a - t * b) ** 2 for a, b in zip(q, L))
            got = canon.dec(x) ** 2
            diff = abs(got - want)
            if not (diff <= abs_ or diff <= rel * max(abs(got), abs(want))):
                return False, f"distance {x} != sqrt({want})"
        return True, "definition ok"

    def signature(self, case, obs, verdict):
        sig = {"kind": case["kind"]}
        if case["kind"] in ("dist", "dist_pair"):
            sig["variant"] = case["variant"]
            P = [[Fraction(v) * s for v, s in zip(r, case["sign"])] for r in case["mat"]]
            sig["constant_objective"] = any(len(set(c)) == 1 for c in zip(*P))
            sig["nan"] = isinstance(obs, dict) and any(x == "nan" for x in obs.get("d", []))
        return sig

    def shrink(self, case):
        key = {"pareto": "fmat", "dist": "mat", "dist_pair": "mat"}.get(case["kind"])
        if key:
            rows = case[key]
            for i in range(len(rows)):
                if len(rows) > 1:
                    c = dict(case)
                    c[key] = rows[:i] + rows[i + 1:]
                    yield c

    # ------------------------------------------------------------------ self-test mutants
    def mutants(self):
        pareto, ctrans, ptrans, transfn, addon = _mods()

        @contextlib.contextmanager
        def patch(mod, name, new):
            old = getattr(mod, name)
            setattr(mod, name, new)
            try:
                yield
            finally:
                setattr(mod, name, old)

        def ge_filter(fmat, wt, return_mask=True):
            fmat = fmat * (wt.flatten()[None, :])
            npt = fmat.shape[0]
            eff = numpy.arange(npt)
            pt = 0
            while pt < len(fmat):
                m = numpy.any(fmat >= fmat[pt], axis=1)
                m[pt] = True
                eff = eff[m]
                fmat = fmat[m]
                pt = numpy.sum(m[:pt]) + 1
            if return_mask:
                out = numpy.zeros(npt, dtype=bool)
                out[eff] = True
                return out
            return eff

        def inc_filter(fmat, wt, return_mask=True):
            fmat = fmat * (wt.flatten()[None, :])
            npt = fmat.shape[0]
            eff = numpy.arange(npt)
            pt = 0
            while pt < len(fmat):
                m = numpy.any(fmat > fmat[pt], axis=1)
                m[pt] = True
                eff = eff[m]
                fmat = fmat[m]
                pt += 1
            if return_mask:
                out = numpy.zeros(npt, dtype=bool)
                out[eff] = True
                return out
            return eff

        def dom_any(o1, c1, o2, c2):
            if c1 <= 0.0 and c2 <= 0.0:
                return bool(numpy.any(o1 <= o2) and numpy.any(o1 < o2))
            return c1 < c2

        def dist_noscale(ndptmat, mm, w, **kw):
            m = ndptmat * mm
            m = m - m.min(0)
            mx = m.max(0)
            mask = mx == 0
            mx[mask] = 1.0
            sc = 1.0 / mx
            sc[mask] = 0.0
            m = sc * m
            P = m.dot(w)[:, None] * w          # projection without 1/(w.w)
            return numpy.linalg.norm(m - P, axis=1)

        def _project(m, w):
            s = m.dot(w) * (1.0 / w.dot(w))
            return numpy.linalg.norm(m - numpy.outer(s, w), axis=1)

        def _guarded_scale(m):
            m = m - m.min(0)
            mx = m.max(0)
            mask = mx == 0
            mx[mask] = 1.0
            sc = 1.0 / mx
            sc[mask] = 0.0
            return sc * m

        def dist_scale_then_shift(mat, obj_wt, vec_wt, **kw):
            # the division by the column maximum is done before the minimum is subtracted:
            # no longer invariant to translation of the front
            m = mat * vec_wt
            mx = numpy.abs(m).max(0)
            mask = mx == 0
            mx[mask] = 1.0
            sc = 1.0 / mx
            sc[mask] = 0.0
            m = sc * m
            m = m - m.min(0)
            return _project(m, obj_wt)

        def dist_wrong_vector(mat, objfn_wt, wt, **kw):
            # projects on the sign vector instead of the preference vector
            return _project(_guarded_scale(mat * wt), wt)

        def dist_guard_dropped(ndptmat, mm, w, **kw):
            # the pre-repair scaling (D13): constant objective -> 0 * inf = NaN
            with numpy.errstate(all="ignore"):
                m = ndptmat * mm
                m = m - m.min(0)
                m = (1.0 / m.max(0)) * m
                return _project(m, w)

        return [
            ("dist_translation_after_scaling", lambda: patch(ptrans, "trans_ndpt_to_vec_dist", dist_scale_then_shift)),
            ("dist_projection_on_wrong_vector", lambda: patch(transfn, "trans_ndpt_to_vec_dist", dist_wrong_vector)),
            ("dist_guard_dropped", lambda: patch(ctrans, "trans_ndpt_pseudo_dist", dist_guard_dropped)),
            ("filter_ge", lambda: patch(pareto, "is_pareto_efficient", ge_filter)),
            ("filter_pt_increment", lambda: patch(pareto, "is_pareto_efficient", inc_filter)),
            ("dominates_any", lambda: patch(addon, "dominates", dom_any)),
            ("projection_without_norm", lambda: patch(ctrans, "trans_ndpt_pseudo_dist", dist_noscale)),
        ]


PROP = C19()
