"""C19 — Pareto filter, dominance predicate, distance-to-preference-vector transformations."""
import contextlib
import itertools
import json
import math
from fractions import Fraction

import numpy

from .. import canon, compat
from ..core import Prop

compat.install()


def _mods():
    compat.import_pybrops()
    import pybrops.core.util.pareto as pareto
    import pybrops.core.util.trans as ctrans
    import pybrops.breed.prot.sel.prob.trans as ptrans
    import pybrops.breed.prot.sel.transfn as transfn
    import pybrops.opt.algo.pymoo_addon as addon
    return pareto, ctrans, ptrans, transfn, addon


def _f(x):
    return float(Fraction(x))


def _fr(x):
    return Fraction(x)


def _arr(rows, dtype="float64", layout="C", ncol=None):
    """matrix of exact values -> ndarray of the requested dtype / memory layout (same contents)"""
    n = len(rows)
    if n == 0:
        return numpy.zeros((0, ncol or 0), dtype=dtype)
    if dtype.startswith("int"):
        a = numpy.array([[int(Fraction(v)) for v in r] for r in rows], dtype=dtype).reshape(n, -1)
    else:
        a = numpy.array([[_f(v) for v in r] for r in rows], dtype=dtype).reshape(n, -1)
    if layout == "C":
        return a
    if layout == "F":
        return numpy.asfortranarray(a)
    if layout == "strided":            # every second row / column of a larger array filled with junk
        big = numpy.full((2 * a.shape[0] + 1, 2 * a.shape[1] + 1), 77, dtype=a.dtype)
        big[::2, ::2][:a.shape[0], :a.shape[1]] = a
        return big[::2, ::2][:a.shape[0], :a.shape[1]]
    if layout == "rev":                # negative strides
        return a[::-1, ::-1].copy()[::-1, ::-1]
    raise ValueError(layout)


def _vec(vals, dtype="float64"):
    if dtype.startswith("int"):
        return numpy.array([int(Fraction(v)) for v in vals], dtype=dtype)
    return numpy.array([_f(v) for v in vals], dtype=dtype)


def _deadline(seconds):
    """a call of the implementation that does not return is an implementation failure (TimeoutError), not a hang of
    the check.  The budget is CPU time of the process (harness.core.cpu_deadline) with a generous wall-clock
    backstop, so that machine load cannot turn a correct tree into a timeout."""
    from harness.core import cpu_deadline
    return cpu_deadline(seconds * 4, wall_factor=30)


DIST_KW = {"core": ("objfn_minmax", "objfn_pseudoweight"),     # (sign keyword, line keyword)
           "prob": ("vec_wt", "obj_wt"),
           "transfn": ("wt", "objfn_wt")}
VARIANTS = ("core", "prob", "transfn")
MODEL_VARIANT = {"core": "core", "prob": "prob", "transfn": "transfn", "protocol": "prob"}


class C19(Prop):
    PID = "C19"
    MODULE = "PybropsModel.Props.C19"
    N_QUICK = 440
    N_THOROUGH = 12000
    RULE = ("point sets of 1-14 points x 1-4 objectives (plus fronts of 130-1100 points: pivot index past 127/255, more "
            "than 1024 points) over small integers / dyadics with forced duplicates, coordinate ties, collinear fronts, "
            "near-ties (differences of 2^-20..2^-40 at levels 0, 1, 25000, 2^30), tiny and huge magnitudes; weight vectors "
            "with mixed signs, fractional magnitudes and an occasional zero; integer / float32 / float64 matrices in C, "
            "Fortran, strided and negative-stride layouts; mask-first and index-first call orders; positive rescaling of the "
            "weights by non-dyadic factors; permuted copies; histories on ONE array object edited in place between calls.  "
            "Dominance pairs with feasible / infeasible mixes, violations from 5e-324 to 1e300 incl. (0, 1e-8], negative "
            "slack, objective near-ties, integer objective arrays, empty objective vectors.  Distance transforms in the three "
            "source copies (positional and keyword call forms, extra kwargs, integer matrices, non-contiguous layouts, "
            "non-dyadic preference vectors, constant objectives, ranges of 2^-40 next to 2^40, fronts at a large level, "
            "single-objective fronts, fronts collinear with the preference line = distance exactly 0, > 1024 points), the "
            "three copies run on the same front and compared with each other, translation pairs, in-place edit histories; "
            "weighted-sum / sum transformations (correspondence only).  Round 4: objectives on very different scales inside "
            "one point (2^60 next to 1: totals coincide in binary64) with ties on the large objective, many exact ties in the "
            "first objective, ranges / differences of 2^-60 .. 2^-1070, the empty point set, weights as column / row matrix / "
            "strided view (square matrices included), keyword call forms, Boolean / integer nature of the two result forms; "
            "dominance between vectors of 9-40 objectives differing in the last one, strided / Fortran-row objective vectors, "
            "histories on one pair of objective buffers; the filter with all objectives minimised against the pairwise "
            "dominance predicate; sign vectors with unequal magnitudes or a zero, preference vectors scaled by 2^+-400 "
            "and by 2^520 / 2^-600 / 1e170 / 1e-200 (L.L not a binary64 number: regression cases of D190, fixed c276d45e), "
            "float32 fronts.  Non-trivial = "
            "pareto case with >= 2 distinct points and at least one dominated or duplicated point, "
            "dominates case with differing objective vectors, dist case with >= 2 points and >= 2 objectives, "
            "dist_pair case with >= 2 points, >= 2 objectives and a non-zero translation")
    TRUSTED = ["numpy.linalg.norm = sqrt of sum of squares (model and Spec compare squared distances; the "
               "implementation's distances are squared exactly in Fraction arithmetic before they are sent)"]
    # tolerance rule of the distance Spec (same as canon.close's defaults, as exact rationals)
    REL = Fraction(1, 10 ** 9)
    ABS = Fraction(1, 10 ** 12)
    ABS_ZERO = Fraction(1, 10 ** 18)     # fronts collinear with the line: |d| <= 1e-9
    ASSUMPTIONS = ["every generated number is a binary64 number and every weighted value x*w is one too (checked by the "
                   "generator's self-test `_assert_exact` / `_safe_wt`): model and implementation see the same input",
                   "inputs are integers / dyadic rationals so that the float computation is exact up to 1e-9 "
                   "(weights times objective values are exactly representable, or order-preserving for the rescaled weights)",
                   "NaN output of the unguarded transformation is modelled as `none`"]

    WTS = [1, -1, 1, -1, 2, Fraction(1, 2), -3, Fraction(1, 4), Fraction(5, 2), Fraction(-1, 2)]
    SCALES = [0.1, 0.3, 3.7, 1e-9, 1e9, 7.0, 1.0 / 3.0]
    CVS = [0, 0, -1, Fraction(1, 2), 1, 2, 1e-9, 5e-9, 1e-8, 1e-12, 1e-5, 1e-300, 5e-324, -1e-9, -1e-300, 1e300,
           2.0 ** -30, 1 + 2.0 ** -40, 25000, 25000.0001]
    LINES_ND = [0.7, 0.35, 0.1, 0.25, 0.75, 1.0 / 3.0, 2.5]
    # (level, step) pairs with step >= ulp(level): level + k * step is a binary64 number for small k
    MIXED = [(2 ** 60, 256), (-(2 ** 52), 1), (1234567, Fraction(1, 2 ** 30)), (Fraction(1, 8), Fraction(1, 2 ** 36)),
             (0, 1), (-800000000, Fraction(1, 2 ** 20)), (3 * 10 ** 15, Fraction(1, 2))]
    SIGN_MAG = [1, 1, 1, 2, Fraction(1, 2), 3, Fraction(1, 4)]

    # ------------------------------------------------------------------ corpus
    def corpus(self):
        big = lambda n: [[i, n - i] for i in range(n)]
        rr = __import__("random").Random(19)
        b140 = big(140); rr.shuffle(b140)
        b300 = big(300) + [[i, 299 - i] for i in range(0, 300, 7)]; rr.shuffle(b300)
        # 1030 points on 26 anti-diagonals, only the top one (40 points) efficient
        b1030 = [[i, 40 - i - d] for d in range(26) for i in range(40)][:1030]; rr.shuffle(b1030)
        d1030 = [[(i * 37) % 1031, (i * i) % 97, 5] for i in range(1030)]
        # plain histories first: the process is still clean when they run, so a defect that lives in state carried
        # from one call to the next (a memo, a reused buffer, an overwritten argument) is reported with a case that
        # contains its own history and replays in a fresh process.  The data are deliberately unremarkable (no ties,
        # one magnitude, float64, C order): defects of single calls are left to the smaller cases below.
        M = [[1, 5], [3, 2], [0, 0], [4, 4]]
        M2 = [[1, 5], [3, 2], [5, 6], [4, 4]]
        hist = [{"kind": "dist_seq", "steps": [
                    {"variant": v, "mat": M, "sign": [1, 1], "line": [1, 2]},
                    {"variant": v, "mat": M, "sign": [1, 1], "line": [2, 1]},
                    {"variant": v, "mat": M2, "sign": [1, 1], "line": [2, 1]},
                    {"variant": v, "mat": M2, "sign": [1, -1], "line": [2, 1]},
                    {"variant": v, "mat": M2, "sign": [1, -1], "line": [1, 3]},     # a minimised objective, same array again
                    {"variant": v, "mat": M, "sign": [1, -1], "line": [1, 3]}]}
                for v in VARIANTS]
        hist.append({"kind": "pareto_seq", "fdtype": "float64", "steps": [
            {"fmat": M, "wt": [1, 1], "order": "mask_first"},
            {"fmat": M, "wt": [1, -1], "order": "idx_first"},
            {"fmat": M2, "wt": [1, -1], "order": "mask_only"},
            {"fmat": M2, "wt": [1, 1], "order": "idx_only"},
            {"fmat": M, "wt": [1, 1], "order": "mask_first"}]})
        hist.append({"kind": "dominates_seq", "steps": [
            {"obj1": [1, 5], "cv1": 0, "obj2": [3, 6], "cv2": 0},
            {"obj1": [4, 5], "cv1": 0, "obj2": [3, 6], "cv2": 0},
            {"obj1": [4, 5], "cv1": 0, "obj2": [3, 6], "cv2": 0, "swap": True},
            {"obj1": [4, 7], "cv1": 0, "obj2": [3, 6], "cv2": 0, "swap": True},
            {"obj1": [4, 7], "cv1": 2, "obj2": [3, 6], "cv2": 1},
            {"obj1": [4, 7], "cv1": 2, "obj2": [3, 6], "cv2": 3}]})
        return hist + [
            {"kind": "pareto", "fmat": [[1, 2], [2, 1], [1, 1], [2, 1], ["1/2", 3]], "wt": [1, 1]},
            {"kind": "pareto", "fmat": [[1, 1], [1, 1], [1, 1]], "wt": [1, -1]},
            {"kind": "pareto", "fmat": [[3]], "wt": [2]},
            {"kind": "pareto", "fmat": [[0, 0], [1, 1], [2, 2], [2, 2], [1, 3]], "wt": [-1, 1]},
            # integer-valued objective matrices with fractional weights (counts weighted by 1/2, 1/4, 5/2)
            {"kind": "pareto", "fmat": [[1, 3], [2, 2], [3, 1]], "wt": [1, "1/4"], "fdtype": "int64"},
            {"kind": "pareto", "fmat": [[1, 3], [2, 2], [3, 1], [3, 0]], "wt": ["1/2", 1], "fdtype": "int32", "layout": "F"},
            {"kind": "pareto", "fmat": [[4, 1], [3, 2], [5, 0], [3, 2]], "wt": ["-1/2", "5/2"], "fdtype": "int8",
             "order": "idx_first"},
            {"kind": "pareto", "fmat": [[1, 3], [2, 2], [3, 1]], "wt": [1, -1], "fdtype": "int64", "wdtype": "int64"},
            # near-ties and large common offsets
            {"kind": "pareto", "fmat": [[25000, 1], ["26214400001/1048576", 0], [25000, 0]], "wt": [1, 1]},
            {"kind": "pareto", "fmat": [["2147483649/2", 1], ["2147483647/2", 1], [1073741824, 1]], "wt": [1, -1]},
            {"kind": "pareto", "fmat": [[1, 0], ["1073741825/1073741824", 0], [1, "1/1099511627776"]], "wt": [2, 1]},
            {"kind": "pareto", "fmat": [[1, 2], [2, 1], [1, 1]], "wt": [1, 1], "flag": "np"},
            {"kind": "pareto", "fmat": [[1, 2], [2, 1], [1, 1]], "wt": [1, -1], "flag": "int", "order": "idx_first"},
            # zero weight: the objective is ignored
            {"kind": "pareto", "fmat": [[1, 5], [2, 0], [2, 7]], "wt": [1, 0]},
            # positive rescaling of the weights by non-dyadic factors
            {"kind": "pareto", "fmat": [[1, 3], [2, 2], [3, 1], [1, 1]], "wt": [1, -1], "scale": canon.enc([0.1, 1e9])},
            # sizes past 127 / 255 surviving points and past 1024 points
            {"kind": "pareto", "fmat": b140, "wt": [1, 1]},
            {"kind": "pareto", "fmat": b300, "wt": [1, 2], "order": "idx_first"},
            {"kind": "pareto", "fmat": b1030, "wt": [1, 1]},
            {"kind": "pareto_seq", "fdtype": "float64", "steps": [
                {"fmat": [[1, 2], [2, 1], [0, 0]], "wt": [1, 1]},
                {"fmat": [[1, 2], [2, 1], [3, 3]], "wt": [1, 1]},
                {"fmat": [[1, 2], [2, 1], [3, 3]], "wt": [-1, -1]}]},
            {"kind": "pareto_perm", "fmat": [[1, 2], [2, 1], [1, 1], [2, 1], [0, 3]], "wt": [1, 1], "perm": [4, 3, 2, 1, 0]},
            {"kind": "dist", "variant": "core", "mat": [[1, 2], [2, 2], [0, 2]], "sign": [1, 1], "line": [1, 1]},
            {"kind": "dist", "variant": "prob", "mat": [[1, 2], [2, 2], [0, 2]], "sign": [1, 1], "line": [1, 1]},
            {"kind": "dist", "variant": "transfn", "mat": [[1, 2], [2, 2], [0, 2]], "sign": [1, 1], "line": [1, 1]},
            {"kind": "dist", "variant": "prob", "mat": [[8388609, 2], [8388610, 1], [8388608, 0]], "sign": [1, 1], "line": [1, 2]},
            {"kind": "dist", "variant": "transfn", "mat": [[1000001, 2], [1000002, 1], [1000000, 0]], "sign": [1, -1], "line": [2, 1]},
            {"kind": "dist", "variant": "core", "mat": [[1000001, 2], [1000002, 1], [1000000, 0]], "sign": [-1, 1], "line": [1, 1]},
            # single objective: every point lies on the line
            {"kind": "dist", "variant": "core", "mat": [[3], [5], [4]], "sign": [-1], "line": [2], "expect_zero": True},
            {"kind": "dist", "variant": "prob", "mat": [[7]], "sign": [1], "line": [1], "expect_zero": True},
            {"kind": "dist", "variant": "transfn", "mat": [[2], [2]], "sign": [1], "line": [3], "expect_zero": True},
            # fronts collinear with the preference line after scaling: distance exactly 0
            {"kind": "dist", "variant": "core", "mat": [[0, 10], [1, 12], [4, 18], [2, 14]], "sign": [1, 1],
             "line": [1, 1], "expect_zero": True},
            {"kind": "dist", "variant": "prob", "mat": [[0, 10, 5], [1, 12, 5], [4, 18, 5]], "sign": [-1, -1, 1],
             "line": [2, 2, 0], "expect_zero": True},
            # keyword call form (as SelectionProtocol calls its ndset_trans), integer matrix, tiny / huge ranges
            {"kind": "dist", "variant": "prob", "mat": [[1, 2], [2, 1], [0, 0]], "sign": [1, -1], "line": [1, 1],
             "call": "kw_extra", "mdtype": "int64"},
            {"kind": "dist", "variant": "core", "mat": [[0, 0], ["1/1099511627776", 1099511627776], ["3/1099511627776", 0]],
             "sign": [1, 1], "line": [1, 2], "call": "kw", "layout": "F"},
            {"kind": "dist", "variant": "transfn", "mat": [[3, 1], [1, 2], [2, 3]], "sign": [1, 1],
             "line": canon.enc([0.7, 0.0]), "layout": "strided"},
            {"kind": "dist", "variant": "core", "mat": [[3, 1, 5], [1, 2, 5], [2, 3, 5]], "sign": [1, 1, -1],
             "line": canon.enc([0.7, 0.7, 0.0])},
            # points exactly on the preference line with a non-dyadic preference vector (cancellation-prone)
            *[{"kind": "dist", "variant": v, "mat": [[4, 5], [3, 5], [1, 5]], "sign": [1, 1], "line": canon.enc([0.7, 0.0]),
               "expect_zero": True} for v in VARIANTS],
            *[{"kind": "dist", "variant": v, "mat": [[4, 5], [3, 5], [1, 5]], "sign": [1, 1], "line": canon.enc([0.7, 0.7])}
              for v in VARIANTS],
            *[{"kind": "dist", "variant": v, "mat": [[3, 3, 5], [1, 2, 7], [2, 1, 6], [1, 1, 5]], "sign": [1, 1, -1],
               "line": canon.enc(l)} for v in VARIANTS for l in ([0.7, 0.7, 0.0], [0.0, 0.35, 0.0], [0.1, 0.1, 0.1])],
            {"kind": "dist3", "mat": d1030, "sign": [1, -1, 1], "line": [1, 2, 1]},
            # every copy: Fortran-ordered front, extra keyword / positional-plus-keyword call forms
            *[{"kind": "dist", "variant": v, "mat": [[3, 1, 5], [1, 2, 7], [2, 3, 6], [0, 0, 4]], "sign": [1, -1, 1],
               "line": [1, 2, 3], "layout": "F", "call": c} for v in VARIANTS for c in ("kw_extra", "pos_extra")],
            {"kind": "dist3", "mat": [[1, 2, 0], [2, 1, 0], [0, 0, 0], [2, 2, 0]], "sign": [1, -1, 1], "line": [1, 2, 3]},
            {"kind": "dist", "variant": "protocol", "mat": [[1, 2, 0], [2, 1, 0], [0, 0, 0], [3, 2, 0]], "sign": [1, 1, 1],
             "line": [1, 1, 1]},
            {"kind": "dist_seq", "steps": [
                {"variant": "core", "mat": [[1, 2], [2, 1], [0, 0]], "sign": [1, 1], "line": [1, 1]},
                {"variant": "prob", "mat": [[1, 2], [2, 1], [4, 0]], "sign": [1, -1], "line": [1, 1]},
                {"variant": "transfn", "mat": [[1, 2], [2, 1], [4, 0]], "sign": [-1, -1], "line": [1, 3]}]},
            # translation pairs
            {"kind": "dist_pair", "variant": "core", "mat": [[1, 2], [2, 1], [0, 0]], "shift": [8388608, -10000000],
             "sign": [1, -1], "line": [1, 2]},
            {"kind": "dist_pair", "variant": "prob", "mat": [[1, 2], [2, 1], [0, 0]], "shift": [1048576, 12345678],
             "sign": [1, 1], "line": [1, 2]},
            {"kind": "dist_pair", "variant": "transfn", "mat": [["1/2", 2, 3], [2, 1, 3], [0, 0, 3]],
             "shift": [1000000, 0, -8388608], "sign": [-1, 1, 1], "line": [0, 1, 3]},
            {"kind": "dominates", "obj1": [1, 2], "cv1": -2, "obj2": [1, 1], "cv2": 0},
            {"kind": "dominates", "obj1": [1, 2], "cv1": 0, "obj2": [1, 2], "cv2": 0},
            {"kind": "dominates", "obj1": [1, 2], "cv1": 1, "obj2": [0, 0], "cv2": 2},
            {"kind": "dominates", "obj1": [1, 2], "cv1": 0, "obj2": [2, 1], "cv2": -1},
            {"kind": "dominates", "obj1": [1, 2, 2], "cv1": 0, "obj2": [1, 3, 1], "cv2": 0},
            # tiny positive violations are violations
            {"kind": "dominates", "obj1": [1, 1], "cv1": 0, "obj2": [1, 1], "cv2": canon.enc(1e-9)},
            {"kind": "dominates", "obj1": [1, 1], "cv1": canon.enc(-1e-9), "obj2": [1, 1], "cv2": canon.enc(5e-9)},
            {"kind": "dominates", "obj1": [2, 2], "cv1": canon.enc(1e-9), "obj2": [1, 1], "cv2": canon.enc(5e-9)},
            {"kind": "dominates", "obj1": [0, 0], "cv1": canon.enc(5e-324), "obj2": [1, 1], "cv2": 0},
            {"kind": "dominates", "obj1": [1, 2], "cv1": 0, "obj2": ["1073741825/1073741824", 2], "cv2": 0},
            {"kind": "dominates", "obj1": [], "cv1": 0, "obj2": [], "cv2": 0},
            {"kind": "dominates", "obj1": [1, 2], "cv1": 0, "obj2": [1, 3], "cv2": -1, "odtype": "int64", "cvform": "int"},
            # ---- round 4
            # no point at all
            {"kind": "pareto", "fmat": [], "wt": [1, -1]},
            # objectives on very different scales inside one point; the dominated point listed first, tie on the large one
            {"kind": "pareto", "fmat": [[2 ** 60, 2], [2 ** 60, 3], [2 ** 60 + 256, 0]], "wt": [1, 1]},
            {"kind": "pareto", "fmat": [[3, -(2 ** 52)], [2, -(2 ** 52)], [1, -(2 ** 52) + 1]], "wt": [-1, 1], "order": "idx_first"},
            # exact ties in the FIRST objective, the dominated point before its dominator
            {"kind": "pareto", "fmat": [[3, 1], [3, 2], [1, 3]], "wt": [1, 1]},
            {"kind": "pareto", "fmat": [[2, 5], [2, 4], [4, 1], [2, 7]], "wt": [-1, -1]},
            {"kind": "pareto_perm", "fmat": [[5, 1, 1], [5, 1, 2], [5, 2, 0], [1, 9, 9]], "wt": [1, 1, 1], "perm": [3, 2, 1, 0]},
            # weights handed over as a column / row matrix / strided view; as many points as objectives
            {"kind": "pareto", "fmat": [[1, 2], [2, 1]], "wt": [1, -1], "wform": "col"},
            {"kind": "pareto", "fmat": [[1, 2, 0], [2, 1, 0], [2, 2, 0]], "wt": [1, -1, 2], "wform": "col", "order": "idx_first"},
            {"kind": "pareto", "fmat": [[1, 2], [2, 1], [0, 0]], "wt": [2, "1/2"], "wform": "row"},
            {"kind": "pareto", "fmat": [[1, 2], [2, 1], [0, 0]], "wt": [-1, "1/2"], "wform": "strided"},
            # dominance between vectors whose objectives live on very different scales (their totals coincide in binary64)
            {"kind": "dominates", "obj1": [-3 * 10 ** 15, 1], "cv1": 0, "obj2": [-3 * 10 ** 15, "5/4"], "cv2": 0},
            {"kind": "dominates", "obj1": [-3 * 10 ** 15, 1], "cv1": -1, "obj2": [-3 * 10 ** 15, "5/4"], "cv2": -3},
            {"kind": "dominates", "obj1": [2 ** 60, 1, 0], "cv1": 0, "obj2": [2 ** 60, 1, "1/1073741824"], "cv2": 0},
            {"kind": "dominates", "obj1": [2 ** 60, 1, "1/1073741824"], "cv1": 0, "obj2": [2 ** 60, 1, 0], "cv2": 0},
            {"kind": "dominates", "obj1": [2 ** 60, 2, 0], "cv1": 0, "obj2": [2 ** 60, 1, 1], "cv2": 0},
            {"kind": "dominates", "obj1": [-1234567, "1/8"], "cv1": 0, "obj2": [-1234567, canon.enc(0.125 + 1e-11)], "cv2": 0},
            # differences so small that their squares underflow (a norm of the difference is 0), incl. subnormal ones
            {"kind": "dominates", "obj1": [0, 0], "cv1": 0, "obj2": [0, canon.enc(Fraction(1, 2 ** 600))], "cv2": 0},
            {"kind": "dominates", "obj1": [1, canon.enc(Fraction(1, 2 ** 1070))], "cv1": 0,
             "obj2": [1, canon.enc(Fraction(3, 2 ** 1070))], "cv2": -1},
            {"kind": "dominates", "obj1": [1, canon.enc(Fraction(3, 2 ** 1070))], "cv1": 0,
             "obj2": [1, canon.enc(Fraction(1, 2 ** 1070))], "cv2": 0},
            {"kind": "pareto", "fmat": [[1, canon.enc(Fraction(1, 2 ** 600))], [1, 0], [0, canon.enc(Fraction(1, 2 ** 599))]],
             "wt": [1, 1]},
            {"kind": "dominates", "obj1": [0] * 33, "cv1": 0, "obj2": [0] * 32 + [1], "cv2": 0},
            {"kind": "dominates", "obj1": [1, 2, 3], "cv1": 0, "obj2": [1, 2, 4], "cv2": 0, "oform": "row_of_F"},
            {"kind": "dominates", "obj1": [1, 2, 3], "cv1": 0, "obj2": [1, 3, 3], "cv2": 0, "oform": "strided"},
            {"kind": "pareto", "fmat": [[1, 2], [2, 1], [1, 1]], "wt": [1, -1], "kw": "wt"},
            {"kind": "pareto", "fmat": [[1, 2], [2, 1], [1, 1]], "wt": [1, 1], "kw": "all", "order": "idx_first"},
            {"kind": "pareto_dom", "fmat": [[1, 2], [2, 2], [2, 1], [1, 2]], "cv": 0},
            {"kind": "pareto_dom", "fmat": [[2 ** 60, 3], [2 ** 60, 2], [2 ** 60 + 256, 0]], "cv": -1},
            {"kind": "dominates_seq", "steps": [
                {"obj1": [1, 2], "cv1": 0, "obj2": [1, 3], "cv2": 0},
                {"obj1": [1, 4], "cv1": 0, "obj2": [1, 3], "cv2": 0},
                {"obj1": [1, 4], "cv1": 0, "obj2": [1, 3], "cv2": 0, "swap": True},
                {"obj1": [1, 4], "cv1": 0, "obj2": [1, 3], "cv2": 1, "swap": True}]},
            # the vector multiplying the front with unequal magnitudes / an ignored objective
            *[{"kind": "dist", "variant": v, "mat": [[1, 2, 7], [2, 1, 5], [0, 0, 6], [3, 3, 6]], "sign": [2, "-1/2", 3],
               "line": [1, 2, 1]} for v in VARIANTS],
            {"kind": "dist3", "mat": [[1, 2], [2, 1], [0, 0], [3, 3]], "sign": [3, 0], "line": [1, 1]},
            # very small / very large preference vectors whose squared norm is still a binary64 number
            *[{"kind": "dist", "variant": v, "mat": [[1, 2], [2, 1], [0, 0], [3, 3]], "sign": [1, 1],
               "line": canon.enc([Fraction(2) ** e, Fraction(2) ** (e + 1)])} for v in VARIANTS for e in (400, -400)],
            # regression cases of D190 (repaired in c276d45e: the vector is normalised first): preference vectors whose
            # squared norm over- / underflows binary64 -- must hold now
            *[{"kind": "dist", "variant": v, "mat": [[1, 2], [2, 1], [0, 0], [3, 3]], "sign": [1, 1],
               "line": canon.enc([Fraction(2) ** e, Fraction(2) ** (e + 1)])} for v in VARIANTS for e in (520, -600)],
            # the inputs of the Lean witness C19.dist_extreme_preference_float_prerepair_counterexample (same defect)
            *[{"kind": "dist", "variant": "transfn", "mat": [[1, 2], [2, 1], [0, 0], [3, 3]], "sign": [1, 1],
               "line": canon.enc(l)} for l in ([1e-200, 2e-200], [1e170, 2e170])],
            {"kind": "dist", "variant": "transfn", "mat": [[1, 2], [2, 1], [0, 0], [3, 3]], "sign": [1, 1],
             "line": canon.enc([1e100, 2e100])},
            {"kind": "wsum", "fn": "dot", "mat": [[1, 2], [2, 1], ["1/2", 0]], "wt": [1, -2]},
            {"kind": "wsum", "fn": "sum1", "mat": [[1, 2], [2, 1], ["1/2", 0]]},
            {"kind": "wsum", "fn": "sum0", "mat": [[1, 2], [2, 1], ["1/2", 0]]},
            {"kind": "wsum", "fn": "sumall", "mat": [[1, 2], [2, 1], ["1/2", 0]]},
            {"kind": "wsum", "fn": "latent_sum", "vec": [1, 2, "1/2"]},
            {"kind": "wsum", "fn": "latent_dot", "vec": [1, 2, "1/2"], "wt": [2, -1, 4]},
        ]

    # ------------------------------------------------------------------ generation
    def _points(self, rng, mixed=True):
        npt = rng.choice([1, 2, 2, 3, 3, 4, 5, 6, 8, 10, 14])
        nobj = rng.choice([1, 2, 2, 3, 3, 4])
        hi = rng.choice([1, 2, 3, 5])
        style = rng.random()
        pts = [[rng.randint(0, hi) for _ in range(nobj)] for _ in range(npt)]
        if style < 0.2 and npt > 1:      # duplicates
            for _ in range(rng.randint(1, npt)):
                pts[rng.randrange(npt)] = list(pts[rng.randrange(npt)])
        elif style < 0.32 and nobj >= 2:    # collinear anti-diagonal front
            pts = [[i, npt - i] + [0] * (nobj - 2) for i in range(npt)]
            rng.shuffle(pts)
        elif style < 0.42:
            pts = [[Fraction(v, 2) for v in r] for r in pts]
        elif style < 0.58:                 # near-ties at a common level: level + k * 2^-e
            for j in range(nobj):
                level, e = rng.choice([(0, 40), (1, 30), (25000, 20), (25000, 30), (2 ** 30, 1), (1, 40), (0, 30),
                                       (0, 60), (0, 300)])
                for p in pts:
                    p[j] = level + Fraction(rng.randint(0, 3) - (1 if level else 0), 2 ** e)
        elif style < 0.64:                 # one objective tiny, one huge
            for j in range(nobj):
                m = rng.choice([Fraction(1, 2 ** 40), 2 ** 40, 1])
                for p in pts:
                    p[j] = p[j] * m
        elif style < 0.72 and nobj >= 2 and mixed:
            # objectives on very different scales inside ONE point (a sum over the objectives absorbs the small
            # ones): level + k * step per objective, step >= ulp(level); ties on the large objective are frequent
            cols = [rng.choice(self.MIXED) for _ in range(nobj)]
            cols[rng.randrange(nobj)] = self.MIXED[0]
            for j, (b, st) in enumerate(cols):
                ks = [0, 0, 1] if b == self.MIXED[0][0] else [0, 1, 2, 3]
                for p in pts:
                    p[j] = b + st * rng.choice(ks)
        elif style < 0.78 and nobj >= 2:   # many exact ties in the FIRST objective, the others spread out
            for p in pts:
                p[0] = rng.randint(0, 1)
        return pts, nobj

    @staticmethod
    def _exact(pts):
        """every value is a binary64 number (what numpy sees is what the model sees)"""
        return all(Fraction(float(Fraction(v))) == Fraction(v) for r in pts for v in r)

    @staticmethod
    def _is_int(pts):
        return all(Fraction(v).denominator == 1 for r in pts for v in r)

    @staticmethod
    def _f32_ok(pts):
        return all(Fraction(float(numpy.float32(float(Fraction(v))))) == Fraction(v) for r in pts for v in r)

    def _matrix_form(self, rng, pts, allow_int=True):
        """dtype / layout of the matrix handed to the implementation"""
        form = {}
        r = rng.random()
        if allow_int and self._is_int(pts) and r < 0.45:
            mx = max([abs(int(Fraction(v))) for row in pts for v in row] + [0])
            form["fdtype"] = rng.choice(["int64", "int64", "int32"] + (["int8"] if mx < 40 else []))
            if mx >= 2 ** 31:
                form["fdtype"] = "int64"
        elif r < 0.55 and self._f32_ok(pts):
            form["fdtype"] = "float32"
        lay = rng.random()
        if lay < 0.3:
            form["layout"] = rng.choice(["F", "strided", "rev"])
        return form

    @staticmethod
    def _products_exact(pts, wt):
        """every weighted value `x * w` is a binary64 number (the float product the code forms is the exact one)"""
        return all(Fraction(float(Fraction(v) * Fraction(w))) == Fraction(v) * Fraction(w) for r in pts for v, w in zip(r, wt))

    def _safe_wt(self, pts, wt):
        """weights whose products with the data are exact in binary64; otherwise their signs"""
        if self._products_exact(pts, wt):
            return wt
        return [(-1 if Fraction(w) < 0 else (1 if Fraction(w) > 0 else 0)) for w in wt]

    @staticmethod
    def _wide(pts):
        """values using (nearly) the whole significand: a non-dyadic rescaling of the weights may merge near-ties"""
        return any(abs(Fraction(v)) >= 2 ** 40 or (Fraction(v) != 0 and Fraction(v).denominator >= 2 ** 34 and abs(Fraction(v)) >= 1)
                   for r in pts for v in r)

    def _gen_pareto(self, rng):
        pts, nobj = self._points(rng)
        wt = [rng.choice(self.WTS) for _ in range(nobj)]
        if rng.random() < 0.04:
            wt[rng.randrange(nobj)] = 0
        wt = self._safe_wt(pts, wt)
        case = {"kind": "pareto", "fmat": canon.enc(pts), "wt": canon.enc(wt)}
        case.update(self._matrix_form(rng, pts))
        if case.get("fdtype", "").startswith("int") and all(Fraction(w).denominator == 1 for w in wt) and rng.random() < 0.3:
            case["wdtype"] = "int64"
        if rng.random() < 0.5:
            case["order"] = "idx_first"
        if rng.random() < 0.12:
            case["flag"] = rng.choice(["np", "int"])
        if rng.random() < 0.12:
            case["kw"] = rng.choice(["wt", "all"])
        if rng.random() < 0.15 and "wdtype" not in case and not self._wide(pts):
            case["scale"] = canon.enc([rng.choice(self.SCALES) for _ in range(nobj)])
        if rng.random() < 0.15:
            # the weights as a column / row matrix or a strided view (`wt.flatten()` accepts all of them)
            case["wform"] = rng.choice(["col", "row", "strided"])
            if case["wform"] == "col" and rng.random() < 0.5:
                # as many points as objectives: a column of weights broadcasts silently against a square matrix
                k = nobj
                rows = case["fmat"]
                case["fmat"] = (rows * k)[:k] if len(rows) < k else rows[:k]
        return case

    def _gen_big(self, rng, tier):
        """fronts whose surviving list is longer than 127 / 255 points, point sets larger than 1024 (4096 in thorough)"""
        r = rng.random()
        if r < 0.5:
            n = rng.choice([130, 150, 260, 300])
            pts = [[i, n - i] for i in range(n)] + [[rng.randint(0, n - 1), 0] for _ in range(rng.randint(0, 20))]
        else:
            n = rng.choice([1030, 1100] + ([4100, 4200] if tier == "thorough" else []))
            k = rng.choice([20, 40])
            pts = [[i % k, k - (i % k) - (i // k)] for i in range(n)]
        rng.shuffle(pts)
        case = {"kind": "pareto", "fmat": pts, "wt": rng.choice([[1, 1], [2, "1/2"], [1, 3]])}
        if rng.random() < 0.5:
            case["fdtype"] = "int64"
        if rng.random() < 0.5:
            case["order"] = "idx_first"
        return case

    def _gen_pareto_seq(self, rng):
        pts, nobj = self._points(rng)
        npt = len(pts)
        steps = []
        cur = [list(r) for r in pts]
        wt = [rng.choice(self.WTS) for _ in range(nobj)]
        for s in range(rng.randint(2, 4)):
            if s:
                what = rng.random()
                if what < 0.6:         # edit some entries in place
                    for _ in range(rng.randint(1, 2)):
                        i, j = rng.randrange(npt), rng.randrange(nobj)
                        old = cur[i][j]
                        cur[i][j] = Fraction(cur[i][j]) + rng.choice([1, -1, 2, 5, Fraction(1, 2)])
                        if not self._exact([[cur[i][j]]]):      # huge level: copy another point's value instead
                            cur[i][j] = old
                            cur[i][j] = cur[rng.randrange(npt)][j]
                            if cur[i][j] == old:
                                cur[i][j] = rng.randint(0, 3)
                elif what < 0.8:       # re-assign the weights
                    wt = [rng.choice(self.WTS) for _ in range(nobj)]
                else:                  # flip a sign
                    j = rng.randrange(nobj)
                    wt = list(wt)
                    wt[j] = -Fraction(wt[j])
            wt = self._safe_wt(cur, wt)
            steps.append({"fmat": canon.enc(cur), "wt": canon.enc(wt),
                          "order": rng.choice(["mask_first", "idx_first", "mask_only", "idx_only"])})
        return {"kind": "pareto_seq", "fdtype": "float64", "steps": steps}

    def _gen_pareto_perm(self, rng):
        pts, nobj = self._points(rng)
        wt = self._safe_wt(pts, [rng.choice(self.WTS) for _ in range(nobj)])
        perm = list(range(len(pts)))
        rng.shuffle(perm)
        if rng.random() < 0.3:
            perm = perm[::-1] if perm == sorted(perm) else sorted(perm, reverse=True)
        case = {"kind": "pareto_perm", "fmat": canon.enc(pts), "wt": canon.enc(wt), "perm": perm}
        case.update(self._matrix_form(rng, pts))
        return case

    def _gen_dominates(self, rng):
        nobj = rng.choice([0, 1, 1, 2, 2, 3, 4]) if rng.random() < 0.3 else rng.randint(1, 4)
        o1 = [rng.randint(0, 3) for _ in range(nobj)]
        o2 = [v + rng.choice([0, 0, 1, -1]) for v in o1] if rng.random() < 0.7 else \
            [rng.randint(0, 3) for _ in range(nobj)]
        case = {"kind": "dominates"}
        r = rng.random()
        if r < 0.25 and nobj:             # objective near-ties / large common level
            level, e = rng.choice([(1, 30), (25000, 20), (2 ** 30, 1), (0, 40), (1, 40), (0, 60), (0, 600), (0, 1070),
                                   (0, 600), (0, 1070)])
            o1 = [level + Fraction(v, 2 ** e) for v in o1]
            o2 = [level + Fraction(v, 2 ** e) for v in o2]
        elif r < 0.45:
            case["odtype"] = rng.choice(["int64", "int32"])
        feas = [c for c in self.CVS if Fraction(c) <= 0]
        infe = [c for c in self.CVS if Fraction(c) > 0]
        c1 = rng.choice(feas if rng.random() < 0.5 else infe)
        c2 = rng.choice(feas if rng.random() < 0.5 else infe)
        if rng.random() < 0.1:
            c2 = c1
        if all(Fraction(c).denominator == 1 for c in (c1, c2)) and rng.random() < 0.3:
            case["cvform"] = "int"
        elif rng.random() < 0.3:
            case["cvform"] = rng.choice(["np64", "0d"])
        r2 = rng.random()
        if r2 < 0.16 and nobj >= 2:
            # objectives on very different scales inside one vector: the vectors tie on the large objectives and
            # differ (by one step, in one direction or both) on small ones -- their totals round to the same number
            cols = [rng.choice(self.MIXED) for _ in range(nobj)]
            cols[rng.randrange(nobj)] = rng.choice([self.MIXED[0], self.MIXED[-1], (-3 * 10 ** 15, Fraction(1, 2))])
            o1 = [b + st * rng.randint(0, 2) for b, st in cols]
            o2 = list(o1)
            small = [j for j, (b, st) in enumerate(cols) if abs(b) < 2 ** 40] or [rng.randrange(nobj)]
            for j in rng.sample(small, rng.randint(1, len(small))):
                o2[j] = o1[j] + cols[j][1] * rng.choice([1, 1, 1, -1])
            if rng.random() < 0.5:
                o1, o2 = o2, o1
            case.pop("odtype", None)
        elif r2 < 0.22:
            # many objectives, the vectors differ in the LAST one only (or nowhere)
            nobj = rng.choice([9, 17, 33, 40])
            o1 = [rng.randint(0, 3) for _ in range(nobj)]
            o2 = list(o1)
            o2[-1] += rng.choice([1, -1, 0])
        if rng.random() < 0.2 and len(o1) >= 1:
            case["oform"] = rng.choice(["strided", "rev", "row_of_F"])
        case.update({"obj1": canon.enc(o1), "cv1": canon.enc(c1), "obj2": canon.enc(o2), "cv2": canon.enc(c2)})
        return case

    def _gen_pareto_dom(self, rng):
        """feasible points, every objective minimised: the filter (weights -1) and the pairwise dominance predicate must
        describe the same non-dominated set (Props/C19.filter_min_iff_not_dominated)"""
        pts, nobj = self._points(rng)
        pts = pts[:7]
        return {"kind": "pareto_dom", "fmat": canon.enc(pts), "cv": canon.enc(rng.choice([0, 0, -1, Fraction(-1, 2)]))}

    def _gen_dominates_seq(self, rng):
        """a history on ONE pair of objective arrays: compared, edited in place, compared again (also with the
        arguments exchanged) -- what a hill climber does with its leader / proposal buffers"""
        nobj = rng.randint(1, 4)
        o1 = [rng.randint(0, 3) for _ in range(nobj)]
        o2 = [v + rng.choice([0, 0, 1, -1]) for v in o1]
        feas = [c for c in self.CVS if Fraction(c) <= 0]
        infe = [c for c in self.CVS if Fraction(c) > 0]
        c1, c2 = rng.choice(feas), rng.choice(feas)
        steps = []
        for s in range(rng.randint(2, 5)):
            if s:
                what = rng.random()
                if what < 0.45:
                    j = rng.randrange(nobj)
                    o1 = list(o1)
                    o1[j] = o1[j] + rng.choice([1, -1, 2, -2])
                elif what < 0.7:
                    j = rng.randrange(nobj)
                    o2 = list(o2)
                    o2[j] = o2[j] + rng.choice([1, -1, 2, -2])
                elif what < 0.85:
                    c1 = rng.choice(feas if rng.random() < 0.6 else infe)
                else:
                    c2 = rng.choice(feas if rng.random() < 0.6 else infe)
            steps.append({"obj1": canon.enc(o1), "cv1": canon.enc(c1), "obj2": canon.enc(o2), "cv2": canon.enc(c2),
                          "swap": rng.random() < 0.3})
        return {"kind": "dominates_seq", "steps": steps}

    def _line(self, rng, nobj):
        line = self._line0(rng, nobj)
        if rng.random() < 0.06:
            # the whole preference vector very small / very large (L.L and 1/(L.L) still binary64 numbers):
            # a power of two, so every distance is exactly that of the unscaled vector
            m = Fraction(2) ** rng.choice([400, -400, 200, -300])
            line = canon.enc([Fraction(v) * m for v in line])
        return line

    def _line0(self, rng, nobj):
        if rng.random() < 0.25:
            if rng.random() < 0.4:                   # all preference on one objective / on a subset, equal entries
                c = rng.choice(self.LINES_ND)
                line = [c * rng.choice([0, 0, 1]) for _ in range(nobj)]
            else:
                line = [rng.choice([0.0] + self.LINES_ND) for _ in range(nobj)]
            if not any(line):
                line[rng.randrange(nobj)] = rng.choice(self.LINES_ND)
            return canon.enc([float(v) for v in line])
        line = [rng.choice([0, 1, 1, 2, 3]) for _ in range(nobj)]
        if not any(line):
            line[rng.randrange(nobj)] = 1
        return line

    def _dist_form(self, rng, pts):
        form = {}
        r = rng.random()
        if self._is_int(pts) and r < 0.3 and all(abs(int(Fraction(v))) < 2 ** 31 for row in pts for v in row):
            form["mdtype"] = rng.choice(["int64", "int32"])
            if rng.random() < 0.3:
                form["sdtype"] = "int64"
        elif r < 0.4 and self._f32_ok(pts):
            form["mdtype"] = "float32"
        lay = rng.random()
        if lay < 0.4:
            form["layout"] = rng.choice(["F", "F", "strided", "rev"])
        c = rng.random()
        if c < 0.45:
            form["call"] = rng.choice(["kw", "kw_extra", "pos_extra"])
        return form

    def _front(self, rng):
        pts, nobj = self._points(rng)
        if rng.random() < 0.3 and nobj >= 1:     # one constant objective
            j = rng.randrange(nobj)
            for p in pts:
                p[j] = pts[0][j]
        if rng.random() < 0.3:                   # translated front: a large level with a small range
            off = [rng.choice([0, 2 ** 20, 10 ** 6, 2 ** 23, -(10 ** 7), 12345678]) for _ in range(nobj)]
            moved = [[Fraction(v) + o for v, o in zip(p, off)] for p in pts]
            if self._exact(moved):
                pts = moved
        return pts, nobj

    def _sign(self, rng, pts, nobj):
        """the vector that multiplies the front first (`objfn_minmax` / `vec_wt` / `wt`): signs, in a quarter of the
        cases with unequal magnitudes (the min-max scaling removes any positive factor) or an ignored objective"""
        sign = [rng.choice([1, -1]) for _ in range(nobj)]
        if rng.random() < 0.25:
            mag = [s * rng.choice(self.SIGN_MAG) for s in sign]
            if rng.random() < 0.15:
                mag[rng.randrange(nobj)] = 0
            if self._products_exact(pts, mag):
                sign = mag
        return sign

    def _gen_dist(self, rng, kind="dist"):
        pts, nobj = self._front(rng)
        sign = self._sign(rng, pts, nobj)
        case = {"kind": kind, "mat": canon.enc(pts), "sign": canon.enc(sign), "line": self._line(rng, nobj)}
        if kind == "dist":
            case["variant"] = rng.choice(VARIANTS)
        case.update(self._dist_form(rng, pts))
        if any(Fraction(v).denominator != 1 for v in sign):
            case.pop("sdtype", None)
        if kind == "dist3":
            case.pop("call", None)
        if kind == "dist" and rng.random() < 0.12:
            # the protocol's default transformation with its default keyword arguments (all ones)
            case.update({"variant": "protocol", "sign": [1] * nobj, "line": [1] * nobj})
            for f in ("call", "sdtype"):
                case.pop(f, None)
        return case

    def _gen_dist_big(self, rng, tier):
        n = rng.choice([1030, 1100] + ([4100] if tier == "thorough" else []))
        nobj = rng.choice([2, 3])
        pts = [[rng.randint(0, 50) for _ in range(nobj)] for _ in range(n)]
        sign = [rng.choice([1, -1]) for _ in range(nobj)]
        return {"kind": "dist", "variant": rng.choice(VARIANTS), "mat": pts, "sign": sign, "line": self._line(rng, nobj)}

    def _gen_dist_pair(self, rng):
        pts, nobj = self._points(rng)
        if rng.random() < 0.3:                   # one constant objective
            j = rng.randrange(nobj)
            for p in pts:
                p[j] = pts[0][j]
        big = [2 ** 20, 10 ** 6, 2 ** 23, -(10 ** 7), 12345678]
        shift = [rng.choice([0, 3, -1] + big) for _ in range(nobj)]
        if not any(abs(v) > 1000 for v in shift):
            shift[rng.randrange(nobj)] = rng.choice(big)
        if not self._exact([[Fraction(v) + o for v, o in zip(p, shift)] for p in pts]):
            shift = [rng.choice([1, -2, 3, 0]) for _ in range(nobj)]     # near-tie / huge fronts: keep the sums exact
            if not any(shift):
                shift[0] = 1
            if not self._exact([[Fraction(v) + o for v, o in zip(p, shift)] for p in pts]):
                pts = [[Fraction(v).numerator % 5 for v in r] for r in pts]
        sign = [rng.choice([1, -1]) for _ in range(nobj)]
        line = [rng.choice([0, 1, 1, 2, 3]) for _ in range(nobj)]
        if not any(line):
            line[rng.randrange(nobj)] = 1
        return {"kind": "dist_pair", "variant": rng.choice(VARIANTS),
                "mat": canon.enc(pts), "shift": shift, "sign": sign, "line": line}

    def _gen_dist_zero(self, rng):
        # front collinear with the preference line: objective j is a_j + u_i * 2^k_j where the line is
        # non-zero, constant where it is zero; u takes the values 0 and 1 => scaled point = u_i * (1,..,1)
        npt = rng.choice([1, 2, 3, 5, 8])
        nobj = rng.choice([1, 1, 2, 3, 4])
        c = rng.choice([1, 2, 3] + self.LINES_ND)         # also non-dyadic: L.L * (1/L.L) need not round to 1
        line = [c * rng.choice([0, 1, 1]) for _ in range(nobj)]
        if not any(line):
            line[rng.randrange(nobj)] = c
        line = canon.enc([float(v) if isinstance(c, float) else v for v in line])
        us = [Fraction(rng.randint(0, 8), 8) for _ in range(npt)]
        if npt >= 2:
            us[0], us[1] = Fraction(0), Fraction(1)
            rng.shuffle(us)
        sg = rng.choice([1, -1])
        a = [rng.choice([0, 1, -3, 2 ** 20, 10 ** 6]) for _ in range(nobj)]
        k = [2 ** rng.randint(0, 4) for _ in range(nobj)]
        pts = [[a[j] + (u * k[j] if line[j] else 0) for j in range(nobj)] for u in us]
        return {"kind": "dist", "variant": rng.choice(VARIANTS),
                "mat": canon.enc(pts), "sign": [sg] * nobj, "line": line, "expect_zero": True}

    def _gen_dist_seq(self, rng):
        pts, nobj = self._points(rng)
        pts = [[Fraction(v) for v in r] for r in pts]
        npt = len(pts)
        steps = []
        sign = [rng.choice([1, -1]) for _ in range(nobj)]
        line = self._line(rng, nobj)
        for s in range(rng.randint(2, 4)):
            if s:
                what = rng.random()
                if what < 0.6:
                    i, j = rng.randrange(npt), rng.randrange(nobj)
                    old = pts[i][j]
                    pts[i][j] = pts[i][j] + rng.choice([1, -1, 2, 5, Fraction(1, 2)])
                    if not self._exact([[pts[i][j]]]):
                        pts[i][j] = old
                        pts[i][j] = pts[rng.randrange(npt)][j]
                        if pts[i][j] == old:
                            pts[i][j] = Fraction(rng.randint(0, 3))
                elif what < 0.8:
                    sign = [rng.choice([1, -1]) for _ in range(nobj)]
                else:
                    line = self._line(rng, nobj)
            steps.append({"variant": rng.choice(VARIANTS), "mat": canon.enc(pts), "sign": list(sign), "line": line})
        return {"kind": "dist_seq", "steps": steps}

    def _gen_wsum(self, rng):
        pts, nobj = self._points(rng, mixed=False)
        fn = rng.choice(["dot", "dot", "sum1", "sum0", "sumall", "latent_sum", "latent_dot"])
        if any(Fraction(v).denominator > 2 ** 21 for r in pts for v in r):
            pts = [[Fraction(v).numerator % 7 for v in r] for r in pts]        # keep float sums exact
        if fn in ("latent_sum", "latent_dot"):
            case = {"kind": "wsum", "fn": fn, "vec": canon.enc(pts[0])}
            if fn == "latent_dot":
                case["wt"] = canon.enc([rng.choice(self.WTS) for _ in range(nobj)])
            return case
        case = {"kind": "wsum", "fn": fn, "mat": canon.enc(pts)}
        if fn == "dot":
            case["wt"] = canon.enc([rng.choice(self.WTS) for _ in range(nobj)])
        return case

    def _assert_exact(self, case):
        """generator self-check: the numbers handed to numpy are binary64 numbers, so that the model (exact rationals)
        and the implementation see the same input; a case that fails the test is not run"""
        mats = []
        for key in ("fmat", "mat"):
            if key in case:
                mats.append(case[key])
        for st in case.get("steps", []):
            for key in ("fmat", "mat"):
                if key in st:
                    mats.append(st[key])
            for key in ("obj1", "obj2"):
                if key in st:
                    mats.append([st[key]])
        for key in ("obj1", "obj2", "vec"):
            if key in case:
                mats.append([case[key]])
        if case["kind"] == "dist_pair":
            mats.append(self._translated(case))
        for m in mats:
            if len(m) <= 64 and not self._exact(m):
                return False
        return True

    def generate(self, rng, n, tier):
        out = []
        for c in self._generate(rng, n, tier):
            if self._assert_exact(c):
                out.append(c)
            else:
                # never seen in 100 000 generated cases; such a case would compare the model on numbers the
                # implementation never saw, so it is not run (and said so) instead of risking a false verdict
                import sys
                print(f"[C19] generator self-check: dropped a case with a value that is not a binary64 number: "
                      f"{json.dumps(c)[:300]}", file=sys.stderr)
        return out

    def _generate(self, rng, n, tier):
        out = []
        nbig = 2 if tier == "quick" else max(4, n // 150)
        for i in range(nbig):
            out.append(self._gen_big(rng, tier) if i % 2 == 0 else self._gen_dist_big(rng, tier))
        for i in range(n - nbig):
            r = rng.random()
            if r < 0.33:
                out.append(self._gen_pareto(rng))
            elif r < 0.37:
                out.append(self._gen_pareto_seq(rng))
            elif r < 0.42:
                out.append(self._gen_pareto_perm(rng))
            elif r < 0.58:
                out.append(self._gen_dominates(rng))
            elif r < 0.595:
                out.append(self._gen_dominates_seq(rng))
            elif r < 0.61:
                out.append(self._gen_pareto_dom(rng))
            elif r < 0.685:
                out.append(self._gen_dist_pair(rng))
            elif r < 0.72:
                out.append(self._gen_dist_zero(rng))
            elif r < 0.80:
                out.append(self._gen_dist(rng, "dist3"))
            elif r < 0.83:
                out.append(self._gen_dist_seq(rng))
            elif r < 0.87:
                out.append(self._gen_wsum(rng))
            else:
                out.append(self._gen_dist(rng))
        return out

    # ------------------------------------------------------------------ implementation
    @staticmethod
    def _pareto_calls(pareto, fmat, wt, order, flag="py", kw=None):
        """mask and index forms on the SAME array objects, in the requested order; `flag` = how the Boolean
        `return_mask` is spelled (Python bool, numpy.bool_, 0/1); `kw` = keyword call forms (the NSGA-II wrapper
        calls `is_pareto_efficient(pop_soln, wt = objfn_wt, return_mask = True)`)"""
        T, F = {"py": (True, False), "np": (numpy.bool_(True), numpy.bool_(False)), "int": (1, 0)}[flag]
        mask = idx = None
        fn = pareto.is_pareto_efficient
        if kw == "wt":
            call3 = lambda rm: fn(fmat, wt=wt, return_mask=rm)
            call2 = lambda: fn(fmat, wt=wt)
        elif kw == "all":
            call3 = lambda rm: fn(fmat=fmat, wt=wt, return_mask=rm)
            call2 = lambda: fn(wt=wt, fmat=fmat)
        else:
            call3 = None
        if call3 is not None:
            if order in ("mask_first", "mask_only"):
                mask = call3(T)
                if order == "mask_first":
                    idx = call3(F)
            else:
                idx = call3(F)
                if order == "idx_first":
                    mask = call2()
            return mask, idx
        if order in ("mask_first", "mask_only"):
            mask = fn(fmat, wt, return_mask=T)
            if order == "mask_first":
                idx = fn(fmat, wt, F)
        else:
            idx = fn(fmat, wt, return_mask=F)
            if order == "idx_first":
                mask = fn(fmat, wt)          # return_mask defaults to True
        return mask, idx

    @staticmethod
    def _forms(mask, idx, npt):
        """what kind of arrays the two forms are: a Boolean vector with one entry per point / a vector of integers
        (a 0/1 integer `mask` used as `fmat[mask]` would select points 0 and 1 instead of filtering)"""
        bad = []
        if mask is not None:
            m = numpy.asarray(mask)
            if m.dtype != numpy.bool_ or m.shape != (npt,):
                bad.append(f"mask form is {m.dtype}{m.shape}, expected bool({npt},)")
        if idx is not None:
            a = numpy.asarray(idx)
            if a.ndim != 1 or not (numpy.issubdtype(a.dtype, numpy.integer) or a.size == 0):
                bad.append(f"index form is {a.dtype}{a.shape}, expected a vector of integers")
        return bad

    def _impl_wt(self, case, wt=None):
        wt = case["wt"] if wt is None else wt
        if case.get("wdtype", "float64").startswith("int"):
            return self._wform(_vec(wt, case["wdtype"]), case.get("wform"))
        w = _vec(wt)
        if case.get("scale"):
            w = w * numpy.array([_f(s) for s in case["scale"]])
        return self._wform(w, case.get("wform"))

    @staticmethod
    def _wform(w, form):
        if form == "col":
            return w.reshape(-1, 1)
        if form == "row":
            return w.reshape(1, -1)
        if form == "strided":
            big = numpy.full(2 * len(w) + 1, 55.0, dtype=w.dtype)
            big[::2][:len(w)] = w
            return big[::2][:len(w)]
        return w

    def _dist_call(self, mods, variant, mat, sign, line, call="pos"):
        _, ctrans, ptrans, transfn, _ = mods
        if variant == "protocol":
            # the default `ndset_trans` / `ndset_trans_kwargs` of SelectionProtocol, obtained through the property
            # setters (no protocol object is needed for that) and called the way SubsetSelectionProtocol.select does
            import pybrops.breed.prot.sel.SelectionProtocol as SP

            class _Holder:
                pass
            h = _Holder()
            h.nobj = h._nobj = int(mat.shape[1])
            try:
                SP.SelectionProtocol.ndset_trans.fset(h, None)
                SP.SelectionProtocol.ndset_trans_kwargs.fset(h, None)
                fn, kw = SP.SelectionProtocol.ndset_trans.fget(h), SP.SelectionProtocol.ndset_trans_kwargs.fget(h)
            except AttributeError:
                # the class no longer exposes the two properties this way: use the documented default directly
                fn = ptrans.trans_ndpt_to_vec_dist
                kw = {"obj_wt": numpy.repeat(1.0, h.nobj), "vec_wt": numpy.repeat(1.0, h.nobj)}
            return fn(mat, **kw)
        fn = {"core": ctrans.trans_ndpt_pseudo_dist, "prob": ptrans.trans_ndpt_to_vec_dist,
              "transfn": transfn.trans_ndpt_to_vec_dist}[variant]
        skw, lkw = DIST_KW[variant]
        extra = {"verbose": False, "nobj": int(mat.shape[1])}
        if call == "pos":
            return fn(mat, sign, line) if variant == "core" else fn(mat, line, sign)
        if call == "pos_extra":
            return fn(mat, sign, line, **extra) if variant == "core" else fn(mat, line, sign, **extra)
        kw = {skw: sign, lkw: line}
        if call == "kw_extra":
            kw.update(extra)
        return fn(mat, **kw)

    def run_impl(self, case):
        limit = 600 if case["kind"] == "pareto_exh" else (60 if len(case.get("fmat", case.get("mat", []))) > 2000 else 5)
        try:
            with _deadline(limit):
                return self._run_impl(case)
        except TimeoutError:
            self._timeouts = getattr(self, "_timeouts", 0) + 1
            raise

    def _run_impl(self, case):
        mods = _mods()
        pareto, ctrans, ptrans, transfn, addon = mods
        k = case["kind"]
        if k == "pareto_exh":
            return self._run_exh(pareto, case)
        if k == "pareto":
            fmat = _arr(case["fmat"], case.get("fdtype", "float64"), case.get("layout", "C"), ncol=len(case["wt"]))
            wt = self._impl_wt(case)
            f0, w0 = fmat.copy(), wt.copy()
            mask, idx = self._pareto_calls(pareto, fmat, wt, case.get("order", "mask_first"), case.get("flag", "py"),
                                           case.get("kw"))
            return {"mask": canon.enc(mask), "idx": canon.enc(idx), "forms": self._forms(mask, idx, len(case["fmat"])),
                    "input_untouched": bool((f0 == fmat).all() and (w0 == wt).all())}
        if k == "pareto_perm":
            fmat = _arr(case["fmat"], case.get("fdtype", "float64"), case.get("layout", "C"))
            wt = self._impl_wt(case)
            f0 = fmat.copy()
            mask, idx = self._pareto_calls(pareto, fmat, wt, "mask_first")
            fp = numpy.ascontiguousarray(fmat[case["perm"]])
            maskp, idxp = self._pareto_calls(pareto, fp, wt, "idx_first")
            return {"mask": canon.enc(mask), "idx": canon.enc(idx), "maskp": canon.enc(maskp), "idxp": canon.enc(idxp),
                    "input_untouched": bool((f0 == fmat).all())}
        if k == "pareto_seq":
            steps = case["steps"]
            A = _arr(steps[0]["fmat"], case.get("fdtype", "float64")).copy()
            W = _vec(steps[0]["wt"]).copy()
            kept, snaps, outs = [], [], []
            untouched = True
            prev = None
            for st in steps:
                # the same array objects throughout: edited in place only where the step changes them
                if prev is None or st["fmat"] != prev["fmat"]:
                    A[...] = _arr(st["fmat"])
                if prev is None or st["wt"] != prev["wt"]:
                    W[...] = _vec(st["wt"])
                prev = st
                a0, w0 = A.copy(), W.copy()
                mask, idx = self._pareto_calls(pareto, A, W, st.get("order", "mask_first"))
                untouched = untouched and bool((a0 == A).all() and (w0 == W).all())
                for r in (mask, idx):
                    if r is not None:
                        kept.append(r)
                        snaps.append(numpy.array(r, copy=True))
                outs.append({"mask": canon.enc(mask), "idx": canon.enc(idx)})
            stable = all(a.shape == b.shape and bool((a == b).all()) for a, b in zip(kept, snaps))
            return {"steps": outs, "input_untouched": untouched, "results_stable": stable}
        if k == "dominates":
            od = case.get("odtype", "float64")
            o1, o2 = _vec(case["obj1"], od), _vec(case["obj2"], od)
            of = case.get("oform")
            if of == "row_of_F":
                # the two vectors as rows of one Fortran-ordered objective matrix (`F[0]`, `F[1]` of a population)
                Fm = numpy.asfortranarray(numpy.stack([o1, o2]))
                o1, o2 = Fm[0], Fm[1]
            elif of:
                o1, o2 = self._wform(o1, "strided"), (o2[::-1].copy()[::-1] if of == "rev" else self._wform(o2, "strided"))
            form = case.get("cvform", "pyfloat")
            cv = {"pyfloat": lambda c: _f(c), "int": lambda c: int(Fraction(c)),
                  "np64": lambda c: numpy.float64(_f(c)), "0d": lambda c: numpy.array(_f(c))}[form]
            a0, b0 = o1.copy(), o2.copy()
            r = addon.dominates(o1, cv(case["cv1"]), o2, cv(case["cv2"]))
            return {"dom": bool(r), "input_untouched": bool((a0 == o1).all() and (b0 == o2).all())}
        if k == "pareto_dom":
            F = _arr(case["fmat"])
            n = len(F)
            wt = -numpy.ones(F.shape[1])
            mask = pareto.is_pareto_efficient(F, wt, return_mask=True)
            cv = _f(case["cv"])
            dom = [[bool(addon.dominates(F[j], cv, F[i], cv)) for i in range(n)] for j in range(n)]
            return {"mask": canon.enc(mask), "dom": dom}
        if k == "dominates_seq":
            steps = case["steps"]
            A, B = _vec(steps[0]["obj1"]).copy(), _vec(steps[0]["obj2"]).copy()
            outs, untouched = [], True
            for st in steps:
                A[...] = _vec(st["obj1"])
                B[...] = _vec(st["obj2"])
                a0, b0 = A.copy(), B.copy()
                c1, c2 = _f(st["cv1"]), _f(st["cv2"])
                r = addon.dominates(B, c2, A, c1) if st.get("swap") else addon.dominates(A, c1, B, c2)
                untouched = untouched and bool((a0 == A).all() and (b0 == B).all())
                outs.append(bool(r))
            return {"steps": outs, "input_untouched": untouched}
        if k in ("dist", "dist_pair", "dist3"):
            sign = _vec(case["sign"], case.get("sdtype", "float64"))
            line = _vec(case["line"])

            def call(rows, v):
                mat = _arr(rows, case.get("mdtype", "float64"), case.get("layout", "C"))
                m0, s0, l0 = mat.copy(), sign.copy(), line.copy()
                d = self._dist_call(mods, v, mat, sign, line, case.get("call", "pos"))
                ok = bool((m0 == mat).all() and (s0 == sign).all() and (l0 == line).all())
                return canon.enc(d), ok

            if k == "dist":
                d, ok = call(case["mat"], case["variant"])
                return {"d": d, "input_untouched": ok}
            if k == "dist3":
                res = [call(case["mat"], v) for v in VARIANTS]
                return {"d3": [r[0] for r in res], "input_untouched": all(r[1] for r in res)}
            d, ok = call(case["mat"], case["variant"])
            dt, okt = call(self._translated(case), case["variant"])
            return {"d": d, "dt": dt, "input_untouched": ok and okt}
        if k == "dist_seq":
            steps = case["steps"]
            A = _arr(steps[0]["mat"]).copy()
            S = _vec(steps[0]["sign"]).copy()
            L = _vec(steps[0]["line"]).copy()
            kept, snaps, outs = [], [], []
            untouched = True
            prev = None
            for st in steps:
                if prev is None or st["mat"] != prev["mat"]:
                    A[...] = _arr(st["mat"])
                if prev is None or st["sign"] != prev["sign"]:
                    S[...] = _vec(st["sign"])
                if prev is None or st["line"] != prev["line"]:
                    L[...] = _vec(st["line"])
                prev = st
                a0, s0, l0 = A.copy(), S.copy(), L.copy()
                d = self._dist_call(mods, st["variant"], A, S, L)
                untouched = untouched and bool((a0 == A).all() and (s0 == S).all() and (l0 == L).all())
                kept.append(d)
                snaps.append(numpy.array(d, copy=True))
                outs.append(canon.enc(d))
            stable = all(a.shape == b.shape and bool((a == b).all()) for a, b in zip(kept, snaps))
            return {"steps": outs, "input_untouched": untouched, "results_stable": stable}
        if k == "wsum":
            fn = case["fn"]
            if fn == "dot":
                return {"out": canon.enc(transfn.trans_dot(_arr(case["mat"]), _vec(case["wt"])))}
            if fn in ("sum1", "sum0", "sumall"):
                axis = {"sum1": 1, "sum0": 0, "sumall": None}[fn]
                return {"out": canon.enc(transfn.trans_sum(_arr(case["mat"]), axis))}
            decn = numpy.zeros(3)
            if fn == "latent_sum":
                return {"out": canon.enc(ptrans.trans_sum(decn, _vec(case["vec"])))}
            return {"out": canon.enc(ptrans.trans_dot(decn, _vec(case["vec"]), _vec(case["wt"])))}
        raise ValueError(k)

    @staticmethod
    def _translated(case):
        """the front of a dist_pair case translated by its shift (exact, canonical encoding)"""
        return canon.enc([[Fraction(v) + Fraction(o) for v, o in zip(r, case["shift"])] for r in case["mat"]])

    @staticmethod
    def _sq(d):
        """implementation distances -> exact squares as canonical rationals (None for NaN / inf)"""
        out = []
        for x in d:
            y = canon.dec(x)
            out.append(None if isinstance(y, str) or y is None else canon.enc(y * y))
        return out

    def _spec_req(self, case, mat, d, abs_=None):
        return {"op": "c19.spec_dist", "mat": mat, "sign": case["sign"], "line": case["line"], "d2": self._sq(d),
                "rel": canon.enc(self.REL), "abs": canon.enc(self.ABS if abs_ is None else abs_)}

    @staticmethod
    def _close_req(d, d2):
        """two result vectors of the implementation (distances, not squared) -> Pareto.Q.specCloseAll"""
        fin = lambda v: [None if isinstance(canon.dec(x), str) or canon.dec(x) is None else x for x in v]
        return {"op": "c19.spec_close", "d": fin(d), "d2": fin(d2), "rel": "1/1000000000", "abs": "1/1000000000"}

    # ------------------------------------------------------------------ model requests
    @staticmethod
    def _preq(fmat, wt, mask, idx):
        return [{"op": "c19.pareto", "fmat": fmat, "wt": wt},
                {"op": "c19.spec_pareto", "fmat": fmat, "wt": wt, "mask": mask, "idx": idx}]

    @staticmethod
    def _fill(mask, idx, n):
        """a step that called only one form: derive the other one so that the Spec op sees a consistent pair"""
        if mask is None and idx is not None:
            mask = [i in set(idx) for i in range(n)]
        if idx is None and mask is not None:
            idx = [i for i, b in enumerate(mask) if b]
        return mask, idx

    def requests(self, case, obs):
        k = case["kind"]
        if k == "pareto_exh":
            return [{"op": "c19.exh", **{f: case[f] for f in ("lv", "nobj", "npt", "start", "count", "wt")},
                     "masks": obs["masks"]}]
        if k == "pareto":
            if obs.get("forms"):
                return [{"op": "c19.pareto", "fmat": case["fmat"], "wt": case["wt"]}]
            return self._preq(case["fmat"], case["wt"], obs["mask"], obs["idx"])
        if k == "pareto_perm":
            fp = [case["fmat"][i] for i in case["perm"]]
            return (self._preq(case["fmat"], case["wt"], obs["mask"], obs["idx"]) +
                    self._preq(fp, case["wt"], obs["maskp"], obs["idxp"]) +
                    [{"op": "c19.spec_same_vectors", "fmat": case["fmat"], "fmat2": fp, "wt": case["wt"],
                      "mask": [bool(b) for b in obs["mask"]], "mask2": [bool(b) for b in obs["maskp"]]}])
        if k == "pareto_seq":
            out = []
            for st, o in zip(case["steps"], obs["steps"]):
                mask, idx = self._fill(o["mask"], o["idx"], len(st["fmat"]))
                out += self._preq(st["fmat"], st["wt"], mask, idx)
            return out
        if k == "dominates":
            args = {x: case[x] for x in ("obj1", "cv1", "obj2", "cv2")}
            return [{"op": "c19.dominates", **args}, {"op": "c19.spec_dominates", **args, "claimed": obs["dom"]}]
        if k == "pareto_dom":
            return [{"op": "c19.pareto", "fmat": case["fmat"], "wt": [-1] * len(case["fmat"][0])}]
        if k == "dominates_seq":
            out = []
            for st, d in zip(case["steps"], obs["steps"]):
                args = self._dom_args(st)
                out += [{"op": "c19.dominates", **args}, {"op": "c19.spec_dominates", **args, "claimed": d}]
            return out
        if k == "dist":
            abs_ = self.ABS_ZERO if case.get("expect_zero") else self.ABS
            return [{"op": "c19.dist", "mat": case["mat"], "sign": case["sign"], "line": case["line"],
                     "guarded": True, "variant": MODEL_VARIANT[case["variant"]]},
                    self._spec_req(case, case["mat"], obs["d"], abs_)]
        if k == "dist3":
            return ([{"op": "c19.dist", "mat": case["mat"], "sign": case["sign"], "line": case["line"],
                      "guarded": True, "variant": v} for v in VARIANTS] +
                    [self._spec_req(case, case["mat"], d) for d in obs["d3"]] +
                    [self._close_req(obs["d3"][0], d) for d in obs["d3"][1:]])
        if k == "dist_pair":
            mt = self._translated(case)
            return [{"op": "c19.dist", "mat": case["mat"], "sign": case["sign"], "line": case["line"],
                     "guarded": True, "variant": case["variant"]},
                    {"op": "c19.dist", "mat": mt, "sign": case["sign"], "line": case["line"], "guarded": True,
                     "variant": case["variant"]},
                    self._spec_req(case, case["mat"], obs["d"]),
                    self._spec_req(case, mt, obs["dt"]),
                    self._close_req(obs["d"], obs["dt"])]
        if k == "dist_seq":
            out = []
            for st, d in zip(case["steps"], obs["steps"]):
                out.append({"op": "c19.dist", "mat": st["mat"], "sign": st["sign"], "line": st["line"],
                            "guarded": True, "variant": MODEL_VARIANT[st["variant"]]})
                out.append(self._spec_req(st, st["mat"], d))
            return out
        if k == "wsum":
            r = {"op": "c19.wsum", "fn": case["fn"]}
            for f in ("mat", "wt", "vec"):
                if f in case:
                    r[f] = case[f]
            return [r]
        raise ValueError(k)

    @staticmethod
    def _dom_args(st):
        """arguments of one step of a dominates history, in the order of the call that was made"""
        if st.get("swap"):
            return {"obj1": st["obj2"], "cv1": st["cv2"], "obj2": st["obj1"], "cv2": st["cv1"]}
        return {x: st[x] for x in ("obj1", "cv1", "obj2", "cv2")}

    @staticmethod
    def _py_dominates(a):
        """the second sentence of the property, written out in Python (cross-check of the Lean Spec)"""
        o1 = [Fraction(v) for v in a["obj1"]]
        o2 = [Fraction(v) for v in a["obj2"]]
        c1, c2 = Fraction(a["cv1"]), Fraction(a["cv2"])
        if c1 <= 0 and c2 <= 0:
            return all(x <= y for x, y in zip(o1, o2)) and any(x < y for x, y in zip(o1, o2))
        return c1 < c2

    # ------------------------------------------------------------------ judge
    def _judge_pareto(self, m, s, mask, idx, called=("mask", "idx")):
        corr = all((m[f] == v) for f, v in (("mask", mask), ("idx", idx)) if f in called)
        return corr, bool(s["ok"]), s["detail"]

    def judge(self, case, obs, answers):
        k = case["kind"]
        if k == "pareto" and obs.get("forms"):
            return {"corr": False, "spec": False, "nontrivial": len(case["fmat"]) >= 2,
                    "detail": f"pareto impl={self._short(obs)} " + "; ".join(obs["forms"])}
        for a in answers:
            if "err" in a:
                raise RuntimeError("driver error: " + a["err"])
        if k == "pareto_exh":
            a = answers[0]["ok"]
            bad = a["spec_bad"]
            corr = a["model"] == obs["masks"] and obs["idx_bad"] is None and obs["order_bad"] is None
            spec = not bad and obs["idx_bad"] is None
            first = bad[0] if bad else obs["idx_bad"]
            why = "" if first is None else f" first failing set #{first}: {self._exh_set(case['lv'], case['nobj'], case['npt'], first)}"
            return {"corr": corr, "spec": spec, "nontrivial": case["npt"] >= 2,
                    "detail": f"pareto_exh {case['count']} sets from #{case['start']} ({case['npt']} points x {case['nobj']} "
                              f"objectives over 0..{case['lv'] - 1}, wt={case['wt']}): spec_false={len(bad)} "
                              f"mask_vs_index_disagreement={obs['idx_bad']}{why}"}
        if k == "pareto" and obs.get("forms"):
            # the results are not a Boolean mask / an integer index vector at all: nothing further to compare
            return {"corr": False, "spec": False, "nontrivial": len(case["fmat"]) >= 2,
                    "detail": f"pareto impl={self._short(obs)} " + "; ".join(obs["forms"])}
        if k == "pareto":
            corr, spec, why = self._judge_pareto(answers[0]["ok"], answers[1]["ok"], obs["mask"], obs["idx"])
            spec = spec and obs["input_untouched"] and not obs.get("forms")
            if obs.get("forms"):
                why += " " + "; ".join(obs["forms"])
            pts = [tuple(r) for r in case["fmat"]]
            nontriv = len(set(map(str, pts))) >= 2 and (not all(obs["mask"]))
            return {"corr": corr, "spec": spec, "nontrivial": nontriv,
                    "detail": f"pareto model={self._short(answers[0]['ok'])} impl={self._short(obs)} spec={why}"}
        if k == "pareto_perm":
            c0, s0, w0 = self._judge_pareto(answers[0]["ok"], answers[1]["ok"], obs["mask"], obs["idx"])
            c1, s1, w1 = self._judge_pareto(answers[2]["ok"], answers[3]["ok"], obs["maskp"], obs["idxp"])
            fp = [case["fmat"][i] for i in case["perm"]]
            wt = [Fraction(w) for w in case["wt"]]
            wv = lambda r: tuple(Fraction(v) * w for v, w in zip(r, wt))
            e0 = {wv(r) for r, b in zip(case["fmat"], obs["mask"]) if b}
            e1 = {wv(r) for r, b in zip(fp, obs["maskp"]) if b}
            same = e0 == e1
            # Spec of "unaffected by the order of points": Pareto.Q.specSameVectors in Lean, cross-checked here
            if bool(answers[4]["ok"]) != same:
                raise RuntimeError(f"c19.spec_same_vectors ({answers[4]['ok']}) and the Python set comparison ({same}) "
                                   f"disagree on {case}")
            m0, m1 = answers[0]["ok"], answers[2]["ok"]
            # model: one index per distinct efficient vector, so the number of efficient indices is order independent
            corr = c0 and c1 and len(m0["idx"]) == len(m1["idx"])
            nontriv = len(set(map(str, case["fmat"]))) >= 2 and not all(obs["mask"]) and case["perm"] != sorted(case["perm"])
            return {"corr": corr, "spec": s0 and s1 and same and obs["input_untouched"], "nontrivial": nontriv,
                    "detail": f"pareto_perm impl={self._short(obs)} original: {w0} permuted: {w1} same_efficient_vectors={same}"}
        if k == "pareto_seq":
            corr, spec, why = True, True, []
            for i, (st, o) in enumerate(zip(case["steps"], obs["steps"])):
                called = [f for f in ("mask", "idx") if o[f] is not None]
                mask, idx = self._fill(o["mask"], o["idx"], len(st["fmat"]))
                c, s, w = self._judge_pareto(answers[2 * i]["ok"], answers[2 * i + 1]["ok"], mask, idx, called)
                corr, spec = corr and c, spec and s
                why.append(f"step {i}: model={answers[2 * i]['ok']} impl={o} {w}")
            spec = spec and obs["input_untouched"] and obs["results_stable"]
            return {"corr": corr, "spec": spec, "nontrivial": len(case["steps"][0]["fmat"]) >= 2,
                    "detail": f"pareto_seq input_untouched={obs['input_untouched']} results_stable={obs['results_stable']} "
                              + " | ".join(why)}
        if k == "dominates":
            m, s = answers[0]["ok"], answers[1]["ok"]
            corr = (m == obs["dom"])
            # Spec: Pareto.Q.specDominates in Lean, cross-checked against an independent Python rendering
            o1 = [Fraction(v) for v in case["obj1"]]
            o2 = [Fraction(v) for v in case["obj2"]]
            c1, c2 = Fraction(case["cv1"]), Fraction(case["cv2"])
            if c1 <= 0 and c2 <= 0:
                want = all(a <= b for a, b in zip(o1, o2)) and any(a < b for a, b in zip(o1, o2))
            else:
                want = c1 < c2
            if want != s["want"]:
                raise RuntimeError(f"c19.spec_dominates ({s}) and the Python definition ({want}) disagree on {case}")
            return {"corr": corr and obs.get("input_untouched", True), "spec": bool(s["ok"]), "nontrivial": o1 != o2,
                    "detail": f"dominates model={m} impl={obs['dom']} definition={want} "
                              f"input_untouched={obs.get('input_untouched', True)}"}
        if k == "pareto_dom":
            m = answers[0]["ok"]
            mask, dom, rows = obs["mask"], obs["dom"], case["fmat"]
            n = len(rows)
            bad = None
            for i in range(n):
                dominated = any(dom[j][i] for j in range(n))
                if mask[i] and dominated:
                    bad = f"point {i} is marked efficient but dominates(point {[j for j in range(n) if dom[j][i]][0]}, point {i}) is True"
                if not mask[i] and not any(mask[j] and (dom[j][i] or rows[j] == rows[i]) for j in range(n)):
                    bad = f"point {i} is unmarked but no marked point dominates or equals it"
                if bad:
                    break
            return {"corr": m["mask"] == mask, "spec": bad is None, "nontrivial": n >= 2 and not all(mask),
                    "detail": f"pareto_dom mask={mask} model={m['mask']} filter_vs_dominates={'agree' if bad is None else bad}"}
        if k == "dominates_seq":
            corr, spec, why = True, True, []
            for i, (st, d) in enumerate(zip(case["steps"], obs["steps"])):
                m, s = answers[2 * i]["ok"], answers[2 * i + 1]["ok"]
                a = self._dom_args(st)
                want = self._py_dominates(a)
                if want != s["want"]:
                    raise RuntimeError(f"c19.spec_dominates ({s}) and the Python definition ({want}) disagree on {a}")
                corr, spec = corr and (m == d), spec and bool(s["ok"])
                why.append(f"step {i}: dominates({a['obj1']}, {a['cv1']}, {a['obj2']}, {a['cv2']}) impl={d} definition={want}")
            return {"corr": corr and obs["input_untouched"], "spec": spec,
                    "nontrivial": any(st["obj1"] != st["obj2"] for st in case["steps"]),
                    "detail": f"dominates_seq input_untouched={obs['input_untouched']} " + " | ".join(why)}
        if k == "dist":
            m = answers[0]["ok"]
            d = obs["d"]
            corr = self._corr_dist(m, d) and obs["input_untouched"]
            abs_ = self.ABS_ZERO if case.get("expect_zero") else self.ABS
            spec, why = self._lean_spec(case, case["mat"], d, answers[1]["ok"], abs_)
            if case.get("expect_zero") and m is not None:
                corr = corr and all(canon.dec(y) == 0 for y in m)    # exact 0 in the model
            nontriv = len(case["mat"]) >= 2 and len(case["sign"]) >= 2
            return {"corr": corr, "spec": spec, "nontrivial": nontriv,
                    "detail": f"dist[{case['variant']}] model={self._short(m)} impl={self._short(d)} {why}"}
        if k == "dist3":
            ms = [a["ok"] for a in answers[:3]]
            ds = obs["d3"]
            corr = all(self._corr_dist(m, d) for m, d in zip(ms, ds)) and ms[0] == ms[1] == ms[2] and obs["input_untouched"]
            spec, why = True, []
            for v, d, a in zip(VARIANTS, ds, answers[3:]):
                s, w = self._lean_spec(case, case["mat"], d, a["ok"], self.ABS)
                spec = spec and s
                why.append(f"{v}: {w}")
            finite = all(not isinstance(canon.dec(x), str) for d in ds for x in d)
            agree = finite and all(len(d) == len(ds[0]) for d in ds) and all(
                canon.close(canon.dec(x), canon.dec(y), rel=self.REL, abs_=self.REL)
                for d in ds[1:] for x, y in zip(ds[0], d))
            lean_agree = all(bool(a["ok"]) for a in answers[6:8])
            if lean_agree != agree:
                raise RuntimeError(f"c19.spec_close ({[a['ok'] for a in answers[6:8]]}) and canon.close ({agree}) disagree on {ds}")
            nontriv = len(case["mat"]) >= 2 and len(case["sign"]) >= 2
            return {"corr": corr and agree, "spec": spec, "nontrivial": nontriv,
                    "detail": f"dist3 impl={self._short(ds)} copies_agree={agree} " + " ".join(why)}
        if k == "dist_pair":
            m, mt = answers[0]["ok"], answers[1]["ok"]
            d, dt = obs["d"], obs["dt"]
            # model side: translation invariance is a theorem (C19.Q_dist_translation_invariant): exact equality
            corr = self._corr_dist(m, d) and self._corr_dist(mt, dt) and m == mt and obs["input_untouched"]
            s0, why0 = self._lean_spec(case, case["mat"], d, answers[2]["ok"], self.ABS)
            s1, why1 = self._lean_spec(case, self._translated(case), dt, answers[3]["ok"], self.ABS)
            finite = all(not isinstance(canon.dec(x), str) for x in list(d) + list(dt))
            same = finite and len(d) == len(dt) and all(
                canon.close(canon.dec(x), canon.dec(y), rel=self.REL, abs_=self.REL) for x, y in zip(d, dt))
            if bool(answers[4]["ok"]) != same:
                raise RuntimeError(f"c19.spec_close ({answers[4]['ok']}) and canon.close ({same}) disagree on {d} / {dt}")
            spec = s0 and s1 and same
            nontriv = len(case["mat"]) >= 2 and len(case["sign"]) >= 2 and any(case["shift"])
            return {"corr": corr, "spec": spec, "nontrivial": nontriv,
                    "detail": f"dist_pair[{case['variant']}] model={m} impl={d} impl_translated={dt} "
                              f"translation_invariant={same} original: {why0} translated: {why1}"}
        if k == "dist_seq":
            corr, spec, why = True, True, []
            for i, (st, d) in enumerate(zip(case["steps"], obs["steps"])):
                corr = corr and self._corr_dist(answers[2 * i]["ok"], d)
                s, w = self._lean_spec(st, st["mat"], d, answers[2 * i + 1]["ok"], self.ABS)
                spec = spec and s
                why.append(f"step {i} [{st['variant']}]: impl={d} {w}")
            spec = spec and obs["results_stable"]
            corr = corr and obs["input_untouched"]
            nontriv = len(case["steps"][0]["mat"]) >= 2 and len(case["steps"][0]["sign"]) >= 2
            return {"corr": corr, "spec": spec, "nontrivial": nontriv,
                    "detail": f"dist_seq input_untouched={obs['input_untouched']} results_stable={obs['results_stable']} "
                              + " | ".join(why)}
        if k == "wsum":
            # outside the property statement (only the distance transformations are named): correspondence only
            m = answers[0]["ok"]
            corr = canon.close_enc(m, obs["out"], rel=1e-12, abs_=1e-12)
            return {"corr": corr, "spec": True, "nontrivial": True,
                    "detail": f"wsum[{case['fn']}] model={m} impl={obs['out']}"}
        raise ValueError(k)

    @staticmethod
    def _short(x, lim=400):
        s = str(x)
        return s if len(s) <= lim else s[:lim] + "..."

    @staticmethod
    def _corr_dist(m, d):
        isnan = [x == "nan" for x in d]
        if m is None:
            return all(isnan) and len(d) > 0
        return (not any(isnan)) and len(m) == len(d) and all(
            not isinstance(canon.dec(x), str) and
            canon.close(canon.dec(x) ** 2, canon.dec(y), rel=1e-9, abs_=1e-12) for x, y in zip(d, m))

    def _lean_spec(self, case, mat, d, ans, abs_):
        """verdict of the Lean Spec op, cross-checked against the independent Python evaluation"""
        ok = bool(ans["ok"])
        py_ok, py_why = self._spec_dist(mat, case["sign"], case["line"], d, self.REL, abs_)
        if py_ok != ok:
            raise RuntimeError(f"c19.spec_dist ({ok}: {ans['detail']}) and the Python Spec ({py_ok}: {py_why}) "
                               f"disagree on mat={mat} sign={case['sign']} line={case['line']} d={d}")
        return ok, ans["detail"]

    @staticmethod
    def _spec_dist(mat, sign, line, d, rel, abs_):
        """geometric definition over exact rationals (cross-check of the Lean Spec): scale each signed
        objective to [0,1] (constant objective -> 0), distance from P to its projection on the preference line"""
        if any(isinstance(canon.dec(x), str) for x in d):
            return False, "non-finite distance"
        if len(d) != len(mat):
            return False, "one distance per point expected"
        sg = [Fraction(s) for s in sign]
        P = [[Fraction(v) * s for v, s in zip(r, sg)] for r in mat]
        cols = list(zip(*P)) if P else []
        sc = []
        for c in cols:
            lo, hi = min(c), max(c)
            sc.append([Fraction(0) if hi == lo else (x - lo) / (hi - lo) for x in c])
        Q = [list(r) for r in zip(*sc)] if sc else []
        L = [Fraction(v) for v in line]
        LL = sum(x * x for x in L)
        for q, x in zip(Q, d):
            t = sum(a * b for a, b in zip(q, L)) / LL
            want = sum((a - t * b) ** 2 for a, b in zip(q, L))
            got = canon.dec(x) ** 2
            diff = abs(got - want)
            if not (diff <= abs_ or diff <= rel * max(abs(got), abs(want))):
                return False, f"distance {x} != sqrt({want})"
        return True, "definition ok"

    # ------------------------------------------------------------------ exhaustive enumeration
    @staticmethod
    def _exh_set(lv, nobj, npt, k):
        digs = []
        for _ in range(nobj * npt):
            digs.append(k % lv)
            k //= lv
        digs.reverse()
        return [digs[i * nobj:(i + 1) * nobj] for i in range(npt)]

    def exhaustive(self, tier):
        """every ordered point set of `npt` points x `nobj` objectives over {0..lv-1} (blocks evaluated by c19.exh)"""
        if tier == "quick":
            specs = [(3, 2, 1, [1, 1]), (3, 2, 2, [1, 1]), (3, 2, 3, [1, -1]), (3, 1, 3, [-1]), (2, 3, 3, [1, 1, 1])]
            blocks = 1
        else:
            specs = ([(3, 1, n, [1]) for n in range(1, 7)] + [(3, 2, n, [1, 1]) for n in range(1, 6)] +
                     [(3, 2, 4, [1, -1]), (3, 2, 5, [-1, "1/2"]), (2, 4, 4, [1, -1, 1, 1])] +
                     [(3, 3, n, [1, 1, 1]) for n in range(1, 5)] + [(3, 3, 3, [1, -2, "1/2"])] +
                     [(3, 2, 6, [1, 1]), (2, 3, 5, [1, 1, -1]), (2, 2, 8, [1, 1]), (4, 2, 4, [1, -1])])
            blocks = None
        out = []
        for lv, nobj, npt, wt in specs:
            total = lv ** (nobj * npt)
            nb = 1 if blocks else max(1, total // 20000)
            size = -(-total // nb)
            for s in range(0, total, size):
                out.append({"kind": "pareto_exh", "lv": lv, "nobj": nobj, "npt": npt, "wt": wt,
                            "start": s, "count": min(size, total - s)})
        # every front of 2 (quick) / 2 and 3 (thorough) points over {0,1,2}^2 through the three copies of the distance
        # transformation (constant objectives, duplicates, points on the line all occur)
        grid2 = list(itertools.product(range(3), repeat=2))
        for pts in itertools.product(grid2, repeat=2):
            confs = [([1, 2], [1, -1])] if tier == "quick" else [([1, 2], [1, -1]), ([1, 1], [1, 1]), ([1, 0], [-1, 1])]
            for line, sign in confs:
                out.append({"kind": "dist3", "mat": [list(p) for p in pts], "sign": sign, "line": line})
        if tier != "quick":
            for pts in itertools.product(grid2, repeat=3):
                out.append({"kind": "dist3", "mat": [list(p) for p in pts], "sign": [1, -1], "line": [1, 2]})
        if tier != "quick":
            grid = list(itertools.product(range(3), repeat=2))
            cvs = [-1, 0, canon.enc(1e-9), 1, 2]
            for o1 in grid:
                for o2 in grid:
                    for c1 in cvs:
                        for c2 in cvs:
                            out.append({"kind": "dominates", "obj1": list(o1), "cv1": c1, "obj2": list(o2), "cv2": c2})
        return out

    def _run_exh(self, pareto, case):
        lv, nobj, npt = case["lv"], case["nobj"], case["npt"]
        wt = _vec(case["wt"])
        ks = numpy.arange(case["start"], case["start"] + case["count"], dtype=numpy.int64)
        D = numpy.empty((len(ks), nobj * npt), dtype=numpy.int64)
        rem = ks.copy()
        for c in range(nobj * npt - 1, -1, -1):
            D[:, c] = rem % lv
            rem //= lv
        F = D.reshape(len(ks), npt, nobj).astype(float)
        bits = []
        idx_bad = None          # Spec level: the two forms do not describe the same set of points
        order_bad = None        # correspondence level: index form not the ascending list the model returns
        for t in range(len(ks)):
            f = F[t]
            mask = pareto.is_pareto_efficient(f, wt, return_mask=True)
            idx = pareto.is_pareto_efficient(f, wt, return_mask=False)
            nz = numpy.flatnonzero(mask) if len(mask) == npt else None
            ia = numpy.asarray(idx)
            if idx_bad is None and not (numpy.asarray(mask).dtype == bool and nz is not None and ia.ndim == 1
                                        and len(set(ia.tolist())) == len(ia) and set(ia.tolist()) == set(nz.tolist())):
                idx_bad = int(ks[t])
            if order_bad is None and not (nz is not None and numpy.array_equal(nz, ia)):
                order_bad = int(ks[t])
            m = numpy.zeros(npt, dtype=bool)
            mm = numpy.asarray(mask)
            if mm.shape == (npt,):
                m = mm.astype(bool)
            bits.append("".join("1" if b else "0" for b in m))
        return {"masks": "".join(bits), "idx_bad": idx_bad, "order_bad": order_bad}

    # ------------------------------------------------------------------ findings / shrinking
    def signature(self, case, obs, verdict):
        sig = {"kind": case["kind"]}
        if case["kind"] in ("dist", "dist_pair"):
            sig["variant"] = case["variant"]
            P = [[Fraction(v) * Fraction(s) for v, s in zip(r, case["sign"])] for r in case["mat"]]
            sig["constant_objective"] = any(len(set(c)) == 1 for c in zip(*P))
            sig["nan"] = isinstance(obs, dict) and any(x == "nan" for x in obs.get("d", []))
        return sig

    def shrink(self, case):
        k = case["kind"]
        if getattr(self, "_timeouts", 0) > 6:
            return          # the implementation hangs on these inputs: report the case as it is
        if k == "pareto_exh":
            if case["count"] > 1:
                h = case["count"] // 2
                yield dict(case, count=h)
                yield dict(case, start=case["start"] + h, count=case["count"] - h)
            else:
                yield {"kind": "pareto", "fmat": self._exh_set(case["lv"], case["nobj"], case["npt"], case["start"]),
                       "wt": case["wt"]}
            return
        if k in ("pareto_seq", "dist_seq", "dominates_seq"):
            # only the END of a history is cut off: what remains still contains everything that happened before the
            # failing step, so the reported case does not depend on what this process evaluated earlier
            st = case["steps"]
            for m in range(1, len(st)):
                yield dict(case, steps=st[:m])
            return
        if k == "pareto_perm":
            n = len(case["fmat"])
            for i in range(n):
                if n > 1:
                    perm = [p - (p > i) for p in case["perm"] if p != i]
                    yield dict(case, fmat=case["fmat"][:i] + case["fmat"][i + 1:], perm=perm)
            return
        key = {"pareto": "fmat", "dist": "mat", "dist_pair": "mat", "dist3": "mat", "pareto_dom": "fmat"}.get(k)
        if key:
            rows = case[key]
            if len(rows) > 40:
                for a, b in ((0, len(rows) // 2), (len(rows) // 2, len(rows))):
                    yield dict(case, **{key: rows[a:b]})
                q = len(rows) // 8
                for c in range(8):
                    yield dict(case, **{key: rows[:c * q] + rows[(c + 1) * q:]})
            for i in range(len(rows) if len(rows) <= 40 else 0):
                if len(rows) > 1:
                    c = dict(case)
                    c[key] = rows[:i] + rows[i + 1:]
                    yield c
            for opt in ("layout", "fdtype", "mdtype", "call", "scale", "order", "sdtype", "wdtype", "flag", "kw", "wform",
                        "oform", "cvform", "odtype"):
                if opt in case:
                    c = dict(case)
                    del c[opt]
                    yield c

    # ------------------------------------------------------------------ self-test mutants
    def mutants(self):
        pareto, ctrans, ptrans, transfn, addon = _mods()
        orig_filter = pareto.is_pareto_efficient
        orig_dom = addon.dominates
        orig_core = ctrans.trans_ndpt_pseudo_dist
        orig_prob = ptrans.trans_ndpt_to_vec_dist
        orig_fn = transfn.trans_ndpt_to_vec_dist

        @contextlib.contextmanager
        def patch(mod, name, new):
            old = getattr(mod, name)
            setattr(mod, name, new)
            try:
                yield
            finally:
                setattr(mod, name, old)

        def gen_filter(test, step=None, idx_dtype=None):
            def flt(fmat, wt, return_mask=True):
                fmat = fmat * (wt.flatten()[None, :])
                npt = fmat.shape[0]
                eff = numpy.arange(npt) if idx_dtype is None else numpy.arange(npt).astype(idx_dtype)
                pt = 0
                while pt < len(fmat):
                    m = test(fmat, pt)
                    m[pt] = True
                    eff = eff[m]
                    fmat = fmat[m]
                    pt = (numpy.sum(m[:pt]) + 1) if step is None else step(pt)
                if return_mask:
                    out = numpy.zeros(npt, dtype=bool)
                    out[eff] = True
                    return out
                return eff
            return flt

        ge_filter = gen_filter(lambda f, pt: numpy.any(f >= f[pt], axis=1))
        inc_filter = gen_filter(lambda f, pt: numpy.any(f > f[pt], axis=1), step=lambda pt: pt + 1)
        isclose_filter = gen_filter(lambda f, pt: numpy.any((f > f[pt]) & ~numpy.isclose(f, f[pt]), axis=1))
        uint8_filter = gen_filter(lambda f, pt: numpy.any(f > f[pt], axis=1), idx_dtype=numpy.uint8)

        def wt_cast_filter(fmat, wt, return_mask=True):
            return orig_filter(fmat, numpy.asarray(wt, dtype=fmat.dtype), return_mask)

        def chunked_filter(fmat, wt, return_mask=True):
            # blocks of 1024 points filtered independently, never merged
            parts = [orig_filter(fmat[s:s + 1024], wt, True) for s in range(0, max(len(fmat), 1), 1024)]
            mask = numpy.concatenate(parts) if parts else numpy.zeros(0, dtype=bool)
            return mask if return_mask else numpy.flatnonzero(mask)

        def inplace_filter(fmat, wt, return_mask=True):
            fmat *= wt.flatten()[None, :]
            return orig_filter(fmat, numpy.ones(fmat.shape[1]), return_mask)

        memo = {}

        def memo_filter(fmat, wt, return_mask=True):
            key = (id(fmat), fmat.shape, tuple(numpy.sign(wt).tolist()), bool(return_mask))
            if key not in memo:
                memo[key] = orig_filter(fmat, wt, return_mask)
            return memo[key]

        def forder_filter(fmat, wt, return_mask=True):
            flat = fmat.reshape(-1, order="A")            # memory order: scrambles Fortran-ordered input
            return orig_filter(flat.reshape(fmat.shape), wt, return_mask)

        def view_filter(fmat, wt, return_mask=True):
            r = orig_filter(fmat, wt, return_mask)
            if not return_mask:
                return r.astype(numpy.int32)[::-1].copy()  # same set, order reversed: index form no longer ascending
            return r

        def flag_identity_filter(fmat, wt, return_mask=True):
            return orig_filter(fmat, wt, return_mask is True)      # numpy.bool_(True) / 1 -> index form

        def dom_any(o1, c1, o2, c2):
            if c1 <= 0.0 and c2 <= 0.0:
                return bool(numpy.any(o1 <= o2) and numpy.any(o1 < o2))
            return c1 < c2

        def dom_eps(o1, c1, o2, c2):
            if c1 <= 1e-8 and c2 <= 1e-8:
                return bool(numpy.all(o1 <= o2) and numpy.any(o1 < o2))
            return c1 < c2

        def dom_isclose(o1, c1, o2, c2):
            if c1 <= 0.0 and c2 <= 0.0:
                eq = numpy.isclose(o1, o2)
                return bool(numpy.all((o1 <= o2) | eq) and numpy.any((o1 < o2) & ~eq))
            return c1 < c2

        def dom_slack(o1, c1, o2, c2):
            if c1 != c2:
                return c1 < c2
            if c1 <= 0.0:
                return bool(numpy.all(o1 <= o2) and numpy.any(o1 < o2))
            return False

        def dom_int_cv(o1, c1, o2, c2):
            return orig_dom(o1, int(c1), o2, int(c2))       # violations truncated toward zero

        def _project(m, w):
            s = m.dot(w) * (1.0 / w.dot(w))
            return numpy.linalg.norm(m - numpy.outer(s, w), axis=1)

        def _guarded_scale(m, zero=lambda mx: mx == 0):
            m = m - m.min(0)
            mx = m.max(0)
            mask = zero(mx)
            mx[mask] = 1.0
            sc = 1.0 / mx
            sc[mask] = 0.0
            return sc * m

        def dist_noscale(ndptmat, mm, w, **kw):
            m = _guarded_scale(ndptmat * mm)
            P = m.dot(w)[:, None] * w          # projection without 1/(w.w)
            return numpy.linalg.norm(m - P, axis=1)

        def dist_scale_then_shift(mat, obj_wt, vec_wt, **kw):
            # the division by the column maximum is done before the minimum is subtracted:
            # no longer invariant to translation of the front
            m = mat * vec_wt
            mx = numpy.abs(m).max(0)
            mask = mx == 0
            mx[mask] = 1.0
            sc = 1.0 / mx
            sc[mask] = 0.0
            m = sc * m
            m = m - m.min(0)
            return _project(m, obj_wt)

        def dist_wrong_vector(mat, objfn_wt, wt, **kw):
            # projects on the sign vector instead of the preference vector
            return _project(_guarded_scale(mat * wt), wt)

        def dist_guard_dropped(ndptmat, mm, w, **kw):
            # the pre-repair scaling (D13): constant objective -> 0 * inf = NaN
            with numpy.errstate(all="ignore"):
                m = ndptmat * mm
                m = m - m.min(0)
                m = (1.0 / m.max(0)) * m
                return _project(m, w)

        def dist_isclose_guard(ndptmat, mm, w, **kw):
            return _project(_guarded_scale(ndptmat * mm, zero=lambda mx: numpy.isclose(mx, 0.0)), w)

        def dist_int_trunc(mat, obj_wt, vec_wt, **kw):
            m = _guarded_scale(mat * vec_wt)
            if numpy.issubdtype(mat.dtype, numpy.integer):
                m = m.astype(mat.dtype).astype(float)      # "keep the dtype of the input"
            return _project(m, obj_wt)

        def dist_chunked(mat, objfn_wt, wt, **kw):
            # blocks of 1024 points scaled independently
            return numpy.concatenate([orig_fn(mat[s:s + 1024], objfn_wt, wt) for s in range(0, len(mat), 1024)])

        def dist_inplace(ndptmat, mm, w, **kw):
            ndptmat *= mm
            ndptmat -= ndptmat.min(0)
            return orig_core(ndptmat, numpy.ones(ndptmat.shape[1]), w)

        dmemo = {}

        def dist_memo(mat, obj_wt, vec_wt, **kw):
            key = (id(mat), mat.shape)
            if key not in dmemo:
                dmemo[key] = orig_prob(mat, obj_wt, vec_wt)
            return dmemo[key]

        def dist_int_line(mat, objfn_wt, wt, **kw):
            with numpy.errstate(all="ignore"):
                return orig_fn(mat, numpy.floor(objfn_wt), wt)     # preference vector truncated to integers

        def dist_kw_positional(mat, vec_wt=None, obj_wt=None, **kw):
            # positional order of the two vectors exchanged, keyword names kept
            return orig_prob(mat, obj_wt, vec_wt)

        def dist_kw_renamed(ndptmat, objfn_minmax=None, objfn_pseudoweight=None, **kw):
            # an unknown keyword is taken for the preference vector
            if "nobj" in kw:
                objfn_pseudoweight = numpy.ones(int(kw["nobj"]))
            return orig_core(ndptmat, objfn_minmax, objfn_pseudoweight)

        def dist_forder(mat, objfn_wt, wt, **kw):
            flat = mat.reshape(-1, order="A")
            return orig_fn(flat.reshape(mat.shape), objfn_wt, wt)

        def protocol_default_other(mat, obj_wt=None, vec_wt=None, **kw):
            # default transformation of the protocol replaced by a "max of scaled objectives" score
            return _guarded_scale(mat * vec_wt).max(1)

        def dist_pythagoras(mat, obj_wt, vec_wt, **kw):
            # sqrt(P.P - (P.L)^2/(L.L)) instead of the norm of the residual: cancels for points on the line
            m = _guarded_scale(mat * vec_wt)
            pl = m.dot(obj_wt)
            with numpy.errstate(all="ignore"):
                return numpy.sqrt(numpy.einsum("ij,ij->i", m, m) - (1.0 / obj_wt.dot(obj_wt)) * pl * pl)

        def dot_abs(mat, wt, **kw):
            return mat.dot(numpy.abs(wt))

        def latent_sum_nokeep(decnvec, latentvec, **kw):
            return numpy.array([latentvec[:-1].sum()]) if len(latentvec) > 1 else latentvec.sum(0, keepdims=True)

        # ---- round 4
        def dom_sum_shortcut(o1, c1, o2, c2):
            # "once nowhere worse, better somewhere exactly when the total is smaller": true over the reals only
            if c1 <= 0.0 and c2 <= 0.0:
                return bool(numpy.all(o1 <= o2)) and bool(numpy.sum(o1) < numpy.sum(o2))
            return c1 < c2

        def dom_first_block(o1, c1, o2, c2):
            # only the first 8 objectives are compared ("vectorised block")
            return orig_dom(o1[:8], c1, o2[:8], c2)

        dom_memo = {}

        def dom_memo_by_identity(o1, c1, o2, c2):
            key = (id(o1), id(o2), float(c1), float(c2))
            if key not in dom_memo:
                dom_memo[key] = orig_dom(o1, c1, o2, c2)
            return dom_memo[key]

        def dom_sorts_in_place(o1, c1, o2, c2):
            r = orig_dom(o1, c1, o2, c2)
            o1.sort()                                     # leaves the caller's objective vector reordered
            return r

        def presort_filter(key):
            def flt(fmat, wt, return_mask=True):
                # points visited by decreasing `key`; a pivot only filters the points after it, never re-tested
                f = fmat * (wt.flatten()[None, :])
                npt = f.shape[0]
                order = numpy.argsort(-key(f), kind="stable")
                f = f[order]
                eff = order
                pt = 0
                while pt < len(f):
                    m = numpy.ones(len(f), dtype=bool)
                    m[pt + 1:] = numpy.any(f[pt + 1:] > f[pt], axis=1)
                    eff, f = eff[m], f[m]
                    pt += 1
                if return_mask:
                    out = numpy.zeros(npt, dtype=bool)
                    out[eff] = True
                    return out
                return numpy.sort(eff)
            return flt

        def wt_not_flattened_filter(fmat, wt, return_mask=True):
            if wt.ndim == 2 and wt.shape[0] == fmat.shape[0] and wt.shape[1] == 1:
                # `fmat * wt` without flatten: a column of weights scales the POINTS of a square matrix
                return orig_filter(fmat * wt, numpy.ones(fmat.shape[1]), return_mask)
            return orig_filter(fmat, wt, return_mask)

        def renamed_kw_filter(fmat, weights=None, return_mask=True, **kw):
            if weights is None:
                raise TypeError("is_pareto_efficient() missing required argument 'weights'")
            return orig_filter(fmat, weights, return_mask)

        def int_mask_filter(fmat, wt, return_mask=True):
            r = orig_filter(fmat, wt, return_mask)
            return r.astype(numpy.uint8) if return_mask else r

        def empty_crash_filter(fmat, wt, return_mask=True):
            _ = fmat[0]                                   # IndexError on an empty point set
            return orig_filter(fmat, wt, return_mask)

        def dist_weights_after_scaling(mat, obj_wt, vec_wt, **kw):
            # only the signs orient the objectives; the magnitudes are applied to the scaled front
            m = _guarded_scale(mat * numpy.sign(vec_wt)) * numpy.abs(vec_wt)
            return _project(m, obj_wt)

        def dist_float32_preference(mat, objfn_wt, wt, **kw):
            with numpy.errstate(all="ignore"):
                return orig_fn(mat, objfn_wt.astype(numpy.float32).astype(float), wt)

        def dist_asarray_in_place(mat, objfn_wt, wt, **kw):
            # `asarray` copies every input except a float64 array: the caller's front is overwritten
            m = numpy.asarray(mat, dtype=float)
            m *= wt
            m -= m.min(0)
            return orig_fn(m, objfn_wt, numpy.ones(m.shape[1]))

        # ---- the repair of D190 (c276d45e) undone, one copy at a time: 1/(v.v) formed on the vector as given
        def prerepair_outer(mat, obj_wt, vec_wt, **kw):
            with numpy.errstate(all="ignore"):
                return _project(_guarded_scale(mat * vec_wt), obj_wt)

        def prerepair_transfn(mat, objfn_wt, wt, **kw):
            with numpy.errstate(all="ignore"):
                return _project(_guarded_scale(mat * wt), objfn_wt)

        def prerepair_core(ndptmat, objfn_minmax, objfn_pseudoweight, **kw):
            assert numpy.all(objfn_pseudoweight >= 0.0)
            assert numpy.any(objfn_pseudoweight > 0.0)
            assert objfn_pseudoweight.dot(objfn_pseudoweight) > 0.0
            with numpy.errstate(all="ignore"):
                return _project(_guarded_scale(ndptmat * objfn_minmax), objfn_pseudoweight)

        F, D = "is_pareto_efficient", "dominates"
        T = "trans_ndpt_to_vec_dist"
        return [
            ("dist_core_preference_not_normalised", lambda: patch(ctrans, "trans_ndpt_pseudo_dist", prerepair_core)),
            ("dist_prob_preference_not_normalised", lambda: patch(ptrans, T, prerepair_outer)),
            ("dist_transfn_preference_not_normalised", lambda: patch(transfn, T, prerepair_transfn)),
            ("dominates_sum_shortcut", lambda: patch(addon, D, dom_sum_shortcut)),
            ("dominates_first_8_objectives", lambda: patch(addon, D, dom_first_block)),
            ("dominates_memo_by_identity", lambda: patch(addon, D, dom_memo_by_identity)),
            ("dominates_sorts_argument_in_place", lambda: patch(addon, D, dom_sorts_in_place)),
            ("filter_presort_first_objective", lambda: patch(pareto, F, presort_filter(lambda f: f[:, 0]))),
            ("filter_presort_by_sum", lambda: patch(pareto, F, presort_filter(lambda f: f.sum(1)))),
            ("filter_weights_not_flattened", lambda: patch(pareto, F, wt_not_flattened_filter)),
            ("filter_mask_as_uint8", lambda: patch(pareto, F, int_mask_filter)),
            ("filter_keyword_renamed", lambda: patch(pareto, F, renamed_kw_filter)),
            ("filter_crashes_on_empty_set", lambda: patch(pareto, F, empty_crash_filter)),
            ("dist_weight_magnitudes_after_scaling", lambda: patch(ptrans, T, dist_weights_after_scaling)),
            ("dist_float32_preference", lambda: patch(transfn, T, dist_float32_preference)),
            ("dist_asarray_in_place", lambda: patch(transfn, T, dist_asarray_in_place)),
            ("dist_translation_after_scaling", lambda: patch(ptrans, T, dist_scale_then_shift)),
            ("dist_projection_on_wrong_vector", lambda: patch(transfn, T, dist_wrong_vector)),
            ("dist_guard_dropped", lambda: patch(ctrans, "trans_ndpt_pseudo_dist", dist_guard_dropped)),
            ("filter_ge", lambda: patch(pareto, F, ge_filter)),
            ("filter_pt_increment", lambda: patch(pareto, F, inc_filter)),
            ("dominates_any", lambda: patch(addon, D, dom_any)),
            ("projection_without_norm", lambda: patch(ctrans, "trans_ndpt_pseudo_dist", dist_noscale)),
            # round 3: one mutant per explored class
            ("filter_wt_cast_to_matrix_dtype", lambda: patch(pareto, F, wt_cast_filter)),
            ("filter_isclose_ties", lambda: patch(pareto, F, isclose_filter)),
            ("filter_uint8_indices", lambda: patch(pareto, F, uint8_filter)),
            ("filter_chunks_of_1024", lambda: patch(pareto, F, chunked_filter)),
            ("filter_weights_in_place", lambda: patch(pareto, F, inplace_filter)),
            ("filter_memo_by_identity", lambda: patch(pareto, F, memo_filter)),
            ("filter_memory_order", lambda: patch(pareto, F, forder_filter)),
            ("filter_index_form_reversed", lambda: patch(pareto, F, view_filter)),
            ("filter_flag_identity_test", lambda: patch(pareto, F, flag_identity_filter)),
            ("dominates_cv_eps", lambda: patch(addon, D, dom_eps)),
            ("dominates_obj_isclose", lambda: patch(addon, D, dom_isclose)),
            ("dominates_by_slack", lambda: patch(addon, D, dom_slack)),
            ("dominates_int_cv", lambda: patch(addon, D, dom_int_cv)),
            ("dist_isclose_guard", lambda: patch(ctrans, "trans_ndpt_pseudo_dist", dist_isclose_guard)),
            ("dist_int_truncation", lambda: patch(ptrans, T, dist_int_trunc)),
            ("dist_chunks_of_1024", lambda: patch(transfn, T, dist_chunked)),
            ("dist_in_place", lambda: patch(ctrans, "trans_ndpt_pseudo_dist", dist_inplace)),
            ("dist_memo_by_identity", lambda: patch(ptrans, T, dist_memo)),
            ("dist_integer_preference", lambda: patch(transfn, T, dist_int_line)),
            ("dist_positional_order_swapped", lambda: patch(ptrans, T, dist_kw_positional)),
            ("dist_extra_kwarg_used", lambda: patch(ctrans, "trans_ndpt_pseudo_dist", dist_kw_renamed)),
            ("dist_memory_order", lambda: patch(transfn, T, dist_forder)),
            ("protocol_default_replaced", lambda: patch(__import__("pybrops.breed.prot.sel.SelectionProtocol", fromlist=["x"]),
                                                          T, protocol_default_other)),
            ("dist_pythagoras_cancellation", lambda: patch(ptrans, T, dist_pythagoras)),
            ("wsum_dot_abs", lambda: patch(transfn, "trans_dot", dot_abs)),
            ("wsum_latent_sum_drops_last", lambda: patch(ptrans, "trans_sum", latent_sum_nokeep)),
        ]


PROP = C19()
