"""C19 — Pareto filter, dominance predicate, distance-to-preference-vector transformations."""
import contextlib
import math
from fractions import Fraction

import numpy

from .. import canon, compat
from ..core import Prop

compat.install()


def _mods():
    compat.import_pybrops()
    import pybrops.core.util.pareto as pareto
    import pybrops.core.util.trans as ctrans
    import pybrops.breed.prot.sel.prob.trans as ptrans
    import pybrops.breed.prot.sel.transfn as transfn
    import pybrops.opt.algo.pymoo_addon as addon
    return pareto, ctrans, ptrans, transfn, addon


def _f(x):
    return float(Fraction(x))


def _arr(rows):
    return numpy.array([[_f(v) for v in r] for r in rows], dtype=float).reshape(len(rows), -1)


class C19(Prop):
    PID = "C19"
    MODULE = "PybropsModel.Props.C19"
    N_QUICK = 400
    N_THOROUGH = 12000
    RULE = ("point sets of 1-14 points x 1-4 objectives over small integers/dyadics with forced duplicates, "
            "coordinate ties and collinear fronts, weight vectors with mixed signs; dominance pairs with "
            "feasible/infeasible mixes; distance transforms in the three source variants.  Non-trivial = "
            "pareto case with >= 2 distinct points and at least one dominated or duplicated point, "
            "dominates case with differing objective vectors, dist case with >= 2 points and >= 2 objectives")
    TRUSTED = ["numpy.linalg.norm = sqrt of sum of squares (model compares squared distances)"]
    ASSUMPTIONS = ["inputs are integers / dyadic rationals so that the float computation is exact up to 1e-9",
                   "NaN output of the unguarded transformation is modelled as `none`"]

    # ------------------------------------------------------------------ generation
    def corpus(self):
        return [
            {"kind": "pareto", "fmat": [[1, 2], [2, 1], [1, 1], [2, 1], ["1/2", 3]], "wt": [1, 1]},
            {"kind": "pareto", "fmat": [[1, 1], [1, 1], [1, 1]], "wt": [1, -1]},
            {"kind": "pareto", "fmat": [[3]], "wt": [2]},
            {"kind": "pareto", "fmat": [[0, 0], [1, 1], [2, 2], [2, 2], [1, 3]], "wt": [-1, 1]},
            {"kind": "dist", "variant": "core", "mat": [[1, 2], [2, 2], [0, 2]], "sign": [1, 1], "line": [1, 1]},
            {"kind": "dist", "variant": "prob", "mat": [[1, 2], [2, 2], [0, 2]], "sign": [1, 1], "line": [1, 1]},
            {"kind": "dist", "variant": "transfn", "mat": [[1, 2], [2, 2], [0, 2]], "sign": [1, 1], "line": [1, 1]},
            {"kind": "dist", "variant": "prob", "mat": [[8388609, 2], [8388610, 1], [8388608, 0]], "sign": [1, 1], "line": [1, 2]},
            {"kind": "dist", "variant": "transfn", "mat": [[1000001, 2], [1000002, 1], [1000000, 0]], "sign": [1, -1], "line": [2, 1]},
            {"kind": "dist", "variant": "core", "mat": [[1000001, 2], [1000002, 1], [1000000, 0]], "sign": [-1, 1], "line": [1, 1]},
            {"kind": "dominates", "obj1": [1, 2], "cv1": -2, "obj2": [1, 1], "cv2": 0},
            {"kind": "dominates", "obj1": [1, 2], "cv1": 0, "obj2": [1, 2], "cv2": 0},
            {"kind": "dominates", "obj1": [1, 2], "cv1": 1, "obj2": [0, 0], "cv2": 2},
        ]

    def _points(self, rng):
        npt = rng.choice([1, 2, 2, 3, 3, 4, 5, 6, 8, 10, 14])
        nobj = rng.choice([1, 2, 2, 3, 3, 4])
        hi = rng.choice([1, 2, 3, 5])
        style = rng.random()
        pts = [[rng.randint(0, hi) for _ in range(nobj)] for _ in range(npt)]
        if style < 0.25 and npt > 1:      # duplicates
            for _ in range(rng.randint(1, npt)):
                pts[rng.randrange(npt)] = list(pts[rng.randrange(npt)])
        elif style < 0.4 and nobj >= 2:    # collinear anti-diagonal front
            pts = [[i, npt - i] + [0] * (nobj - 2) for i in range(npt)]
            rng.shuffle(pts)
        elif style < 0.5:
            pts = [[Fraction(v, 2) for v in r] for r in pts]
        return pts, nobj

    def generate(self, rng, n, tier):
        out = []
        for i in range(n):
            r = rng.random()
            if r < 0.55:
                pts, nobj = self._points(rng)
                wt = [rng.choice([1, -1, 1, -1, 2, Fraction(1, 2), -3]) for _ in range(nobj)]
                out.append({"kind": "pareto", "fmat": canon.enc(pts), "wt": canon.enc(wt)})
            elif r < 0.75:
                nobj = rng.randint(1, 4)
                o1 = [rng.randint(0, 3) for _ in range(nobj)]
                o2 = [v + rng.choice([0, 0, 1, -1]) for v in o1] if rng.random() < 0.7 else \
                    [rng.randint(0, 3) for _ in range(nobj)]
                cv = lambda: rng.choice([0, 0, -1, Fraction(1, 2), 1, 2])
                out.append({"kind": "dominates", "obj1": o1, "cv1": canon.enc(cv()), "obj2": o2,
                            "cv2": canon.enc(cv())})
            else:
                pts, nobj = self._points(rng)
                if rng.random() < 0.3 and nobj >= 1:     # one constant objective
                    j = rng.randrange(nobj)
                    for p in pts:
                        p[j] = pts[0][j]
                if rng.random() < 0.35:                  # translated front: a large level with a small range
                    off = [rng.choice([0, 2 ** 20, 10 ** 6, 2 ** 23, -(10 ** 7), 12345678]) for _ in range(nobj)]
                    pts = [[v + o for v, o in zip(p, off)] for p in pts]
                sign = [rng.choice([1, -1]) for _ in range(nobj)]
                line = [rng.choice([0, 1, 1, 2, 3]) for _ in range(nobj)]
                if not any(line):
                    line[rng.randrange(nobj)] = 1
                out.append({"kind": "dist", "variant": rng.choice(["core", "prob", "transfn"]),
                            "mat": canon.enc(pts), "sign": sign, "line": line})
        return out

    # ------------------------------------------------------------------ implementation
    def run_impl(self, case):
        pareto, ctrans, ptrans, transfn, addon = _mods()
        k = case["kind"]
        if k == "pareto":
            fmat = _arr(case["fmat"])
            wt = numpy.array([_f(v) for v in case["wt"]])
            f0 = fmat.copy()
            mask = pareto.is_pareto_efficient(fmat, wt, return_mask=True)
            idx = pareto.is_pareto_efficient(fmat, wt, return_mask=False)
            return {"mask": canon.enc(mask), "idx": canon.enc(idx), "input_untouched": bool((f0 == fmat).all())}
        if k == "dominates":
            r = addon.dominates(numpy.array([_f(v) for v in case["obj1"]]), _f(case["cv1"]),
                                numpy.array([_f(v) for v in case["obj2"]]), _f(case["cv2"]))
            return {"dom": bool(r)}
        if k == "dist":
            mat = _arr(case["mat"])
            sign = numpy.array([float(v) for v in case["sign"]])
            line = numpy.array([float(v) for v in case["line"]])
            v = case["variant"]
            if v == "core":
                d = ctrans.trans_ndpt_pseudo_dist(mat, sign, line)
            elif v == "prob":
                d = ptrans.trans_ndpt_to_vec_dist(mat, line, sign)   # (mat, obj_wt=line, vec_wt=sign)
            else:
                d = transfn.trans_ndpt_to_vec_dist(mat, line, sign)  # (mat, objfn_wt=line, wt=sign)
            return {"d": canon.enc(d)}
        raise ValueError(k)

    # ------------------------------------------------------------------ model requests
    def requests(self, case, obs):
        k = case["kind"]
        if k == "pareto":
            return [{"op": "c19.pareto", "fmat": case["fmat"], "wt": case["wt"]},
                    {"op": "c19.spec_pareto", "fmat": case["fmat"], "wt": case["wt"],
                     "mask": obs["mask"], "idx": obs["idx"]}]
        if k == "dominates":
            return [{"op": "c19.dominates", **{x: case[x] for x in ("obj1", "cv1", "obj2", "cv2")}}]
        if k == "dist":
            return [{"op": "c19.dist", "mat": case["mat"], "sign": case["sign"], "line": case["line"],
                     "guarded": True}]
        raise ValueError(k)

    def judge(self, case, obs, answers):
        k = case["kind"]
        for a in answers:
            if "err" in a:
                raise RuntimeError("driver error: " + a["err"])
        if k == "pareto":
            m, s = answers[0]["ok"], answers[1]["ok"]
            corr = (m["mask"] == obs["mask"] and m["idx"] == obs["idx"])
            spec = bool(s["ok"]) and obs["input_untouched"]
            pts = [tuple(r) for r in case["fmat"]]
            nontriv = len(set(map(str, pts))) >= 2 and (not all(obs["mask"]))
            return {"corr": corr, "spec": spec, "nontrivial": nontriv,
                    "detail": f"pareto model={m} impl={obs} spec={s['detail']}"}
        if k == "dominates":
            m = answers[0]["ok"]
            corr = (m == obs["dom"])
            # Spec (definition, evaluated here on the implementation's answer)
            o1 = [Fraction(v) for v in case["obj1"]]
            o2 = [Fraction(v) for v in case["obj2"]]
            c1, c2 = Fraction(case["cv1"]), Fraction(case["cv2"])
            if c1 <= 0 and c2 <= 0:
                want = all(a <= b for a, b in zip(o1, o2)) and any(a < b for a, b in zip(o1, o2))
            else:
                want = c1 < c2
            return {"corr": corr, "spec": obs["dom"] == want, "nontrivial": o1 != o2,
                    "detail": f"dominates model={m} impl={obs['dom']} definition={want}"}
        if k == "dist":
            m = answers[0]["ok"]
            d = obs["d"]
            isnan = [x == "nan" for x in d]
            if m is None:
                corr = all(isnan) and len(d) > 0
            else:
                corr = (not any(isnan)) and len(m) == len(d) and all(
                    not isinstance(canon.dec(x), str) and
                    canon.close(canon.dec(x) ** 2, canon.dec(y), rel=1e-9, abs_=1e-12) for x, y in zip(d, m))
            # Spec: finite, and equal to the geometric definition (recomputed independently, exact)
            spec, why = self._spec_dist(case, d)
            nontriv = len(case["mat"]) >= 2 and len(case["sign"]) >= 2
            return {"corr": corr, "spec": spec, "nontrivial": nontriv,
                    "detail": f"dist[{case['variant']}] model={m} impl={d} {why}"}
        raise ValueError(k)

    @staticmethod
    def _spec_dist(case, d):
        """geometric definition over exact rationals: scale each signed objective to [0,1]
        (constant objective -> 0), distance from P to its projection on the preference line"""
        if any(isinstance(canon.dec(x), str) for x in d):
            return False, "non-finite distance"
        P = [[Fraction(v) * s for v, s in zip(r, case["sign"])] for r in case["mat"]]
        nobj = len(case["sign"])
        cols = list(zip(*P)) if P else []
        sc = []
        for c in cols:
            lo, hi = min(c), max(c)
            sc.append([Fraction(0) if hi == lo else (x - lo) / (hi - lo) for x in c])
        Q = [list(r) for r in zip(*sc)] if sc else []
        L = [Fraction(v) for v in case["line"]]
        LL = sum(x * x for x in L)
        for q, x in zip(Q, d):
            t = sum(a * b for a, b in zip(q, L)) / LL
            want = sum((a - t * b) ** 2 for a, b in zip(q, L))
            if not canon.close(canon.dec(x) ** 2, want, rel=1e-9, abs_=1e-12):
                return False, f"distance {x} != sqrt({want})"
        return True, "definition ok"

    def signature(self, case, obs, verdict):
        sig = {"kind": case["kind"]}
        if case["kind"] == "dist":
            sig["variant"] = case["variant"]
            P = [[Fraction(v) * s for v, s in zip(r, case["sign"])] for r in case["mat"]]
            sig["constant_objective"] = any(len(set(c)) == 1 for c in zip(*P))
            sig["nan"] = isinstance(obs, dict) and any(x == "nan" for x in obs.get("d", []))
        return sig

    def shrink(self, case):
        key = {"pareto": "fmat", "dist": "mat"}.get(case["kind"])
        if key:
            rows = case[key]
            for i in range(len(rows)):
                if len(rows) > 1:
                    c = dict(case)
                    c[key] = rows[:i] + rows[i + 1:]
                    yield c

    # ------------------------------------------------------------------ self-test mutants
    def mutants(self):
        pareto, ctrans, ptrans, transfn, addon = _mods()

        @contextlib.contextmanager
        def patch(mod, name, new):
            old = getattr(mod, name)
            setattr(mod, name, new)
            try:
                yield
            finally:
                setattr(mod, name, old)

        def ge_filter(fmat, wt, return_mask=True):
            fmat = fmat * (wt.flatten()[None, :])
            npt = fmat.shape[0]
            eff = numpy.arange(npt)
            pt = 0
            while pt < len(fmat):
                m = numpy.any(fmat >= fmat[pt], axis=1)
                m[pt] = True
                eff = eff[m]
                fmat = fmat[m]
                pt = numpy.sum(m[:pt]) + 1
            if return_mask:
                out = numpy.zeros(npt, dtype=bool)
                out[eff] = True
                return out
            return eff

        def inc_filter(fmat, wt, return_mask=True):
            fmat = fmat * (wt.flatten()[None, :])
            npt = fmat.shape[0]
            eff = numpy.arange(npt)
            pt = 0
            while pt < len(fmat):
                m = numpy.any(fmat > fmat[pt], axis=1)
                m[pt] = True
                eff = eff[m]
                fmat = fmat[m]
                pt += 1
            if return_mask:
                out = numpy.zeros(npt, dtype=bool)
                out[eff] = True
                return out
            return eff

        def dom_any(o1, c1, o2, c2):
            if c1 <= 0.0 and c2 <= 0.0:
                return bool(numpy.any(o1 <= o2) and numpy.any(o1 < o2))
            return c1 < c2

        def dist_noscale(ndptmat, mm, w, **kw):
            m = ndptmat * mm
            m = m - m.min(0)
            mx = m.max(0)
            mask = mx == 0
            mx[mask] = 1.0
            sc = 1.0 / mx
            sc[mask] = 0.0
            m = sc * m
            P = m.dot(w)[:, None] * w          # projection without 1/(w.w)
            return numpy.linalg.norm(m - P, axis=1)

        return [
            ("filter_ge", lambda: patch(pareto, "is_pareto_efficient", ge_filter)),
            ("filter_pt_increment", lambda: patch(pareto, "is_pareto_efficient", inc_filter)),
            ("dominates_any", lambda: patch(addon, "dominates", dom_any)),
            ("projection_without_norm", lambda: patch(ctrans, "trans_ndpt_pseudo_dist", dist_noscale)),
        ]


PROP = C19()
