"""C07 — selection protocols turn criteria into valid, correct cross configurations.

Case kinds
  cfg      one of the eight <Encoding>[Mate]SelectionConfiguration classes constructed directly with a
           recording generator; model = XConfig.sample* replayed with the recorded draws;
           Spec = XConfig.spec* (Lean, `c07.spec`) on the implementation's xconfig
  select   the public select() of a protocol family x encoding.  `algo = sorting`: the exact optimiser
           (SortingSubsetOptimizationAlgorithm), run on the population and on a permuted/relabelled
           copy (truncation + equivariance clauses).  `algo = stub`: an optimiser that returns a
           scripted solution set (single- or multi-objective branch; argmax clause)
  xmapix   core/util/array.py xmapix/triuix/triudix against the model
"""
import contextlib
import math
from fractions import Fraction

import numpy

from .. import canon, compat
from ..core import Prop

compat.install()

ENC_IND = ("subset", "integer", "binary", "real")
ENC_MATE = ("mate_subset", "mate_integer", "mate_binary", "mate_real")


# --------------------------------------------------------------------------------------------
# recording / scripted generator (DESIGN 4.2): a RandomState whose choice/shuffle/uniform results
# are logged; `shuffle` is implemented as new = old[permutation(n)] so the applied permutation is
# known; `uniform` can be scripted to the endpoints of its interval
# --------------------------------------------------------------------------------------------
class RecRNG(numpy.random.RandomState):
    def __init__(self, seed, script=None):
        super().__init__(int(seed) % (2 ** 32))
        self.log = []
        self.script = dict(script or {})
        self._inner = 0

    def shuffle(self, x):
        if self._inner:                 # numpy's own permutation()/choice() call shuffle internally
            return super().shuffle(x)
        n = len(x)
        perm = numpy.arange(n)
        super().shuffle(perm)
        before = numpy.array(x, copy=True)
        if n:
            x[...] = before[perm]
        self.log.append({"m": "shuffle", "n": int(n), "ndim": int(before.ndim),
                         "perm": [int(v) for v in perm],
                         "before": [int(v) for v in before] if before.ndim == 1 and before.dtype.kind in "iu" else None})

    def choice(self, a, size=None, replace=True, p=None):
        self._inner += 1
        try:
            out = super().choice(a, size, replace, p)
        finally:
            self._inner -= 1
        self.log.append({"m": "choice", "replace": bool(replace),
                         "out": [int(v) for v in numpy.asarray(out).ravel()]})
        return out

    def uniform(self, low=0.0, high=1.0, size=None):
        mode = self.script.get("uniform")
        if mode == "zero":
            v = float(low)
        elif mode == "prev":
            v = float(numpy.nextafter(high, low))
        elif mode is not None:
            v = float(low) + float(Fraction(mode)) * (float(high) - float(low))
        else:
            v = super().uniform(low, high, size)
        self.log.append({"m": "uniform", "low": float(low), "high": float(high), "out": float(v)})
        return v


_M = {}


def _mods():
    if _M:
        return _M
    compat.import_pybrops()
    import importlib
    g = importlib.import_module
    cfg = "pybrops.breed.prot.sel.cfg."
    _M["cfgmod"] = {
        "subset": g(cfg + "SubsetSelectionConfiguration"),
        "integer": g(cfg + "IntegerSelectionConfiguration"),
        "binary": g(cfg + "BinarySelectionConfiguration"),
        "real": g(cfg + "RealSelectionConfiguration"),
        "mate_subset": g(cfg + "SubsetMateSelectionConfiguration"),
        "mate_integer": g(cfg + "IntegerMateSelectionConfiguration"),
        "mate_binary": g(cfg + "BinaryMateSelectionConfiguration"),
        "mate_real": g(cfg + "RealMateSelectionConfiguration"),
    }
    _M["cfgcls"] = {k: getattr(m, m.__name__.split(".")[-1]) for k, m in _M["cfgmod"].items()}
    _M["mixin"] = g(cfg + "SampledSelectionConfigurationMixin")
    _M["sampling"] = g("pybrops.core.random.sampling")
    _M["array"] = g("pybrops.core.util.array")
    _M["pgmat"] = g("pybrops.popgen.gmat.DensePhasedGenotypeMatrix").DensePhasedGenotypeMatrix
    _M["bvmat"] = g("pybrops.popgen.bvmat.DenseBreedingValueMatrix").DenseBreedingValueMatrix
    _M["gpmod"] = g("pybrops.model.gmod.DenseAdditiveLinearGenomicModel").DenseAdditiveLinearGenomicModel
    _M["sorting_mod"] = g("pybrops.opt.algo.SortingSubsetOptimizationAlgorithm")
    _M["sorting"] = _M["sorting_mod"].SortingSubsetOptimizationAlgorithm
    sel = "pybrops.breed.prot.sel."
    _M["protmod"] = {
        "subset": g(sel + "SubsetSelectionProtocol"), "integer": g(sel + "IntegerSelectionProtocol"),
        "binary": g(sel + "BinarySelectionProtocol"), "real": g(sel + "RealSelectionProtocol"),
        "mate_subset": g(sel + "SubsetMateSelectionProtocol"), "mate_integer": g(sel + "IntegerMateSelectionProtocol"),
        "mate_binary": g(sel + "BinaryMateSelectionProtocol"), "mate_real": g(sel + "RealMateSelectionProtocol"),
    }
    _M["selprot"] = g(sel + "SelectionProtocol")
    _M["probtrans"] = g(sel + "prob.trans")
    fam = {"ebv": "EstimatedBreedingValue", "gebv": "GenomicEstimatedBreedingValue", "random": "Random",
           "ocs": "OptimalContribution", "ohv": "OptimalHaploidValue", "uc": "UsefulnessCriterion",
           "meh": "MeanExpectedHeterozygosity", "mgr": "MeanGenomicRelationship",
           "gwgebv": "GeneralizedWeightedGenomicEstimatedBreedingValue", "wgs": "WeightedGenomic",
           "fam": "FamilyEstimatedBreedingValue", "l2": "L2NormGenomic", "embv": "ExpectedMaximumBreedingValue"}
    _M["fam"] = {}
    for f, stem in fam.items():
        mod = g(sel + stem + "Selection")
        for e in ("Subset", "Integer", "Binary", "Real"):
            _M["fam"][(f, e.lower())] = getattr(mod, stem + e + "Selection")
    _M["dhcross"] = g("pybrops.breed.prot.mate.TwoWayDHCross").TwoWayDHCross
    _M["vmatfcty"] = g("pybrops.model.vmat.fcty.DenseTwoWayDHAdditiveGeneticVarianceMatrixFactory").DenseTwoWayDHAdditiveGeneticVarianceMatrixFactory
    _M["haldane"] = g("pybrops.popgen.gmap.HaldaneMapFunction").HaldaneMapFunction
    _M["cmatfcty"] = g("pybrops.popgen.cmat.fcty.DenseMolecularCoancestryMatrixFactory").DenseMolecularCoancestryMatrixFactory
    algo = "pybrops.opt.algo."
    soln = "pybrops.opt.soln."
    _M["algobase"] = {e: getattr(g(algo + e.capitalize() + "OptimizationAlgorithm"), e.capitalize() + "OptimizationAlgorithm")
                      for e in ("subset", "integer", "binary", "real")}
    _M["solncls"] = {e: getattr(g(soln + e.capitalize() + "Solution"), e.capitalize() + "Solution")
                     for e in ("subset", "integer", "binary", "real")}
    return _M


def _base_enc(enc):
    return enc[5:] if enc.startswith("mate_") else enc


def _pgmat(ntaxa, geno=None, names=None):
    M = _mods()
    if geno is None:
        mat = numpy.zeros((2, ntaxa, 2), dtype="int8")
    else:
        mat = numpy.array(geno, dtype="int8")
    nv = mat.shape[2]
    half = max(1, nv // 2)
    if names is None:
        names = ["t%d" % i for i in range(ntaxa)]
    pg = M["pgmat"](mat, taxa=numpy.array(names, dtype=object),
                    vrnt_chrgrp=numpy.array([1] * half + [2] * (nv - half)),
                    vrnt_phypos=numpy.arange(nv) * 10, vrnt_genpos=numpy.arange(nv) / 8.0)
    pg.group_vrnt()
    return pg


def _same_pop(a, b):
    """the configuration refers to the population that was passed (the same object or an equal copy)"""
    return a is b or (a.ntaxa == b.ntaxa and list(map(str, a.taxa)) == list(map(str, b.taxa))
                      and numpy.array_equal(a.mat, b.mat))


def _decn_array(enc, decn):
    b = _base_enc(enc)
    if b == "real":
        return numpy.array([float(Fraction(v)) for v in decn], dtype=float)
    return numpy.array([int(v) for v in decn], dtype=int)


def _weights(enc, decn_list):
    """the contribution vector as exact rationals (canonical JSON)"""
    return [canon.enc(Fraction(v)) for v in decn_list]


def _parse_log(enc, log, ncross, nparent):
    """recorded draws -> oracle fields of the `c07.sample` request; None if the call pattern is not
    the one the model assumes"""
    try:
        b = _base_enc(enc)
        mate = enc.startswith("mate_")
        i = 0
        out = {}
        if b == "real":
            if log[i]["m"] != "uniform":
                return None
            i += 1
            if log[i]["m"] != "shuffle" or log[i]["before"] is None:
                return None
            out["offset"] = canon.enc(float(log[i - 1]["out"]))     # rng.uniform(0, ptr_dist), exact
            out["perm"] = log[i]["perm"]                            # rng.shuffle(sel)
            i += 1
        else:
            if log[i]["m"] != "choice" or log[i]["replace"]:
                return None
            out["rem"] = log[i]["out"]
            i += 1
            if log[i]["m"] != "shuffle" or log[i]["ndim"] != 1:
                return None
            out["perm"] = log[i]["perm"]
            i += 1
        rest = log[i:]
        if any(e["m"] != "shuffle" for e in rest):
            return None
        if mate:
            if len(rest) != 1:
                return None
            out["perm2"] = rest[0]["perm"]
        else:
            if len(rest) < ncross + 1:
                return None
            rows = rest[len(rest) - ncross:]
            if any(e["n"] != nparent or e["ndim"] != 1 for e in rows):
                return None
            out["orders"] = [e["perm"] for e in rest[:len(rest) - ncross]]
            out["rowperms"] = [e["perm"] for e in rows]
        return out
    except (IndexError, KeyError, TypeError):
        return None


@contextlib.contextmanager
def _patch(obj, name, new):
    old = getattr(obj, name)
    setattr(obj, name, new)
    try:
        yield
    finally:
        setattr(obj, name, old)


@contextlib.contextmanager
def _many(*ctxs):
    with contextlib.ExitStack() as st:
        for c in ctxs:
            st.enter_context(c)
        yield


class C07(Prop):
    PID = "C07"
    MODULE = "PybropsModel.Props.C07"
    N_QUICK = 1500
    N_THOROUGH = 40000
    CORRESPONDENCE = "functional"
    RULE = ("cfg (62%): the 8 configuration classes constructed directly, 2-7 candidates, 1-4 crosses x 1-4 parents "
            "(22% with 3-4 parents per cross and so few members that [a,b,a] patterns are unavoidable), decisions that "
            "do / do not divide the number of slots, unsorted duplicate-free subsets, zero and tied contributions, dyadic "
            "real weights, every generator draw recorded (+ scripted SUS offsets 0, 1/1024 .. 3/4 of the spacing and "
            "spacing-1ulp); select (35%): EBV/GEBV/Random/OCS(+inequality constraint)/OHV/UC/MEH/MGR/GWGEBV/WGS/"
            "FamilyEBV/L2/EMBV protocols in the four encodings (OHV/UC/EMBV: the four mate encodings), unsorted taxa "
            "labels on pgmat and bvmat, with the exact sorting optimiser on the population and on a permuted, renamed "
            "copy, or a stub optimiser returning scripted single-/multi-objective solution sets (default and custom "
            "ndset_trans, both signs of ndset_wt, negative / non-unit per-objective obj_wt, tied / duplicated / constant "
            "objectives), scalar and per-cross nmating/nprogeny; xmapix (3%).  Non-trivial = cfg with >= 2 crosses or "
            ">= 2 parents and >= 2 distinct entries; select/sorting with a candidate left out; select/stub "
            "multi-objective with >= 2 front points or single-objective; xmapix with >= 2 rows")
    TRUSTED = ["stochastic_universal_sampling is inside the model (C17's Sampling.susDraws, exact rational arithmetic); "
               "binary64 is abstracted as exact arithmetic: a model/implementation difference is waived only when the "
               "spacing is not dyadic AND a pointer lies within 2^-40 of a cumulative-weight boundary (0 of ~1300 real "
               "cases per run so far)",
               "problem objects (objective evaluation) are entered through their evalfn (C05 covers them); for EBV/GEBV "
               "subset selection the criterion is additionally recomputed from the raw inputs",
               "numpy RandomState.choice(replace=False)/shuffle deliver sub-multisets / permutations (each recorded draw is "
               "validated by the driver); RecRNG.shuffle applies x[permutation(n)] instead of numpy's in-place algorithm; "
               "numpy's argsort order of tied weights is taken from numpy (oracle sigma)",
               "optimisers other than SortingSubsetOptimizationAlgorithm are replaced by a stub returning a scripted "
               "solution set (C06 covers them)"]
    ASSUMPTIONS = ["'within one of the proportional share' is read as |count - share| <= 1 (the weakest reading)",
                   "the exchange clause applies to individual-based configurations; in mate-selection configurations an "
                   "exchange of entries would create crosses outside the solution, so membership/multiplicity apply there",
                   "subset decisions are duplicate-free; contribution vectors have a positive sum; ncross, nparent >= 1",
                   "equivariance under permutation is checked on chosen names when criterion values are distinct and on "
                   "chosen criterion values otherwise (ties are broken by position in the code)"]

    # ------------------------------------------------------------------ corpus
    def corpus(self):
        c = []
        # D20: integer contributions (4,4), 2x2 slots: the remainder draw is hypergeometric (seed 3 -> [[1,1],[1,1]])
        c.append({"kind": "cfg", "enc": "integer", "ntaxa": 2, "ncross": 2, "nparent": 2, "decn": [4, 4], "seed": 3})
        c.append({"kind": "cfg", "enc": "mate_integer", "ntaxa": 3, "ncross": 2, "nparent": 2, "unique": True,
                  "decn": [3, 3, 0], "seed": 1})
        # D7 (C17's, fixed by fc545079, kept as regression case): SUS offset within an ulp of the pointer spacing
        # gave k-1 pointers -> reshape ValueError
        c.append({"kind": "cfg", "enc": "real", "ntaxa": 3, "ncross": 3, "nparent": 1, "decn": [1, 1, 1], "seed": 5,
                  "script": {"uniform": "prev"}})
        # SUS offset exactly 0 (before fc545079: counts (0,1,2) for equal shares 1 — inside "within one")
        c.append({"kind": "cfg", "enc": "real", "ntaxa": 3, "ncross": 3, "nparent": 1, "decn": [1, 1, 1], "seed": 5,
                  "script": {"uniform": "zero"}})
        # D21 (fixed by 3d8c7c9b, kept as regression case): UsefulnessCriterionIntegerSelection.problem() stacked
        # bounds of unequal length when ncross >= 2; the second case also has a non-constant nmating array
        c.append({"kind": "select", "family": "uc", "enc": "mate_integer", "algo": "stub", "ntaxa": 3, "ncross": 2,
                  "nparent": 2, "seed": 11, "nmating": [1, 3], "nprogeny": 1, "names": ["a", "b", "c"],
                  "geno": [[[0, 1, 0, 1], [1, 1, 0, 0], [0, 0, 1, 1]], [[1, 1, 0, 1], [0, 1, 0, 0], [0, 1, 1, 1]]],
                  "u_a": [[-1], [1], [3], [-4]], "bv": [29, 19, 18], "unscale": False, "obj_wt": 1, "unique": True,
                  "nobj": 1, "soln_decn": [[1, 1, 0]], "soln_obj": [[4]], "ndset_wt": 1, "ndset_trans": "default"})
        c.append({"kind": "select", "family": "uc", "enc": "mate_integer", "algo": "stub", "ntaxa": 3, "ncross": 1,
                  "nparent": 2, "seed": 11, "nmating": 2, "nprogeny": 1, "names": ["a", "b", "c"],
                  "geno": [[[0, 1, 0, 1], [1, 1, 0, 0], [0, 0, 1, 1]], [[1, 1, 0, 1], [0, 1, 0, 0], [0, 1, 1, 1]]],
                  "u_a": [[-1], [1], [3], [-4]], "bv": [29, 19, 18], "unscale": False, "obj_wt": 1, "unique": True,
                  "nobj": 1, "soln_decn": [[1, 1, 0]], "soln_obj": [[4]], "ndset_wt": 1, "ndset_trans": "default"})
        # D57 (open) and D55/D56 (fixed by 95a1a100 / ff495eaf, kept as regression cases): problem() could not be built
        base = {"kind": "select", "algo": "stub", "ntaxa": 3, "ncross": 2, "nparent": 2, "seed": 13, "nmating": 1,
                "nprogeny": 1, "names": ["c", "a", "b"], "geno": [[[0, 1, 0, 1], [1, 1, 0, 0], [0, 0, 1, 1]], [[1, 1, 0, 1], [0, 1, 0, 0], [0, 1, 1, 1]]],
                "u_a": [[-1], [1], [3], [-4]], "bv": [29, 19, 18], "unscale": False, "obj_wt": 1, "nobj": 1,
                "soln_obj": [[4]], "ndset_wt": 1, "ndset_trans": "default"}
        c.append(dict(base, family="embv", enc="mate_integer", unique=True, soln_decn=[[1, 1, 0]]))
        c.append(dict(base, family="fam", enc="integer", taxa_grp=[1, 1, 2], soln_decn=[[1, 1, 0]]))
        c.append(dict(base, family="l2", enc="subset", soln_decn=[[2, 0]]))
        # boundaries
        c.append({"kind": "cfg", "enc": "subset", "ntaxa": 4, "ncross": 2, "nparent": 2, "decn": [3], "seed": 0})
        c.append({"kind": "cfg", "enc": "subset", "ntaxa": 5, "ncross": 1, "nparent": 1, "decn": [4, 0, 2], "seed": 1})
        c.append({"kind": "cfg", "enc": "subset", "ntaxa": 6, "ncross": 3, "nparent": 2, "decn": [5, 1, 3, 0], "seed": 2})
        c.append({"kind": "cfg", "enc": "binary", "ntaxa": 4, "ncross": 2, "nparent": 3, "decn": [0, 1, 0, 1], "seed": 3})
        c.append({"kind": "cfg", "enc": "binary", "ntaxa": 3, "ncross": 2, "nparent": 2, "decn": [0, 0, 0], "seed": 3,
                  "expect_error": True})
        c.append({"kind": "cfg", "enc": "integer", "ntaxa": 3, "ncross": 2, "nparent": 2, "decn": [1, 0, 3], "seed": 4})
        c.append({"kind": "cfg", "enc": "real", "ntaxa": 4, "ncross": 2, "nparent": 2, "decn": ["1/2", 0, "1/4", "1/4"], "seed": 6})
        c.append({"kind": "cfg", "enc": "mate_subset", "ntaxa": 4, "ncross": 3, "nparent": 2, "unique": False,
                  "decn": [9, 0, 4], "seed": 7})
        c.append({"kind": "cfg", "enc": "mate_real", "ntaxa": 3, "ncross": 4, "nparent": 2, "unique": True,
                  "decn": ["1/2", "1/2", 1], "seed": 8})
        c.append({"kind": "xmapix", "ntaxa": 4, "nparent": 2, "unique": True})
        c.append({"kind": "xmapix", "ntaxa": 3, "nparent": 3, "unique": False})
        c.append({"kind": "xmapix", "ntaxa": 2, "nparent": 3, "unique": True})
        return c

    # ------------------------------------------------------------------ generation
    def _gen_cfg(self, rng):
        enc = rng.choice(ENC_IND * 3 + ENC_MATE)
        ntaxa = rng.randint(2, 7)
        nparent = rng.choice([1, 2, 2, 2, 3])
        ncross = rng.randint(1, 4) if nparent < 3 else rng.randint(1, 3)
        multi = rng.random() < 0.22 and not enc.startswith("mate_")
        if multi:       # crosses of 3-4 parents whose parents must repeat: [a,b,a] patterns are unavoidable
            nparent = rng.choice([3, 3, 4])
            ncross = rng.randint(2, 4 if nparent == 3 else 3)
            ntaxa = rng.randint(2, 6)
        case = {"kind": "cfg", "enc": enc, "ntaxa": ntaxa, "ncross": ncross, "nparent": nparent,
                "seed": rng.randrange(2 ** 31)}
        mate = enc.startswith("mate_")
        if mate:
            case["unique"] = rng.random() < 0.5
            if case["unique"] and nparent > ntaxa:
                case["unique"] = False
            nopt = len(list(_mods()["array"].xmapix(ntaxa, nparent, case["unique"])))
            nslot = ncross
        else:
            nopt = ntaxa
            nslot = ncross * nparent
        b = _base_enc(enc)
        if b == "subset":
            k = rng.choice([1, 2, 3, nslot, nslot, max(1, nslot - 1), nslot + 1, nopt])
            if multi:
                k = rng.choice([2, 2, 3, max(2, nslot // 2)])
            k = max(1, min(k, nopt))
            case["decn"] = rng.sample(range(nopt), k)
        elif b == "binary":
            d = [1 if rng.random() < 0.5 else 0 for _ in range(nopt)]
            if not any(d):
                d[rng.randrange(nopt)] = 1
            case["decn"] = d
        elif b == "integer":
            style = rng.random()
            if style < 0.45:       # sum divides the number of slots: whole tiles only
                parts = [0] * nopt
                tot = rng.choice([x for x in range(1, nslot + 1) if nslot % x == 0])
                for _ in range(tot):
                    parts[rng.randrange(nopt)] += 1
                d = parts
            else:
                d = [rng.choice([0, 0, 1, 1, 2, 3, 4]) for _ in range(nopt)]
                if not any(d):
                    d[rng.randrange(nopt)] = rng.randint(1, 3)
            case["decn"] = d
        else:
            d = [rng.choice([0, 0, 1, 1, 2, 3, 4, 6]) for _ in range(nopt)]
            if not any(d):
                d[rng.randrange(nopt)] = 2
            den = rng.choice([1, 2, 4, 8])
            case["decn"] = [canon.enc(Fraction(v, den)) for v in d]
            r = rng.random()
            if r < 0.08:
                case["script"] = {"uniform": "zero"}
            elif r < 0.16:
                case["script"] = {"uniform": rng.choice(["1/2", "1/4", "3/4", "1/1024"])}
        return case

    def _gen_select(self, rng):
        fam = rng.choice(["ebv", "ebv", "ebv", "gebv", "gebv", "random", "ocs", "ocs", "ohv", "uc",
                          "meh", "mgr", "gwgebv", "wgs", "fam", "l2", "embv"])
        ntaxa = rng.randint(3, 7)
        nvrnt = rng.choice([4, 6])
        nparent = rng.choice([1, 2, 2, 3]) if fam not in ("ohv", "uc", "embv") else 2
        ncross = rng.randint(1, 3)
        if fam in ("ohv", "uc", "embv"):
            enc = rng.choice(["mate_subset", "mate_subset", "mate_integer", "mate_binary", "mate_real"])
        else:
            enc = rng.choice(["subset", "subset", "subset", "integer", "binary", "real"])
        b = _base_enc(enc)
        algo = "sorting" if (b == "subset" and fam in ("ebv", "gebv", "random", "ohv", "uc") and rng.random() < 0.6) else "stub"
        case = {"kind": "select", "family": fam, "enc": enc, "algo": algo, "ntaxa": ntaxa, "ncross": ncross,
                "nparent": nparent, "seed": rng.randrange(2 ** 31),
                "nmating": rng.choice([1, 2, [rng.randint(1, 3) for _ in range(ncross)]]),
                "nprogeny": rng.choice([1, 5, [rng.randint(1, 9) for _ in range(ncross)]])}
        # population: unique allele pattern per taxon where possible
        geno = [[[rng.randint(0, 1) for _ in range(nvrnt)] for _ in range(ntaxa)] for _ in range(2)]
        case["geno"] = geno
        case["names"] = ["n%02d" % v for v in rng.sample(range(100), ntaxa)]
        case["u_a"] = [[rng.choice([-4, -2, -1, 1, 2, 3, 5, 8])] for _ in range(nvrnt)]
        bvs = rng.sample(range(-20, 40), ntaxa) if rng.random() < 0.8 else [rng.randint(0, 3) for _ in range(ntaxa)]
        case["bv"] = bvs
        case["unscale"] = rng.random() < 0.5
        case["obj_wt"] = rng.choice([1, 1, 1, -1])
        if fam == "ohv":
            case["unique"] = rng.random() < 0.6
        if fam in ("uc", "embv"):
            case["unique"] = True
        if fam == "ocs" and rng.random() < 0.5:
            case["constrained"] = True          # inequality constraint on the kinship norm
        if fam == "fam":
            case["taxa_grp"] = [rng.randint(1, 3) for _ in range(ntaxa)]
        if algo == "sorting":
            if enc == "subset" and fam != "random" and ncross * nparent > ntaxa:
                case["ncross"] = ncross = 1
                case["nparent"] = nparent = min(nparent, ntaxa)
                if isinstance(case["nmating"], list):
                    case["nmating"] = 1
                if isinstance(case["nprogeny"], list):
                    case["nprogeny"] = 1
            case["nobj"] = 1
            case["perm"] = rng.sample(range(ntaxa), ntaxa)
            case["names2"] = ["m%02d" % v for v in rng.sample(range(100), ntaxa)]
        else:
            # scripted solution set
            nobj = rng.choice([1, 1, 2, 2, 3])
            if fam == "ocs":
                nobj = 2 if rng.random() < 0.7 else 1
            case["nobj"] = nobj
            nsoln = 1 if nobj == 1 else rng.randint(1, 5)
            if enc.startswith("mate_"):
                nopt = len(list(_mods()["array"].xmapix(ntaxa, nparent, case["unique"])))
                ksub = ncross
            else:
                nopt = ntaxa
                ksub = ncross * nparent if fam not in ("random", "fam", "l2") else nparent
            solns = []
            tries = 0
            while len(solns) < nsoln and tries < 50:
                tries += 1
                if b == "subset":
                    if ksub > nopt:
                        break
                    d = rng.sample(range(nopt), ksub)
                elif b == "binary":
                    d = [1 if rng.random() < 0.5 else 0 for _ in range(nopt)]
                    if not any(d):
                        d[rng.randrange(nopt)] = 1
                elif b == "integer":
                    d = [rng.choice([0, 1, 1, 2]) for _ in range(nopt)]
                    if not any(d):
                        d[rng.randrange(nopt)] = 1
                else:
                    d = [rng.choice([0, 1, 2, 3]) for _ in range(nopt)]
                    if not any(d):
                        d[rng.randrange(nopt)] = 1
                    d = [canon.enc(Fraction(v, 4)) for v in d]
                if d not in solns:
                    solns.append(d)
            if not solns:
                case["ncross"], case["nparent"] = 1, 1
                case["nmating"] = 1
                case["nprogeny"] = 1
                solns = [[rng.randrange(nopt)]] if b == "subset" else solns
            case["soln_decn"] = solns
            style = rng.random()
            objs = [[rng.randint(0, 4) for _ in range(nobj)] for _ in solns]
            if style < 0.2 and nobj > 1:        # a constant objective
                for o in objs:
                    o[0] = objs[0][0]
            elif style < 0.4 and len(objs) > 1:  # duplicated point
                objs[-1] = list(objs[0])
            case["soln_obj"] = objs
            if nobj > 1:     # objectives to be increased / decreased, non-unit weights
                case["obj_wt_vec"] = [rng.choice([1, -1, -1, 2, "1/2", -3]) for _ in range(nobj)]
            case["ndset_wt"] = rng.choice([1, 1, -1, 2, "-1/2"])
            case["ndset_trans"] = rng.choice(["default", "default", "sum", "first", "negmax"])
            if case["ndset_trans"] == "default" and rng.random() < 0.5:
                case["ndset_kwargs"] = {"obj_wt": [rng.choice([1, 1, 2, 3]) for _ in range(nobj)],
                                        "vec_wt": [rng.choice([1, -1]) for _ in range(nobj)]}
        return case

    def generate(self, rng, n, tier):
        out = []
        for n_k in ((2, 1, True), (3, 2, True), (3, 2, False), (4, 3, True), (5, 2, False), (6, 3, True), (4, 1, False)):
            out.append({"kind": "xmapix", "ntaxa": n_k[0], "nparent": n_k[1], "unique": n_k[2]})
        while len(out) < n:
            r = rng.random()
            if r < 0.62:
                out.append(self._gen_cfg(rng))
            elif r < 0.97:
                out.append(self._gen_select(rng))
            else:
                out.append({"kind": "xmapix", "ntaxa": rng.randint(1, 6), "nparent": rng.randint(1, 3),
                            "unique": rng.random() < 0.5})
        return out

    def exhaustive(self, tier):
        """thorough tier: every decision over 3 candidates in every encoding on the shapes 1x2, 2x1, 2x2, 3x2
        (three generator seeds each), and every cross map with n <= 5, k <= 3"""
        if tier != "thorough":
            return None
        import itertools
        out = []
        shapes = [(1, 2), (2, 1), (2, 2), (3, 2)]
        for nc, npar in shapes:
            for seed in (0, 1, 2):
                for k in (1, 2, 3):
                    for d in itertools.permutations(range(3), k):
                        out.append({"kind": "cfg", "enc": "subset", "ntaxa": 3, "ncross": nc, "nparent": npar,
                                    "decn": list(d), "seed": seed})
                for d in itertools.product(range(3), repeat=3):
                    if any(d):
                        out.append({"kind": "cfg", "enc": "integer", "ntaxa": 3, "ncross": nc, "nparent": npar,
                                    "decn": list(d), "seed": seed})
                        out.append({"kind": "cfg", "enc": "real", "ntaxa": 3, "ncross": nc, "nparent": npar,
                                    "decn": [canon.enc(Fraction(v, 2)) for v in d], "seed": seed})
                        if max(d) <= 1:
                            out.append({"kind": "cfg", "enc": "binary", "ntaxa": 3, "ncross": nc, "nparent": npar,
                                        "decn": list(d), "seed": seed})
        for n in range(1, 6):
            for k in range(1, 4):
                for u in (True, False):
                    out.append({"kind": "xmapix", "ntaxa": n, "nparent": k, "unique": u})
        return out

    # ------------------------------------------------------------------ implementation
    def _xmap(self, case):
        M = _mods()
        return [list(map(int, r)) for r in M["array"].xmapix(case["ntaxa"], case["nparent"], bool(case["unique"]))]

    def _run_cfg(self, case):
        M = _mods()
        enc = case["enc"]
        cls = M["cfgcls"][enc]
        rng = RecRNG(case["seed"], case.get("script"))
        pg = _pgmat(case["ntaxa"])
        decn = _decn_array(enc, case["decn"])
        snapshot = decn.copy()
        kw = dict(ncross=case["ncross"], nparent=case["nparent"], nmating=1, nprogeny=1, pgmat=pg,
                  xconfig_decn=decn, rng=rng)
        obs = {}
        if enc.startswith("mate_"):
            xmap = self._xmap(case)
            kw["xconfig_xmap"] = numpy.array(xmap, dtype=int).reshape(len(xmap), case["nparent"])
            obs["xmap"] = xmap
        if case.get("expect_error"):
            try:
                cls(**kw)
                obs["error"] = None
            except Exception as e:  # input meant to be rejected
                obs["error"] = canon.exc_tag(e)
            obs["log"] = rng.log
            return obs
        cfg = cls(**kw)
        obs["xconfig"] = [[int(v) for v in r] for r in cfg.xconfig]
        obs["log"] = rng.log
        obs["decn_untouched"] = bool(numpy.array_equal(snapshot, cfg.xconfig_decn))
        obs["design_ok"] = bool(cfg.ncross == case["ncross"] and cfg.nparent == case["nparent"] and _same_pop(cfg.pgmat, pg))
        return obs

    # -- select ------------------------------------------------------------------------------
    def _world(self, case, perm=None, names=None):
        M = _mods()
        n = case["ntaxa"]
        idx = list(range(n)) if perm is None else list(perm)
        geno = [[case["geno"][ph][i] for i in idx] for ph in range(2)]
        nm = [case["names"][i] for i in idx] if names is None else list(names)
        pg = _pgmat(n, geno, nm)
        grp = None
        if case.get("taxa_grp"):
            grp = numpy.array([case["taxa_grp"][i] for i in idx])
            pg.taxa_grp = grp
        if case["family"] == "embv":
            pg.vrnt_xoprob = numpy.array([0.5 if j in (0, pg.nvrnt // 2) else 0.125 for j in range(pg.nvrnt)])
        nobj = case.get("nobj", 1)
        ntrait = nobj if case["family"] in ("ebv", "gebv", "random", "ohv", "uc", "gwgebv", "wgs", "fam", "embv") else 1
        bv = numpy.array([[float(case["bv"][i]) + 3.0 * t * ((i * 7) % 5) for t in range(ntrait)] for i in idx])
        loc = numpy.array([2.0] * ntrait)
        scl = numpy.array([4.0] * ntrait)
        bvmat = M["bvmat"]((bv - loc) / scl, location=loc, scale=scl, taxa=numpy.array(nm, dtype=object), taxa_grp=grp,
                           trait=numpy.array(["y%d" % t for t in range(ntrait)], dtype=object))
        u_a = numpy.array([[float(r[0]) * (1 + t) + t * (j % 3) for t in range(ntrait)] for j, r in enumerate(case["u_a"])])
        gp = M["gpmod"](beta=numpy.array([[1.0] * ntrait]), u_misc=None, u_a=u_a,
                        trait=numpy.array(["y%d" % t for t in range(ntrait)], dtype=object))
        return pg, bvmat, gp, ntrait

    def _protocol(self, case, ntrait, soalgo, moalgo, rng, ndset):
        M = _mods()
        fam, enc = case["family"], case["enc"]
        cls = M["fam"][(fam, _base_enc(enc))]
        nobj = case.get("nobj", 1)
        kw = dict(ncross=case["ncross"], nparent=case["nparent"],
                  nmating=case["nmating"] if not isinstance(case["nmating"], list) else numpy.array(case["nmating"]),
                  nprogeny=case["nprogeny"] if not isinstance(case["nprogeny"], list) else numpy.array(case["nprogeny"]),
                  nobj=nobj, obj_wt=float(case.get("obj_wt", 1)) if nobj == 1 else
                  (numpy.array([float(Fraction(v)) for v in case["obj_wt_vec"]]) if case.get("obj_wt_vec") else None),
                  rng=rng, soalgo=soalgo, moalgo=moalgo, **ndset)
        if fam in ("ebv", "gebv"):
            kw.update(ntrait=ntrait, unscale=bool(case["unscale"]))
        elif fam == "random":
            kw.update(ntrait=ntrait)
        elif fam == "ocs":
            kw.update(ntrait=1, unscale=bool(case["unscale"]), cmatfcty=M["cmatfcty"]())
            if nobj == 1:
                kw["obj_trans"] = lambda decnvec, latentvec, **k: latentvec[:1] + latentvec[1:2]
            if case.get("constrained"):
                kw.update(nineqcv=1, ineqcv_wt=1.0,
                          ineqcv_trans=lambda decnvec, latentvec, **k: numpy.maximum(latentvec[:1] - 0.75, 0.0))
        elif fam == "ohv":
            kw.update(ntrait=ntrait, nhaploblk=2, unique_parents=bool(case["unique"]))
        elif fam == "uc":
            kw.update(ntrait=ntrait, nself=0, upper_percentile=0.1, vmatfcty=M["vmatfcty"](), gmapfn=M["haldane"](),
                      unique_parents=True)
        elif fam in ("meh",):
            pass
        elif fam in ("mgr", "l2"):
            kw.update(cmatfcty=M["cmatfcty"]())
        elif fam == "gwgebv":
            kw.update(ntrait=ntrait, alpha=0.5)
        elif fam in ("wgs", "fam"):
            kw.update(ntrait=ntrait)
        elif fam == "embv":
            kw.update(ntrait=ntrait, nrep=2, mateprot=M["dhcross"](rng=numpy.random.RandomState(case["seed"] % 1000)),
                      unique_parents=True)
        return cls(**kw)

    def _stub_algo(self, case, store):
        M = _mods()
        b = _base_enc(case["enc"])
        base, Soln = M["algobase"][b], M["solncls"][b]
        decns = numpy.array([[float(Fraction(v)) for v in d] for d in case["soln_decn"]]) if b == "real" else \
            numpy.array(case["soln_decn"], dtype=int)
        objs = numpy.array(case["soln_obj"], dtype=float)

        class Stub(base):
            def __init__(self):
                pass

            def minimize(self, prob, miscout=None, **kwargs):
                store["prob"] = prob
                q = len(decns)
                return Soln(ndecn=prob.ndecn, decn_space=prob.decn_space, decn_space_lower=prob.decn_space_lower,
                            decn_space_upper=prob.decn_space_upper, nobj=prob.nobj, obj_wt=prob.obj_wt,
                            nineqcv=prob.nineqcv, ineqcv_wt=prob.ineqcv_wt, neqcv=prob.neqcv, eqcv_wt=prob.eqcv_wt,
                            nsoln=q, soln_decn=decns.copy(), soln_obj=objs.copy(),
                            soln_ineqcv=numpy.zeros((q, prob.nineqcv)), soln_eqcv=numpy.zeros((q, prob.neqcv)))
        return Stub()

    def _recording_sorting(self, store):
        M = _mods()
        Sorting = M["sorting"]

        class RecSorting(Sorting):
            def minimize(self, prob, miscout=None, **kwargs):
                store["prob"] = prob
                store["single_obj"] = [float(prob.evalfn(numpy.array([e]))[0][0]) for e in prob.decn_space]
                return super().minimize(prob, miscout=miscout, **kwargs)
        return RecSorting()

    def _ndset(self, case):
        t = case.get("ndset_trans", "default")
        d = {"ndset_wt": float(Fraction(case.get("ndset_wt", 1)))}
        if t == "sum":
            d["ndset_trans"] = lambda mat, **kw: mat.sum(1)
            d["ndset_trans_kwargs"] = {}
        elif t == "first":
            d["ndset_trans"] = lambda mat, **kw: mat[:, 0].copy()
            d["ndset_trans_kwargs"] = {}
        elif t == "negmax":
            d["ndset_trans"] = lambda mat, **kw: -mat.max(1)
            d["ndset_trans_kwargs"] = {}
        elif case.get("ndset_kwargs"):
            d["ndset_trans_kwargs"] = {k: numpy.array(v, dtype=float) for k, v in case["ndset_kwargs"].items()}
        return d

    def _one_select(self, case, perm=None, names=None):
        M = _mods()
        pg, bvmat, gp, ntrait = self._world(case, perm, names)
        store = {}
        rng = RecRNG(case["seed"])                  # the protocol's own generator
        stray = RecRNG(case["seed"] + 1)            # stands in for the module-level global generator
        if case["algo"] == "sorting":
            so, mo = self._recording_sorting(store), None
        else:
            st = self._stub_algo(case, store)
            so, mo = st, st
        prot = self._protocol(case, ntrait, so, mo, rng, self._ndset(case))
        misc = {}
        # since fix 166b95e8 select() hands the protocol's generator to the configuration; any draw that
        # still reaches the module-level global generator (the pre-repair rng=None path) lands on `stray`
        with _patch(M["mixin"], "global_prng", stray):
            cfg = prot.select(pgmat=pg, gmat=pg, ptdf=None, bvmat=bvmat, gpmod=gp, t_cur=0, t_max=1, miscout=misc)
        log = [e for e in rng.log]
        enc = case["enc"]
        b = _base_enc(enc)
        decn = cfg.xconfig_decn
        r = {"xconfig": [[int(v) for v in row] for row in cfg.xconfig],
             "decn": [canon.enc(float(v)) for v in decn] if b == "real" else [int(v) for v in decn],
             "log": log,
             "names": [str(pg.taxa[i]) for i in range(pg.ntaxa)],
             "nmating": [int(v) for v in cfg.nmating], "nprogeny": [int(v) for v in cfg.nprogeny],
             "design_ok": bool(cfg.ncross == case["ncross"] and cfg.nparent == case["nparent"] and _same_pop(cfg.pgmat, pg)),
             "has_soln": ("sosoln" in misc) or ("mosoln" in misc),
             "own_generator": bool(cfg.rng is rng), "stray_draws": len(stray.log)}
        if case["family"] in ("uc", "embv") and enc == "mate_integer" and "prob" in store:
            r["uc_upper"] = [int(v) for v in store["prob"].decn_space_upper]
            r["uc_lower"] = [int(v) for v in store["prob"].decn_space_lower]
            r["uc_int"] = bool(store["prob"].decn_space_upper.dtype.kind in "iu" and
                               store["prob"].decn_space_lower.dtype.kind in "iu")
        if enc.startswith("mate_"):
            r["xmap"] = [[int(v) for v in row] for row in cfg.xconfig_xmap]
        if "single_obj" in store:
            r["single_obj"] = [canon.enc(v) for v in store["single_obj"]]
        soln = misc.get("sosoln", misc.get("mosoln"))
        if soln is not None and case["algo"] == "stub":
            tv = prot.ndset_trans(soln.soln_obj, **prot.ndset_trans_kwargs) if case.get("nobj", 1) > 1 else None
            r["tvals"] = None if tv is None else [canon.enc(float(v)) for v in tv]
        return r

    def _run_select(self, case):
        obs = {"a": self._one_select(case)}
        if case["algo"] == "sorting":
            obs["b"] = self._one_select(case, case["perm"], case["names2"])
        return obs

    def run_impl(self, case):
        k = case["kind"]
        if k == "cfg":
            return self._run_cfg(case)
        if k == "select":
            return self._run_select(case)
        if k == "xmapix":
            M = _mods()
            return {"rows": [[int(v) for v in r] for r in M["array"].xmapix(case["ntaxa"], case["nparent"], bool(case["unique"]))]}
        raise ValueError(k)

    # ------------------------------------------------------------------ model requests
    def _sample_spec_reqs(self, enc, ncross, nparent, decn, xmap, log, xconfig):
        b = _base_enc(enc)
        reqs = []
        base = {"enc": enc, "ncross": ncross, "nparent": nparent}
        if xmap is not None:
            base["xmap"] = xmap
        orc = _parse_log(enc, log, ncross, nparent)
        if orc is not None:
            r = {"op": "c07.sample", **base, **orc}
            if b != "real":
                r["decn"] = [int(v) for v in decn]
            else:
                # the sampler is inside the model: exact weights and numpy's own (unstable) descending sort order
                r["w"] = _weights(enc, decn)
                r["sigma"] = [int(v) for v in _decn_array(enc, decn).argsort()[::-1]]
            reqs.append(r)
        s = {"op": "c07.spec", **base, "xconfig": xconfig}
        if b == "subset":
            s["decn"] = [int(v) for v in decn]
        else:
            s["w"] = _weights(enc, decn)
        reqs.append(s)
        return reqs

    def requests(self, case, obs):
        k = case["kind"]
        if k == "xmapix":
            return [{"op": "c07.xmapix", "ntaxa": case["ntaxa"], "nparent": case["nparent"], "unique": bool(case["unique"])}]
        if k == "cfg":
            if case.get("expect_error"):
                enc = case["enc"]
                r = {"op": "c07.sample", "enc": enc, "ncross": case["ncross"], "nparent": case["nparent"],
                     "decn": [int(v) for v in case["decn"]], "rem": [], "perm": [], "perm2": [], "orders": [],
                     "rowperms": []}
                if enc.startswith("mate_"):
                    r["xmap"] = obs["xmap"]
                return [r]
            return self._sample_spec_reqs(case["enc"], case["ncross"], case["nparent"], case["decn"], obs.get("xmap"),
                                          obs["log"], obs["xconfig"])
        if k == "select":
            reqs = []
            for key in ("a", "b"):
                if key not in obs:
                    continue
                o = obs[key]
                log = [e for e in o["log"]]
                rr = self._sample_spec_reqs(case["enc"], case["ncross"], case["nparent"], o["decn"], o.get("xmap"),
                                            log, o["xconfig"])
                o["_nreq"] = len(rr)
                reqs += rr
                if case["algo"] == "sorting":
                    reqs.append({"op": "c07.sorting", "obj": o["single_obj"], "k": len(o["decn"])})
                    reqs.append({"op": "c07.spec_topk", "obj": o["single_obj"], "k": len(o["decn"]),
                                 "decn": o["decn"]})
            if case["family"] in ("uc", "embv") and case["enc"] == "mate_integer":
                nm = case["nmating"] if isinstance(case["nmating"], list) else [case["nmating"]] * case["ncross"]
                reqs.append({"op": "c07.uc_bounds" if case["family"] == "uc" else "c07.embv_bounds", "ncross": case["ncross"], "nparent": case["nparent"],
                             "nmating": nm, "nxmap": len(obs["a"]["xmap"])})
            if case["family"] == "fam" and _base_enc(case["enc"]) != "subset":
                reqs.append({"op": "c07.family_bounds", "nparent": case["nparent"], "ntaxa": case["ntaxa"]})
            if case["algo"] == "stub" and case.get("nobj", 1) > 1:
                o = obs["a"]
                dec = [[int(Fraction(v) * 4) if _base_enc(case["enc"]) == "real" else int(v) for v in d]
                       for d in case["soln_decn"]]
                reqs.append({"op": "c07.mo_choice", "wt": canon.enc(Fraction(case["ndset_wt"])), "tvals": o["tvals"],
                             "decns": dec})
                if case["ndset_trans"] == "default":
                    kw = case.get("ndset_kwargs") or {"obj_wt": [1] * case["nobj"], "vec_wt": [1] * case["nobj"]}
                    reqs.append({"op": "c07.ndset_dist", "mat": case["soln_obj"], "obj_wt": kw["obj_wt"],
                                 "vec_wt": kw["vec_wt"]})
            return reqs
        raise ValueError(k)

    # ------------------------------------------------------------------ judge
    @staticmethod
    def _ok(a):
        if "err" in a:
            raise RuntimeError("driver error: " + a["err"])
        return a["ok"]

    @staticmethod
    def _sus_near_tie(decn, k, offset):
        """is some pointer within binary64 rounding distance of a cumulative-weight boundary (or the offset within
        rounding distance of 0 / of the spacing)?  Then the exact-arithmetic model and the binary64 computation
        may legitimately resolve the comparison differently; only exact (dyadic-spacing) cases are compared then."""
        p = sorted((Fraction(v) for v in decn), reverse=True)
        tot = sum(p)
        d = tot / k
        o = Fraction(offset)
        eps = tot / (1 << 40)
        if o <= eps or d - o <= eps or abs(2 * o - d) <= eps:
            return True
        cs, acc = [], Fraction(0)
        for v in p:
            acc += v
            cs.append(acc)
        return any(abs(o + j * d - c) <= eps for j in range(k) for c in cs)

    def _judge_sample_spec(self, enc, ncross, nparent, log, xconfig, answers, decn=None):
        """-> (corr, spec, detail, share_only) for one configuration"""
        orc = _parse_log(enc, log, ncross, nparent)
        i = 0
        if (orc is not None and _base_enc(enc) == "real" and decn is not None and "ok" in answers[0]
                and answers[0]["ok"].get("rows") != xconfig):
            k = ncross if enc.startswith("mate_") else ncross * nparent
            d = sum(Fraction(v) for v in canon.dec(decn)) / k
            dyadic = d.denominator & (d.denominator - 1) == 0
            if not dyadic and self._sus_near_tie(canon.dec(decn), k, canon.dec(orc["offset"])):
                s = self._ok(answers[1])
                share_only = (not s["ok"]) and s.get("others") is True and s.get("share") is False
                return True, bool(s["ok"]), (f"model={answers[0]['ok']} impl={xconfig} [pointer within binary64 rounding "
                                             f"of a boundary, spacing not dyadic: comparison waived] spec[{s['detail']}]"), share_only
        if orc is not None and str(answers[0].get("err", "")).startswith("oracle:"):
            # the recorded draws are not what the modelled code would have asked its generator for
            i = 1
            corr = False
            md = "recorded draws do not fit the model (" + answers[0]["err"] + ")"
        elif orc is not None:
            m = self._ok(answers[0])
            i = 1
            corr = m.get("rows") == xconfig
            md = m.get("rows", m.get("error"))
        else:
            corr = False
            md = "generator call pattern differs from the model's"
        s = self._ok(answers[i])
        share_only = (not s["ok"]) and s.get("others") is True and s.get("share") is False
        return corr, bool(s["ok"]), f"model={md} impl={xconfig} spec[{s['detail']}]", share_only

    def judge(self, case, obs, answers):
        k = case["kind"]
        if k == "xmapix":
            m = self._ok(answers[0])
            rows = obs["rows"]
            n, kk, u = case["ntaxa"], case["nparent"], case["unique"]
            # Spec: exactly the sorted k-tuples over range(n) (strict if unique), each once, lexicographic
            import itertools
            want = [list(t) for t in (itertools.combinations(range(n), kk) if u else
                                      itertools.combinations_with_replacement(range(n), kk))]
            return {"corr": m == rows, "spec": rows == want, "nontrivial": len(rows) >= 2,
                    "detail": f"xmapix model={m} impl={rows}"}
        if k == "cfg":
            if case.get("expect_error"):
                m = self._ok(answers[0])
                corr = ("error" in m) and obs["error"] is not None
                return {"corr": corr, "spec": True, "nontrivial": False,
                        "detail": f"rejected input: model={m} impl={obs['error']}"}
            corr, spec, detail, share_only = self._judge_sample_spec(
                case["enc"], case["ncross"], case["nparent"], obs["log"], obs["xconfig"], answers, case["decn"])
            spec = spec and obs["decn_untouched"] and obs["design_ok"]
            flat = [v for r in obs["xconfig"] for v in r]
            nontriv = (case["ncross"] >= 2 or case["nparent"] >= 2) and len(set(flat)) >= 2
            return {"corr": corr, "spec": spec, "nontrivial": nontriv, "share_only": share_only,
                    "detail": f"cfg[{case['enc']}] {detail} untouched={obs['decn_untouched']} design={obs['design_ok']}"}
        if k == "select":
            return self._judge_select(case, obs, answers)
        raise ValueError(k)

    def _judge_select(self, case, obs, answers):
        enc = case["enc"]
        corr, spec, details = True, True, []
        share_only = False
        pos = 0
        per = {}
        for key in ("a", "b"):
            if key not in obs:
                continue
            o = obs[key]
            n = o["_nreq"]
            c, s, d, so = self._judge_sample_spec(enc, case["ncross"], case["nparent"], o["log"], o["xconfig"],
                                                   answers[pos:pos + n], o["decn"])
            pos += n
            share_only = share_only or so
            # design parameters carried over
            nm = case["nmating"] if isinstance(case["nmating"], list) else [case["nmating"]] * case["ncross"]
            npg = case["nprogeny"] if isinstance(case["nprogeny"], list) else [case["nprogeny"]] * case["ncross"]
            design = o["design_ok"] and o["nmating"] == nm and o["nprogeny"] == npg and o["has_soln"]
            s = s and design
            # the configuration is sampled from the generator the protocol was constructed with
            own = o["own_generator"] and o["stray_draws"] == 0
            c = c and own
            details.append(f"{key}: {d} design={design} draws_from_protocol_generator={own}")
            if case["algo"] == "sorting":
                m = self._ok(answers[pos])
                topk = self._ok(answers[pos + 1])
                pos += 2
                so_vals = [Fraction(v) for v in canon.dec(o["single_obj"])]
                same_vals = [so_vals[i] for i in m] == [so_vals[i] for i in o["decn"]]
                distinct = len(set(so_vals)) == len(so_vals)
                c = c and (m == o["decn"] if distinct else same_vals)
                s = s and bool(topk)
                details.append(f"{key}: sorting model={m} impl={o['decn']} topk={topk}")
                per[key] = {"vals": sorted(so_vals[i] for i in o["decn"]), "distinct": distinct}
            corr = corr and c
            spec = spec and s
        if case["family"] in ("uc", "embv") and enc == "mate_integer":
            ub = self._ok(answers[pos])
            pos += 1
            ubok = ("error" not in ub and ub.get("upper") == obs["a"].get("uc_upper")
                    and ub.get("lower") == obs["a"].get("uc_lower") and obs["a"].get("uc_int") is True)
            corr = corr and ubok
            details.append(f"uc integer upper bound model={ub.get('upper', ub.get('error'))} impl={obs['a'].get('uc_upper')}")
        if case["family"] == "fam" and _base_enc(enc) != "subset":
            fb = self._ok(answers[pos])
            pos += 1
            corr = corr and "error" not in fb       # the implementation built its problem: so must the model
            details.append(f"family bounds model={fb}")
        nontriv = True
        if case["algo"] == "sorting":
            a, b = obs["a"], obs["b"]
            # independent criterion (EBV: the breeding values themselves; GEBV: X u exactly)
            indep = self._independent_criterion(case)
            if indep is not None:
                chosen = set(a["decn"])
                w = Fraction(case.get("obj_wt", 1))
                ok = all(w * (-indep[i]) <= w * (-indep[j]) for i in chosen for j in range(case["ntaxa"]) if j not in chosen)
                spec = spec and ok
                details.append(f"independent criterion ok={ok}")
            # equivariance under permutation + relabelling
            rnd = case["family"] == "random"      # the criterion itself is redrawn in every run
            eq_vals = rnd or canon.close(per["a"]["vals"], per["b"]["vals"], rel=1e-9, abs_=1e-9)
            spec = spec and eq_vals
            details.append(f"chosen criterion values agree={eq_vals}")
            if per["a"]["distinct"] and not rnd:
                if enc.startswith("mate_"):
                    ca = sorted(tuple(sorted(case["names"][t] for t in a["xmap"][d])) for d in a["decn"])
                    inv = {case["names2"][i]: case["names"][case["perm"][i]] for i in range(case["ntaxa"])}
                    cb = sorted(tuple(sorted(inv[b["names"][t]] for t in b["xmap"][d])) for d in b["decn"])
                else:
                    ca = sorted(case["names"][i] for i in a["decn"])
                    inv = {case["names2"][i]: case["names"][case["perm"][i]] for i in range(case["ntaxa"])}
                    cb = sorted(inv[b["names"][i]] for i in b["decn"])
                spec = spec and ca == cb
                details.append(f"equivariance {ca} vs {cb}")
            nopt = len(a["single_obj"])
            nontriv = nopt >= 2 and len(set(a["decn"])) < nopt
        else:
            o = obs["a"]
            b = _base_enc(enc)
            nobj = case.get("nobj", 1)
            dec_impl = [Fraction(v) for v in canon.dec(o["decn"])] if b == "real" else o["decn"]
            cand = [[Fraction(v) for v in d] for d in case["soln_decn"]]
            if nobj == 1:
                ok = [Fraction(v) for v in dec_impl] == cand[0]
                spec = spec and ok
                details.append(f"decision is soln_decn[0]: {ok}")
                nontriv = True
            else:
                m = self._ok(answers[pos])
                pos += 1
                wt = Fraction(case["ndset_wt"])
                hit = [i for i, d in enumerate(cand) if d == [Fraction(v) for v in dec_impl]]
                ix_impl = hit[0] if hit else None
                if case["ndset_trans"] == "default":
                    d2 = self._ok(answers[pos])
                    pos += 1
                    score = None if d2 is None else [float(wt) * math.sqrt(float(Fraction(v))) for v in canon.dec(d2)]
                else:
                    mat = [[Fraction(v) for v in r] for r in case["soln_obj"]]
                    t = {"sum": lambda r: sum(r), "first": lambda r: r[0], "negmax": lambda r: -max(r)}[case["ndset_trans"]]
                    score = [float(wt * t(r)) for r in mat]
                if score is None or ix_impl is None:
                    okmax = False
                else:
                    mx = max(score)
                    okmax = score[ix_impl] >= mx - 1e-9 * max(1.0, abs(mx))
                spec = spec and okmax
                near_tie = score is not None and sum(1 for v in score if v >= max(score) - 1e-9 * max(1.0, abs(max(score)))) > 1
                cm = m is not None and (m["ix"] == ix_impl or (near_tie and okmax))
                corr = corr and cm
                details.append(f"mo choice model={m} impl_ix={ix_impl} score={score} argmax_ok={okmax}")
                nontriv = len(cand) >= 2
        return {"corr": corr, "spec": spec, "nontrivial": nontriv, "share_only": share_only,
                "detail": f"select[{case['family']}/{enc}/{case['algo']}] " + " | ".join(details)}

    @staticmethod
    def _independent_criterion(case):
        fam = case["family"]
        if fam == "ebv" and case["enc"] == "subset":
            return [Fraction(v) for v in case["bv"]]
        if fam == "gebv" and case["enc"] == "subset":
            n = case["ntaxa"]
            g = []
            for i in range(n):
                g.append(sum(Fraction(case["u_a"][j][0]) * (case["geno"][0][i][j] + case["geno"][1][i][j])
                             for j in range(len(case["u_a"]))))
            return g
        return None

    # ------------------------------------------------------------------ findings
    def signature(self, case, obs, verdict):
        sig = {"kind": case.get("kind"), "enc": case.get("enc")}
        enc = case.get("enc") or ""
        b = _base_enc(enc)
        nslot = case.get("ncross", 0) * (1 if enc.startswith("mate_") else case.get("nparent", 0))
        if case.get("kind") == "select" and isinstance(obs, dict) and "__exception__" in obs:
            fam, exc, text = case.get("family"), obs["__exception__"], obs.get("text", "")
            if fam == "l2" and exc == "type" and "mkrwt" in text and "afreq" in text:
                sig.update(site="L2NormGenomicSelection.problem", cond="from_gmat_called_without_mkrwt_afreq")
        if b == "integer" and isinstance(verdict, dict) and verdict.get("share_only"):
            decs = [case["decn"]] if case.get("kind") == "cfg" else case.get("soln_decn", [])
            for d in decs:
                tot = sum(int(v) for v in d)
                if tot and nslot % tot != 0 and max(int(v) for v in d) >= 2:
                    sig["site"] = "IntegerSelectionConfiguration.sample_xconfig"
                    sig["cond"] = "remainder_drawn_from_repeated_options"
        return sig

    def shrink(self, case):
        k = case.get("kind")
        if k == "cfg":
            for key in ("ncross", "nparent"):
                if case[key] > 1:
                    c = dict(case)
                    c[key] = case[key] - 1
                    yield c
            d = case["decn"]
            b = _base_enc(case["enc"])
            if b == "subset" and len(d) > 1:
                for i in range(len(d)):
                    c = dict(case)
                    c["decn"] = d[:i] + d[i + 1:]
                    yield c
            if b in ("integer", "real", "binary"):
                for i in range(len(d)):
                    if Fraction(d[i]) != 0 and sum(1 for v in d if Fraction(v) != 0) > 1:
                        c = dict(case)
                        c["decn"] = d[:i] + [0] + d[i + 1:]
                        yield c
            for s in (0, 1, 2, 3):
                if case["seed"] != s:
                    c = dict(case)
                    c["seed"] = s
                    yield c
        elif k == "select":
            if case["ncross"] > 1 and not isinstance(case["nmating"], list) and not isinstance(case["nprogeny"], list) \
                    and case["algo"] == "sorting":
                c = dict(case)
                c["ncross"] = case["ncross"] - 1
                yield c
            if case["algo"] == "stub" and len(case.get("soln_decn", [])) > 1:
                for i in range(len(case["soln_decn"])):
                    c = dict(case)
                    c["soln_decn"] = case["soln_decn"][:i] + case["soln_decn"][i + 1:]
                    c["soln_obj"] = case["soln_obj"][:i] + case["soln_obj"][i + 1:]
                    yield c

    # ------------------------------------------------------------------ self-test mutants
    def mutants(self):
        M = _mods()
        ind_mods = [M["cfgmod"][e] for e in ENC_IND]
        tiled_mods = [M["cfgmod"][e] for e in ("subset", "integer", "binary", "mate_subset", "mate_integer", "mate_binary")]
        sampling = M["sampling"]
        real_tiled = sampling.tiled_choice
        real_axis = sampling.axis_shuffle

        def tiled_replace(a, size=None, replace=True, p=None, rng=None):
            return real_tiled(a, size=size, replace=True, p=p, rng=rng)

        def no_outcross(xconfig, rng=None):
            return None

        def axis1(a, axis=None, rng=None):
            return real_axis(a, 1, rng=rng)

        def argmin_select(orig_cls_mod):
            """select() with `score.argmin()` in the multi-objective branch"""
            cls = getattr(orig_cls_mod, orig_cls_mod.__name__.split(".")[-1])
            orig = cls.select

            def select(self, pgmat, gmat, ptdf, bvmat, gpmod, t_cur, t_max, miscout=None, **kwargs):
                if self.nobj <= 1:
                    return orig(self, pgmat, gmat, ptdf, bvmat, gpmod, t_cur, t_max, miscout=miscout, **kwargs)
                real_trans = self.ndset_trans
                try:
                    self._ndset_trans = lambda mat, **kw: -real_trans(mat, **kw)
                    return orig(self, pgmat, gmat, ptdf, bvmat, gpmod, t_cur, t_max, miscout=miscout, **kwargs)
                finally:
                    self._ndset_trans = real_trans
            return _patch(cls, "select", select)

        def shifted_sosolve(mod):
            cls = getattr(mod, mod.__name__.split(".")[-1])
            orig = cls.sosolve

            def sosolve(self, *a, **kw):
                out = orig(self, *a, **kw)
                d = out.soln_decn
                if d.dtype.kind in "iu" and len(out.decn_space) == len(numpy.unique(out.decn_space)) and d.shape[1] != len(out.decn_space):
                    out.soln_decn = (d + 1) % len(out.decn_space)      # subset encodings
                else:
                    out.soln_decn = numpy.roll(d, 1, axis=1)              # vector encodings
                return out
            return _patch(cls, "sosolve", sosolve)

        Sorting = M["sorting"]
        orig_min = Sorting.minimize

        def sorting_off_by_one(self, prob, miscout=None, **kwargs):
            out = orig_min(self, prob, miscout=miscout, **kwargs)
            evals = numpy.stack([prob.evalfn(numpy.array([e]))[0] for e in prob.decn_space])
            ix = evals.argsort(0)
            sel = prob.decn_space[ix[1:prob.ndecn + 1, 0]]
            if len(sel) == prob.ndecn:
                out.soln_decn = numpy.stack([sel])
            return out

        def mate_lookup_off_by_one(mod):
            cls = getattr(mod, mod.__name__.split(".")[-1])
            orig = cls.sample_xconfig

            def sample_xconfig(self, return_xconfig=True):
                real = self._xconfig_xmap
                try:
                    self._xconfig_xmap = numpy.roll(real, -1, axis=0)
                    return orig(self, return_xconfig)
                finally:
                    self._xconfig_xmap = real
            return _patch(cls, "sample_xconfig", sample_xconfig)

        def neighbour_outcross(xconfig, rng=None):
            """outcross_shuffle whose objective counts equal *neighbouring* entries only (seeded change C07-a1)"""
            if rng is None:
                rng = sampling.global_prng

            def objfn(x):
                return int(numpy.count_nonzero(x[:, 1:] == x[:, :-1]))
            xravel = xconfig.ravel()
            best = objfn(xconfig)
            exchix = numpy.array([[i, j] for i in range(len(xravel)) for j in range(i + 1, len(xravel))])
            iterate = True
            while iterate:
                rng.shuffle(exchix)
                local = True
                for i, j in exchix:
                    xravel[i], xravel[j] = xravel[j], xravel[i]
                    sc = objfn(xconfig)
                    if sc < best:
                        best = sc
                        local = False
                        break
                    xravel[i], xravel[j] = xravel[j], xravel[i]
                iterate = not local

        def front_over_objwt(mod):
            """multi-objective branch sees soln_obj / obj_wt (seeded change C07-a2)"""
            cls = getattr(mod, mod.__name__.split(".")[-1])
            orig = cls.select

            def select(self, pgmat, gmat, ptdf, bvmat, gpmod, t_cur, t_max, miscout=None, **kwargs):
                if self.nobj <= 1:
                    return orig(self, pgmat, gmat, ptdf, bvmat, gpmod, t_cur, t_max, miscout=miscout, **kwargs)
                real_trans = self.ndset_trans
                wt = numpy.asarray(self.obj_wt, dtype=float)
                try:
                    self._ndset_trans = lambda mat, **kw: real_trans(mat / wt, **kw)
                    return orig(self, pgmat, gmat, ptdf, bvmat, gpmod, t_cur, t_max, miscout=miscout, **kwargs)
                finally:
                    self._ndset_trans = real_trans
            return _patch(cls, "select", select)

        EbvSubset = M["fam"][("ebv", "subset")]
        orig_problem = EbvSubset.problem

        def problem_sorted_labels(self, pgmat, gmat, ptdf, bvmat, gpmod, t_cur, t_max, **kwargs):
            """breeding values 'aligned' by position in the sorted label array (seeded change C07-a3)"""
            if pgmat is not None and pgmat.taxa is not None and bvmat.taxa is not None:
                bvmat = bvmat.select_taxa(numpy.searchsorted(numpy.sort(bvmat.taxa), pgmat.taxa))
            return orig_problem(self, pgmat, gmat, ptdf, bvmat, gpmod, t_cur, t_max, **kwargs)

        arr = M["array"]
        real_triudix = arr.triudix

        def triudix_wrong(n, k):
            for t in real_triudix(n, k):
                yield t[::-1]

        muts = [
            ("decision_not_the_solution", lambda: _many(*[shifted_sosolve(M["protmod"][e]) for e in M["protmod"]])),
            ("sorting_ix_off_by_one", lambda: _patch(Sorting, "minimize", sorting_off_by_one)),
            ("mo_choice_argmin", lambda: _many(*[argmin_select(M["protmod"][e]) for e in M["protmod"]])),
            ("tiled_choice_with_replacement", lambda: _many(*[_patch(m, "tiled_choice", tiled_replace) for m in tiled_mods])),
            ("skip_outcross_shuffle", lambda: _many(*[_patch(m, "outcross_shuffle", no_outcross) for m in ind_mods])),
            ("axis_shuffle_across_crosses", lambda: _many(*[_patch(m, "axis_shuffle", axis1) for m in ind_mods])),
            ("outcross_objective_neighbours_only", lambda: _many(*[_patch(m, "outcross_shuffle", neighbour_outcross) for m in ind_mods])),
            ("mo_front_divided_by_obj_wt", lambda: _many(*[front_over_objwt(M["protmod"][e]) for e in M["protmod"]])),
            ("ebv_subset_values_by_sorted_labels", lambda: _patch(EbvSubset, "problem", problem_sorted_labels)),
            ("xmap_row_off_by_one", lambda: _many(*[mate_lookup_off_by_one(M["cfgmod"][e]) for e in ENC_MATE])),
            ("triudix_reversed_rows", lambda: _patch(arr, "triudix", triudix_wrong)),
        ]
        return muts


PROP = C07()
