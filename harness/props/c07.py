"""C07 — selection protocols turn criteria into valid, correct cross configurations.

Case kinds
  cfg      one of the eight <Encoding>[Mate]SelectionConfiguration classes constructed directly with a
           recording generator; model = XConfig.sample* replayed with the recorded draws;
           Spec = XConfig.spec* (Lean, `c07.spec`) on the implementation's xconfig
  history  ONE configuration object: constructed, sampled again and again (with / without return value), its
           decision re-assigned in between OR REVISED IN PLACE (through the configuration's own view `edit`, or
           through the solution array it is a view of `editsol`); the decisions are rows of one 2-D solution array
           (C / Fortran / strided; int8 .. int64 / uint / bool), rng=None option, RandomState or Generator; every
           table is checked against the decision the configuration itself reported just before it was sampled
           (Lean: C07.history_every_table_follows_its_decision)
  select   the public select() of a protocol family x encoding.  `algo = sorting`: the exact optimiser
           (SortingSubsetOptimizationAlgorithm), run on the population and on a permuted/relabelled copy
           (optionally through the SAME protocol object): truncation over ALL candidates enumerated
           independently (Lean xmapix), decision space covers every candidate, equivariance.
           `algo = stub`: an optimiser that returns a scripted solution set (single- or multi-objective
           branch, optionally with scripted constraint violations; argmax clause); a second table is sampled
           from the returned configuration and the solution object must stay as returned.
           Both: optionally a second select() through the SAME protocol object on a permuted / renamed population or
           on a SUB-population (one candidate fewer; the stub then has its own script), with design attributes
           (ncross, nmating, nprogeny) RE-ASSIGNED on the live object in between (`b_over`); `gen = generator`
           hands a numpy.random.Generator instead of a RandomState to the code; family uc: every cross type
           (`vfcty` two / dihybrid / three / four), `upper_percentile`, `nself`; with the exact optimiser the usefulness
           criterion of every candidate cross is recomputed independently of the selection problem (`c07.uc_pmean`)
  problem  table-driven: problem() of EVERY concrete protocol class (57): the decision space against
           SelProt.subsetSpace / vectorSpace, Spec `specSpace` + `specCover`
  xmapix   core/util/array.py xmapix/triuix/triudix against the model
"""
import contextlib
import math
from fractions import Fraction

import numpy

from .. import canon, compat
from ..core import Prop

compat.install()

ENC_IND = ("subset", "integer", "binary", "real")
ENC_MATE = ("mate_subset", "mate_integer", "mate_binary", "mate_real")
UC_NPARENT = {"two": 2, "dihybrid": 2, "three": 3, "four": 4}


def _uc_intensity(case):
    """selection intensity of truncating the upper fraction p of a normal distribution: phi(Phi^-1(1-p)) / p"""
    import statistics
    p = float(Fraction(case.get("upper_percentile", "1/10")))
    nd = statistics.NormalDist()
    return nd.pdf(nd.inv_cdf(1.0 - p)) / p


# --------------------------------------------------------------------------------------------
# recording / scripted generator (DESIGN 4.2): a RandomState whose choice/shuffle/uniform results
# are logged; `shuffle` is implemented as new = old[permutation(n)] so the applied permutation is
# known; `uniform` can be scripted to the endpoints of its interval
# --------------------------------------------------------------------------------------------
class RecRNG(numpy.random.RandomState):
    def __init__(self, seed, script=None):
        super().__init__(int(seed) % (2 ** 32))
        self.log = []
        self.script = dict(script or {})
        self._inner = 0

    def shuffle(self, x):
        if self._inner:                 # numpy's own permutation()/choice() call shuffle internally
            return super().shuffle(x)
        n = len(x)
        perm = numpy.arange(n)
        super().shuffle(perm)
        before = numpy.array(x, copy=True)
        if n:
            x[...] = before[perm]
        self.log.append({"m": "shuffle", "n": int(n), "ndim": int(before.ndim),
                         "perm": [int(v) for v in perm],
                         "before": [int(v) for v in before] if before.ndim == 1 and before.dtype.kind in "iu" else None})

    def choice(self, a, size=None, replace=True, p=None):
        self._inner += 1
        try:
            out = super().choice(a, size, replace, p)
        finally:
            self._inner -= 1
        self.log.append({"m": "choice", "replace": bool(replace),
                         "out": [int(v) for v in numpy.asarray(out).ravel()]})
        return out

    def uniform(self, low=0.0, high=1.0, size=None):
        mode = self.script.get("uniform")
        if mode == "zero":
            v = float(low)
        elif mode == "prev":
            v = float(numpy.nextafter(high, low))
        elif mode is not None:
            v = float(low) + float(Fraction(mode)) * (float(high) - float(low))
        else:
            v = super().uniform(low, high, size)
        self.log.append({"m": "uniform", "low": float(low), "high": float(high), "out": float(v)})
        return v


class RecGen(numpy.random.Generator):
    """the same recorder over a numpy.random.Generator (the other generator type every `rng` argument accepts):
    the logged draws have the format of RecRNG's, so the model is replayed with them unchanged; the bulk methods a
    Generator offers beyond RandomState (permuted, permutation) are logged under their own name - the modelled
    code does not call them, so the recorded pattern then differs from the model's"""
    def __init__(self, seed, script=None):
        super().__init__(numpy.random.PCG64(int(seed) % (2 ** 32)))
        self.log = []
        self.script = dict(script or {})

    def shuffle(self, x, axis=0):
        if axis != 0:
            self.log.append({"m": "shuffle_axis", "axis": int(axis)})
            return super().shuffle(x, axis)
        n = len(x)
        perm = numpy.arange(n)
        super().shuffle(perm)
        before = numpy.array(x, copy=True)
        if n:
            x[...] = before[perm]
        self.log.append({"m": "shuffle", "n": int(n), "ndim": int(before.ndim),
                         "perm": [int(v) for v in perm],
                         "before": [int(v) for v in before] if before.ndim == 1 and before.dtype.kind in "iu" else None})

    def choice(self, a, size=None, replace=True, p=None, axis=0, shuffle=True):
        out = super().choice(a, size, replace, p, axis, shuffle)
        self.log.append({"m": "choice", "replace": bool(replace),
                         "out": [int(v) for v in numpy.asarray(out).ravel()]})
        return out

    def uniform(self, low=0.0, high=1.0, size=None):
        mode = self.script.get("uniform")
        if mode == "zero":
            v = float(low)
        elif mode == "prev":
            v = float(numpy.nextafter(high, low))
        elif mode is not None:
            v = float(low) + float(Fraction(mode)) * (float(high) - float(low))
        else:
            v = super().uniform(low, high, size)
        self.log.append({"m": "uniform", "low": float(low), "high": float(high), "out": float(v)})
        return v

    def permuted(self, x, *a, **kw):
        self.log.append({"m": "permuted"})
        return super().permuted(x, *a, **kw)

    def permutation(self, x, *a, **kw):
        self.log.append({"m": "permutation"})
        return super().permutation(x, *a, **kw)


def _mkrng(case, seed, script=None):
    """the generator handed to the code under test: RandomState by default, `gen = "generator"` asks for the
    numpy.random.Generator form"""
    if case.get("gen") == "generator":
        return RecGen(seed, script)
    return RecRNG(seed, script)


_M = {}


def _mods():
    if _M:
        return _M
    compat.import_pybrops()
    import importlib
    g = importlib.import_module
    cfg = "pybrops.breed.prot.sel.cfg."
    _M["cfgmod"] = {
        "subset": g(cfg + "SubsetSelectionConfiguration"),
        "integer": g(cfg + "IntegerSelectionConfiguration"),
        "binary": g(cfg + "BinarySelectionConfiguration"),
        "real": g(cfg + "RealSelectionConfiguration"),
        "mate_subset": g(cfg + "SubsetMateSelectionConfiguration"),
        "mate_integer": g(cfg + "IntegerMateSelectionConfiguration"),
        "mate_binary": g(cfg + "BinaryMateSelectionConfiguration"),
        "mate_real": g(cfg + "RealMateSelectionConfiguration"),
    }
    _M["cfgcls"] = {k: getattr(m, m.__name__.split(".")[-1]) for k, m in _M["cfgmod"].items()}
    _M["mixin"] = g(cfg + "SampledSelectionConfigurationMixin")
    _M["sampling"] = g("pybrops.core.random.sampling")
    _M["array"] = g("pybrops.core.util.array")
    _M["pgmat"] = g("pybrops.popgen.gmat.DensePhasedGenotypeMatrix").DensePhasedGenotypeMatrix
    _M["bvmat"] = g("pybrops.popgen.bvmat.DenseBreedingValueMatrix").DenseBreedingValueMatrix
    _M["gpmod"] = g("pybrops.model.gmod.DenseAdditiveLinearGenomicModel").DenseAdditiveLinearGenomicModel
    _M["sorting_mod"] = g("pybrops.opt.algo.SortingSubsetOptimizationAlgorithm")
    _M["sorting"] = _M["sorting_mod"].SortingSubsetOptimizationAlgorithm
    sel = "pybrops.breed.prot.sel."
    _M["protmod"] = {
        "subset": g(sel + "SubsetSelectionProtocol"), "integer": g(sel + "IntegerSelectionProtocol"),
        "binary": g(sel + "BinarySelectionProtocol"), "real": g(sel + "RealSelectionProtocol"),
        "mate_subset": g(sel + "SubsetMateSelectionProtocol"), "mate_integer": g(sel + "IntegerMateSelectionProtocol"),
        "mate_binary": g(sel + "BinaryMateSelectionProtocol"), "mate_real": g(sel + "RealMateSelectionProtocol"),
    }
    _M["selprot"] = g(sel + "SelectionProtocol")
    _M["probtrans"] = g(sel + "prob.trans")
    fam = {"ebv": "EstimatedBreedingValue", "gebv": "GenomicEstimatedBreedingValue", "random": "Random",
           "ocs": "OptimalContribution", "ohv": "OptimalHaploidValue", "uc": "UsefulnessCriterion",
           "meh": "MeanExpectedHeterozygosity", "mgr": "MeanGenomicRelationship",
           "gwgebv": "GeneralizedWeightedGenomicEstimatedBreedingValue", "wgs": "WeightedGenomic",
           "fam": "FamilyEstimatedBreedingValue", "l2": "L2NormGenomic", "embv": "ExpectedMaximumBreedingValue"}
    _M["fam"] = {}
    for f, stem in fam.items():
        mod = g(sel + stem + "Selection")
        for e in ("Subset", "Integer", "Binary", "Real"):
            _M["fam"][(f, e.lower())] = getattr(mod, stem + e + "Selection")
    # families that exist in the subset encoding only
    for f, stem in (("gb", "GenotypeBuilder"), ("mogs", "MultiObjectiveGenomic"), ("opv", "OptimalPopulationValue"),
                    ("pafd", "PopulationAlleleFrequencyDistance"), ("pau", "PopulationAlleleUnavailability")):
        _M["fam"][(f, "subset")] = getattr(g(sel + stem + "Selection"), stem + "SubsetSelection")
    _M["weightfn"] = g(sel + "weightfn")
    _M["targetfn"] = g(sel + "targetfn")
    _M["dhcross"] = g("pybrops.breed.prot.mate.TwoWayDHCross").TwoWayDHCross
    _M["vmatfcty"] = g("pybrops.model.vmat.fcty.DenseTwoWayDHAdditiveGeneticVarianceMatrixFactory").DenseTwoWayDHAdditiveGeneticVarianceMatrixFactory
    _M["haldane"] = g("pybrops.popgen.gmap.HaldaneMapFunction").HaldaneMapFunction
    # the cross types a usefulness-criterion protocol can be given (variance matrix factory <-> parents per cross)
    _M["vfcty"] = {k: getattr(g("pybrops.model.vmat.fcty.Dense%sDHAdditiveGeneticVarianceMatrixFactory" % stem),
                              "Dense%sDHAdditiveGeneticVarianceMatrixFactory" % stem)
                   for k, stem in (("two", "TwoWay"), ("dihybrid", "Dihybrid"), ("three", "ThreeWay"), ("four", "FourWay"))}
    _M["ucprob"] = g("pybrops.breed.prot.sel.prob.UsefulnessCriterionSelectionProblem")
    _M["cmatfcty"] = g("pybrops.popgen.cmat.fcty.DenseMolecularCoancestryMatrixFactory").DenseMolecularCoancestryMatrixFactory
    algo = "pybrops.opt.algo."
    soln = "pybrops.opt.soln."
    _M["algobase"] = {e: getattr(g(algo + e.capitalize() + "OptimizationAlgorithm"), e.capitalize() + "OptimizationAlgorithm")
                      for e in ("subset", "integer", "binary", "real")}
    _M["solncls"] = {e: getattr(g(soln + e.capitalize() + "Solution"), e.capitalize() + "Solution")
                     for e in ("subset", "integer", "binary", "real")}
    return _M


def _base_enc(enc):
    return enc[5:] if enc.startswith("mate_") else enc


def _pgmat(ntaxa, geno=None, names=None):
    M = _mods()
    if geno is None:
        mat = numpy.zeros((2, ntaxa, 2), dtype="int8")
    else:
        mat = numpy.array(geno, dtype="int8")
    nv = mat.shape[2]
    half = max(1, nv // 2)
    if names is None:
        names = ["t%d" % i for i in range(ntaxa)]
    pg = M["pgmat"](mat, taxa=numpy.array(names, dtype=object),
                    vrnt_chrgrp=numpy.array([1] * half + [2] * (nv - half)),
                    vrnt_phypos=numpy.arange(nv) * 10, vrnt_genpos=numpy.arange(nv) / 8.0)
    pg.group_vrnt()
    return pg


def _same_pop(a, b):
    """the configuration refers to the population that was passed (the same object or an equal copy)"""
    def labels(x):
        return None if x.taxa is None else list(map(str, x.taxa))
    return a is b or (a.ntaxa == b.ntaxa and labels(a) == labels(b) and numpy.array_equal(a.mat, b.mat))


def _decn_array(enc, decn):
    b = _base_enc(enc)
    if b == "real":
        return numpy.array([float(Fraction(v)) for v in decn], dtype=float)
    return numpy.array([int(v) for v in decn], dtype=int)


def _weights(enc, decn_list):
    """the contribution vector as exact rationals (canonical JSON)"""
    return [canon.enc(Fraction(v)) for v in decn_list]


def _parse_log(enc, log, ncross, nparent):
    """recorded draws -> oracle fields of the `c07.sample` request; None if the call pattern is not
    the one the model assumes"""
    try:
        b = _base_enc(enc)
        mate = enc.startswith("mate_")
        i = 0
        out = {}
        if b == "real":
            if log[i]["m"] != "uniform":
                return None
            i += 1
            if log[i]["m"] != "shuffle" or log[i]["before"] is None:
                return None
            out["offset"] = canon.enc(float(log[i - 1]["out"]))     # rng.uniform(0, ptr_dist), exact
            out["perm"] = log[i]["perm"]                            # rng.shuffle(sel)
            i += 1
        else:
            if log[i]["m"] != "choice" or log[i]["replace"]:
                return None
            out["rem"] = log[i]["out"]
            i += 1
            if log[i]["m"] != "shuffle" or log[i]["ndim"] != 1:
                return None
            out["perm"] = log[i]["perm"]
            i += 1
        rest = log[i:]
        if any(e["m"] != "shuffle" for e in rest):
            return None
        if mate:
            if len(rest) != 1:
                return None
            out["perm2"] = rest[0]["perm"]
        else:
            if len(rest) < ncross + 1:
                return None
            rows = rest[len(rest) - ncross:]
            if any(e["n"] != nparent or e["ndim"] != 1 for e in rows):
                return None
            out["orders"] = [e["perm"] for e in rest[:len(rest) - ncross]]
            out["rowperms"] = [e["perm"] for e in rows]
        return out
    except (IndexError, KeyError, TypeError):
        return None


@contextlib.contextmanager
def _patch(obj, name, new):
    old = getattr(obj, name)
    setattr(obj, name, new)
    try:
        yield
    finally:
        setattr(obj, name, old)


@contextlib.contextmanager
def _many(*ctxs):
    with contextlib.ExitStack() as st:
        for c in ctxs:
            st.enter_context(c)
        yield


class C07(Prop):
    PID = "C07"
    MODULE = "PybropsModel.Props.C07"
    N_QUICK = 1500
    N_THOROUGH = 32000
    CORRESPONDENCE = "functional"
    RULE = ("cfg (50%): the 8 configuration classes constructed directly, 2-7 candidates, 1-4 crosses x 1-4 parents "
            "(22% with 3-4 parents per cross and so few members that [a,b,a] patterns are unavoidable; 3% with 130-300 "
            "candidates / 136-276 candidate crosses and members beyond index 127 / 255; 1% with 36 slots, thorough: ~50), "
            "decisions that do / do not divide the number of slots, unsorted duplicate-free subsets, zero and tied "
            "contributions, dyadic real weights, every generator draw recorded (+ scripted SUS offsets 0, 1/1024 .. 3/4 of "
            "the spacing and spacing-1ulp); select (34%): EBV/GEBV/Random/OCS(+inequality constraint)/OHV/UC/MEH/MGR/GWGEBV/"
            "WGS/FamilyEBV/L2/EMBV in the four encodings + GenotypeBuilder/MOGS/OPV/PAFD/PAU subset (OHV/UC/EMBV: the four mate "
            "encodings, unique_parents True and False, OHV with 1-4 parents per cross; UC with every cross type = variance "
            "matrix factory: two-way / dihybrid (2 parents), three-way (3 parents, contributions 1/2,1/4,1/4), four-way (4 "
            "parents), selected fraction 1/20..1/2 and 0-2 selfing generations, and with the exact optimiser the criterion of "
            "EVERY candidate cross recomputed from the raw breeding values and the variance matrix), unsorted taxa labels or none, "
            "unphased gmat distinct from pgmat, breeding values with a 25000 / 2^30 offset, best candidates at the high "
            "indices, with the exact sorting optimiser on the population and on a permuted, renamed copy (40% through the "
            "same protocol object), or a stub optimiser returning scripted single-/multi-objective solution sets (default "
            "and custom ndset_trans, both signs of ndset_wt, negative / non-unit obj_wt, tied / duplicated / constant "
            "objectives, 40% with constraints and a front mixing violating and clean points), scalar and per-cross "
            "nmating/nprogeny; 30% of cfg/select/history with a numpy.random.Generator instead of a RandomState; mate-selection "
            "decisions that contain self crosses (unique_parents False); integer counts of 130-300 on one or two candidates; "
            "fronts / breeding values that differ by 2^-12..2^-27 or by 1/2 on an offset of 10^9 (exactly representable); "
            "re-used protocol objects with re-assigned ncross/nmating/nprogeny and a second population that is a permuted "
            "copy or a sub-population; history (9%): one configuration object sampled 3-10 times with re-assigned decisions "
            "and decisions revised in place (through the object's view or through the solution array), "
            "dtype/layout forms; problem (4% + one sweep over all 57 protocol classes per run, both values of "
            "unique_parents for the mate-selection families); xmapix (3%, up to 4 parents). "
            "Non-trivial = cfg with >= 2 crosses or >= 2 parents and >= 2 distinct entries; select/sorting with a candidate "
            "left out; select/stub multi-objective with >= 2 front points or single-objective; history with >= 2 samples and "
            ">= 2 distinct entries; problem with >= 3 taxa; xmapix with >= 2 rows")
    TRUSTED = ["stochastic_universal_sampling is inside the model (C17's Sampling.susDraws, exact rational arithmetic); "
               "binary64 is abstracted as exact arithmetic: a model/implementation difference is waived only when the "
               "spacing is not dyadic AND a pointer lies within 2^-40 of a cumulative-weight boundary (0 of ~1300 real "
               "cases per run so far)",
               "problem objects (objective evaluation) are entered through their evalfn (C05 covers them); for EBV/GEBV "
               "subset selection and for usefulness-criterion mate selection the criterion is additionally recomputed from the "
               "raw inputs (UC: progeny mean exactly in Lean `SelProt.progenyMean` with the cross type's contributions; the "
               "variance matrix entries come from the variance matrix factory called directly - not C07's - and the "
               "intensity * sqrt(variance) summand is binary64 in Python, compared with a 1e-9 relative tolerance); for OHV / "
               "EMBV / WGS / GWGEBV the criterion is the problem's own (Spec through evalfn only); the criterion of a candidate "
               "the problem does not offer is obtained from the same evalfn at its cross-map position",
               "numpy RandomState.choice(replace=False)/shuffle deliver sub-multisets / permutations (each recorded draw is "
               "validated by the driver); RecRNG.shuffle applies x[permutation(n)] instead of numpy's in-place algorithm; "
               "numpy's argsort order of tied weights / tied objective values is taken from numpy (oracle sigma, validated by "
               "the driver: a permutation along which the values do not decrease; theorem truncation_exact_any_argsort covers "
               "every such order)",
               "optimisers other than SortingSubsetOptimizationAlgorithm are replaced by a stub returning a scripted "
               "solution set (C06 covers them)",
               "the two classes of UnconstrainedSelectionProtocol (old interface without problem()) are not exercised"]
    ASSUMPTIONS = ["'within one of the proportional share' is read as |count - share| <= 1 (the weakest reading)",
                   "the exchange clause applies to individual-based configurations; in mate-selection configurations an "
                   "exchange of entries would create crosses outside the solution, so membership/multiplicity apply there",
                   "subset decisions are duplicate-free and unordered (a reordered decision is the same solution); "
                   "contribution vectors have a positive sum; ncross, nparent >= 1",
                   "equivariance under permutation is checked on chosen names when criterion values are distinct and on "
                   "chosen criterion values otherwise (ties are broken by position in the code)",
                   "'exactly the best candidates' ranges over ALL admissible candidates of the passed population (every "
                   "individual, resp. every ascending parent tuple): a decision space that withholds a candidate from the "
                   "optimiser is reported as a violation on the problem that withholds it",
                   "'the non-dominated solution that maximises the declared preference transformation' ranges over the whole "
                   "solution set returned by the optimiser, whatever its constraint-violation columns say",
                   "a configuration that leaves its decision array modified in place is a broken correspondence, not a "
                   "violation, as long as every table it produces is right for the decision that was assigned",
                   "in a history every table is judged against the decision the configuration object itself reports "
                   "(cfg.xconfig_decn) immediately before the sample; that this equals the row of the solution array it "
                   "was given (no defensive copy) is a matter of correspondence only",
                   "usefulness criterion of a candidate cross = (expected parental genome contributions the variance matrix "
                   "of the cross type declares, checked against the model's table 1/2,1/2 | 1/2,1/4,1/4 | 1/4 x4) . (breeding "
                   "values of the parents) + intensity(upper_percentile) * sqrt(max(variance matrix entry, 0)); a three-way / "
                   "four-way candidate is the ascending parent tuple with its positions as the roles (lowest index = recurrent "
                   "parent; (p0 x p1) x (p2 x p3)) - the cross map of the code: a permutation of the individuals that does not "
                   "preserve their order changes the candidate set itself (other role assignments, other criterion values), so "
                   "for these two cross types equivariance is judged on order-preserving relabellings only",
                   "known finding D20 absorbs a failing case only if EVERY failing clause of that case is a share deviation "
                   "of a table the as-is integer sampler can produce (integer encoding, counts that do not tile the slots, "
                   "some count >= 2, use counts within [q d_i, (q+1) d_i]: theorem integer_use_counts_iff)"]

    # ------------------------------------------------------------------ corpus
    def corpus(self):
        c = []
        # D20: integer contributions (4,4), 2x2 slots: the remainder draw is hypergeometric (seed 3 -> [[1,1],[1,1]])
        c.append({"kind": "cfg", "enc": "integer", "ntaxa": 2, "ncross": 2, "nparent": 2, "decn": [4, 4], "seed": 3})
        c.append({"kind": "cfg", "enc": "mate_integer", "ntaxa": 3, "ncross": 2, "nparent": 2, "unique": True,
                  "decn": [3, 3, 0], "seed": 1})
        # D7 (C17's, fixed by fc545079, kept as regression case): SUS offset within an ulp of the pointer spacing
        # gave k-1 pointers -> reshape ValueError
        c.append({"kind": "cfg", "enc": "real", "ntaxa": 3, "ncross": 3, "nparent": 1, "decn": [1, 1, 1], "seed": 5,
                  "script": {"uniform": "prev"}})
        # SUS offset exactly 0 (before fc545079: counts (0,1,2) for equal shares 1 — inside "within one")
        c.append({"kind": "cfg", "enc": "real", "ntaxa": 3, "ncross": 3, "nparent": 1, "decn": [1, 1, 1], "seed": 5,
                  "script": {"uniform": "zero"}})
        # D21 (fixed by 3d8c7c9b, kept as regression case): UsefulnessCriterionIntegerSelection.problem() stacked
        # bounds of unequal length when ncross >= 2; the second case also has a non-constant nmating array
        c.append({"kind": "select", "family": "uc", "enc": "mate_integer", "algo": "stub", "ntaxa": 3, "ncross": 2,
                  "nparent": 2, "seed": 11, "nmating": [1, 3], "nprogeny": 1, "names": ["a", "b", "c"],
                  "geno": [[[0, 1, 0, 1], [1, 1, 0, 0], [0, 0, 1, 1]], [[1, 1, 0, 1], [0, 1, 0, 0], [0, 1, 1, 1]]],
                  "u_a": [[-1], [1], [3], [-4]], "bv": [29, 19, 18], "unscale": False, "obj_wt": 1, "unique": True,
                  "nobj": 1, "soln_decn": [[1, 1, 0]], "soln_obj": [[4]], "ndset_wt": 1, "ndset_trans": "default"})
        c.append({"kind": "select", "family": "uc", "enc": "mate_integer", "algo": "stub", "ntaxa": 3, "ncross": 1,
                  "nparent": 2, "seed": 11, "nmating": 2, "nprogeny": 1, "names": ["a", "b", "c"],
                  "geno": [[[0, 1, 0, 1], [1, 1, 0, 0], [0, 0, 1, 1]], [[1, 1, 0, 1], [0, 1, 0, 0], [0, 1, 1, 1]]],
                  "u_a": [[-1], [1], [3], [-4]], "bv": [29, 19, 18], "unscale": False, "obj_wt": 1, "unique": True,
                  "nobj": 1, "soln_decn": [[1, 1, 0]], "soln_obj": [[4]], "ndset_wt": 1, "ndset_trans": "default"})
        # D57 (open) and D55/D56 (fixed by 95a1a100 / ff495eaf, kept as regression cases): problem() could not be built
        base = {"kind": "select", "algo": "stub", "ntaxa": 3, "ncross": 2, "nparent": 2, "seed": 13, "nmating": 1,
                "nprogeny": 1, "names": ["c", "a", "b"], "geno": [[[0, 1, 0, 1], [1, 1, 0, 0], [0, 0, 1, 1]], [[1, 1, 0, 1], [0, 1, 0, 0], [0, 1, 1, 1]]],
                "u_a": [[-1], [1], [3], [-4]], "bv": [29, 19, 18], "unscale": False, "obj_wt": 1, "nobj": 1,
                "soln_obj": [[4]], "ndset_wt": 1, "ndset_trans": "default"}
        c.append(dict(base, family="embv", enc="mate_integer", unique=True, soln_decn=[[1, 1, 0]]))
        c.append(dict(base, family="fam", enc="integer", taxa_grp=[1, 1, 2], soln_decn=[[1, 1, 0]]))
        c.append(dict(base, family="l2", enc="subset", soln_decn=[[2, 0]]))
        # boundaries
        c.append({"kind": "cfg", "enc": "subset", "ntaxa": 4, "ncross": 2, "nparent": 2, "decn": [3], "seed": 0})
        c.append({"kind": "cfg", "enc": "subset", "ntaxa": 5, "ncross": 1, "nparent": 1, "decn": [4, 0, 2], "seed": 1})
        c.append({"kind": "cfg", "enc": "subset", "ntaxa": 6, "ncross": 3, "nparent": 2, "decn": [5, 1, 3, 0], "seed": 2})
        c.append({"kind": "cfg", "enc": "binary", "ntaxa": 4, "ncross": 2, "nparent": 3, "decn": [0, 1, 0, 1], "seed": 3})
        c.append({"kind": "cfg", "enc": "binary", "ntaxa": 3, "ncross": 2, "nparent": 2, "decn": [0, 0, 0], "seed": 3,
                  "expect_error": True})
        c.append({"kind": "cfg", "enc": "integer", "ntaxa": 3, "ncross": 2, "nparent": 2, "decn": [1, 0, 3], "seed": 4})
        c.append({"kind": "cfg", "enc": "real", "ntaxa": 4, "ncross": 2, "nparent": 2, "decn": ["1/2", 0, "1/4", "1/4"], "seed": 6})
        c.append({"kind": "cfg", "enc": "mate_subset", "ntaxa": 4, "ncross": 3, "nparent": 2, "unique": False,
                  "decn": [9, 0, 4], "seed": 7})
        c.append({"kind": "cfg", "enc": "mate_real", "ntaxa": 3, "ncross": 4, "nparent": 2, "unique": True,
                  "decn": ["1/2", "1/2", 1], "seed": 8})
        c.append({"kind": "xmapix", "ntaxa": 4, "nparent": 2, "unique": True})
        c.append({"kind": "xmapix", "ntaxa": 3, "nparent": 3, "unique": False})
        c.append({"kind": "xmapix", "ntaxa": 2, "nparent": 3, "unique": True})
        c += self._corpus_round3()
        c += self._corpus_round4()
        c += self._corpus_round5()
        return c

    def _corpus_round5(self):
        """round 5: usefulness-criterion selection with every cross type (variance matrix factory); the three-way type
        has unequal expected parental genome contributions (1/2, 1/4, 1/4), so the criterion is not mid-parent + spread"""
        import random as _r
        rng = _r.Random(20260931)
        c = []
        for vf, n, uq, nc, p, ns in (("three", 5, True, 2, "1/10", 0), ("three", 4, False, 3, "1/4", 1),
                                     ("four", 5, True, 2, "1/10", 0), ("dihybrid", 5, True, 3, "1/2", 2),
                                     ("two", 5, False, 3, "1/20", 1),
                                     # options away from their defaults (selfing generations, selected fraction)
                                     ("two", 6, True, 4, "1/2", 2), ("two", 6, False, 5, "1/4", 2),
                                     ("three", 5, True, 4, "1/20", 2), ("three", 4, False, 6, "1/2", 2),
                                     ("dihybrid", 6, True, 5, "1/4", 1), ("four", 5, False, 8, "1/4", 2)):
            nv = 6
            k = {"kind": "select", "family": "uc", "enc": "mate_subset", "algo": "sorting", "ntaxa": n, "ncross": nc,
                 "nparent": UC_NPARENT[vf], "vfcty": vf, "upper_percentile": p, "nself": ns, "unique": uq,
                 "seed": 70 + n + nc, "nmating": 1, "nprogeny": 4, "bv": rng.sample(range(-20, 40), n), "unscale": True,
                 "obj_wt": 1, "nobj": 1, "reuse": False, "perm": rng.sample(range(n), n),
                 "names2": ["m%03d" % v for v in rng.sample(range(1000), n)],
                 "geno": [[[rng.randint(0, 1) for _ in range(nv)] for _ in range(n)] for _ in range(2)],
                 "names": ["n%04d" % v for v in rng.sample(range(10000), n)],
                 "u_a": [[rng.choice([-4, -2, 1, 2, 3, 5, 8])] for _ in range(nv)]}
            if vf in ("three", "four") and ns == 2:
                k["perm"] = list(range(n))      # order-preserving relabelling: the equivariance clause applies
            c.append(k)
        return c

    def _corpus_round4(self):
        """classes of histories / options added in round 4 (one representative each; the generators vary them)"""
        import random as _r
        rng = _r.Random(20260930)
        c = []

        def pop(n, nv=6):
            return {"geno": [[[rng.randint(0, 1) for _ in range(nv)] for _ in range(n)] for _ in range(2)],
                    "names": ["n%04d" % v for v in rng.sample(range(10000), n)],
                    "u_a": [[rng.choice([1, 2, 3, 5, 8])] for _ in range(nv)]}
        # one protocol object, two populations of DIFFERENT size, design attributes re-assigned in between
        # (exact optimiser; mate selection with and without self crosses; individual selection)
        for fam, enc, n, d, uq, nc2 in (("ohv", "mate_subset", 5, 2, False, 3), ("ohv", "mate_subset", 5, 3, True, 1),
                                        ("ebv", "subset", 6, 2, None, 1), ("uc", "mate_subset", 4, 2, True, 2)):
            k = dict({"kind": "select", "family": fam, "enc": enc, "algo": "sorting", "ntaxa": n, "ncross": 2, "nparent": d,
                      "seed": 41 + n + d, "nmating": 1, "nprogeny": [3, 4], "bv": rng.sample(range(-20, 40), n), "unscale": True,
                      "obj_wt": 1, "nobj": 1, "reuse": True, "perm": rng.sample(range(n), n - 1),
                      "names2": ["m%03d" % v for v in rng.sample(range(1000), n - 1)],
                      "b_over": {"ncross": nc2, "nmating": [2] * nc2, "nprogeny": 5, "ntaxa": n - 1}}, **pop(n))
            if uq is not None:
                k["unique"] = uq
            c.append(k)
        # the same with a scripted optimiser in a vector encoding (its own script per population), Generator as rng
        c.append(dict({"kind": "select", "family": "ohv", "enc": "mate_integer", "algo": "stub", "ntaxa": 4, "ncross": 2,
                       "nparent": 2, "seed": 51, "nmating": 1, "nprogeny": 1, "bv": [3, 9, 1, 7], "unscale": False, "obj_wt": 1,
                       "unique": False, "nobj": 2, "obj_wt_vec": [1, 1], "gen": "generator",
                       "soln_decn": [[1, 0, 0, 0, 0, 0, 0, 0, 0, 1], [0, 0, 0, 0, 1, 0, 0, 1, 0, 0]],
                       "soln_obj": [[1, "1048577/1048576"], [1, 1]], "ndset_wt": 1, "ndset_trans": "sum",
                       "reuse": True, "perm": [2, 0, 3], "names2": ["q1", "q2", "q3"],
                       "b_over": {"ncross": 3, "nmating": 2, "nprogeny": [1, 2, 3], "ntaxa": 3,
                                  "soln_decn": [[0, 1, 0, 0, 0, 2], [1, 1, 1, 0, 0, 0]]}}, **pop(4)))
        # the eight copies of select() (four encodings x individual / mate): a front whose points differ by 2^-20 in
        # the preferred direction, the preferred point NOT first; violating points listed before it
        for enc, fam in (("subset", "ebv"), ("integer", "ebv"), ("binary", "gebv"), ("real", "ocs"),
                         ("mate_subset", "ohv"), ("mate_integer", "ohv"), ("mate_binary", "ohv"), ("mate_real", "ohv")):
            b = _base_enc(enc)
            nopt = 6 if enc.startswith("mate_") else 4          # C(4,2) candidate crosses / 4 individuals
            if b == "subset":
                sol = [[0, 1], [2, 3], [1, 2]] if not enc.startswith("mate_") else [[0, 5], [2, 3], [1, 4]]
                nc, npar = (1, 2) if not enc.startswith("mate_") else (2, 2)
            else:
                sol = [[1 if j in (i, (i + 2) % nopt) else 0 for j in range(nopt)] for i in range(3)]
                if b == "real":
                    sol = [[canon.enc(Fraction(v, 4)) for v in d] for d in sol]
                nc, npar = 2, 2
            k = dict({"kind": "select", "family": fam, "enc": enc, "algo": "stub", "ntaxa": 4, "ncross": nc, "nparent": npar,
                      "seed": 81, "nmating": 1, "nprogeny": 1, "bv": [7, 3, 9, 1], "unscale": False, "obj_wt": 1, "nobj": 2,
                      "obj_wt_vec": [1, 1], "soln_decn": sol, "real_den": 4,
                      "soln_obj": [[2, 1], [2, "1048577/1048576"], [2, "1048575/1048576"]],
                      "ndset_wt": 1, "ndset_trans": "sum", "ncv": [1, 0], "soln_cv": [[1], [0], [0]]}, **pop(4))
            if enc.startswith("mate_"):
                k["unique"] = True
            c.append(k)
        # decisions revised IN PLACE between samples (through the configuration's view / through the solution array)
        c.append({"kind": "history", "enc": "integer", "ntaxa": 8, "ncross": 3, "nparent": 2, "seed": 61, "dtype": "int64",
                  "decns": [[0, 0, 2, 2, 2, 0, 0, 0], [0, 0, 0, 0, 0, 1, 2, 3], [6, 0, 0, 0, 0, 0, 0, 0]],
                  "steps": ["sample", "set1", "sample", "edit0", "sample", "editsol2", "sample_nr", "sample"]})
        c.append({"kind": "history", "enc": "subset", "ntaxa": 6, "ncross": 2, "nparent": 2, "seed": 62, "dtype": "int32",
                  "decns": [[5, 0], [1, 2]], "layout": "F", "steps": ["sample", "editsol1", "sample", "edit0", "sample"]})
        c.append({"kind": "history", "enc": "mate_real", "ntaxa": 3, "ncross": 3, "nparent": 2, "unique": False, "seed": 63,
                  "decns": [["1/2", 0, "1/2", 0, 0, 0], [0, 0, 0, "1/4", 0, "3/4"]], "gen": "generator",
                  "steps": ["sample", "edit1", "sample", "sample_nr", "editsol0", "sample"]})
        # numpy.random.Generator as the random source; members that must repeat (self-pairings possible)
        c.append({"kind": "cfg", "enc": "subset", "ntaxa": 7, "ncross": 4, "nparent": 2, "decn": [1, 3, 4, 6], "seed": 3,
                  "gen": "generator"})
        c.append({"kind": "cfg", "enc": "subset", "ntaxa": 5, "ncross": 4, "nparent": 2, "decn": [4, 2, 0], "seed": 7,
                  "gen": "generator"})
        c.append({"kind": "cfg", "enc": "real", "ntaxa": 4, "ncross": 4, "nparent": 2, "decn": ["1/2", 0, "1/4", "1/4"], "seed": 9,
                  "gen": "generator"})
        # mate selection whose chosen solution contains SELF crosses (unique_parents = False)
        c.append({"kind": "cfg", "enc": "mate_subset", "ntaxa": 6, "ncross": 3, "nparent": 2, "unique": False,
                  "decn": [9, 13, 20], "seed": 9})                                  # (1,4) (2,4) (5,5)
        c.append({"kind": "cfg", "enc": "mate_subset", "ntaxa": 4, "ncross": 3, "nparent": 3, "unique": False,
                  "decn": [0, 9, 19], "seed": 2, "gen": "generator"})               # (0,0,0) (0,3,3) (3,3,3)
        c.append({"kind": "cfg", "enc": "mate_integer", "ntaxa": 4, "ncross": 4, "nparent": 2, "unique": False,
                  "decn": [2, 0, 0, 1, 0, 0, 0, 0, 0, 1], "seed": 4})               # (0,0) x2, (0,3), (3,3)
        c.append({"kind": "cfg", "enc": "mate_binary", "ntaxa": 3, "ncross": 3, "nparent": 2, "unique": False,
                  "decn": [1, 0, 0, 1, 0, 1], "seed": 5})
        c.append({"kind": "cfg", "enc": "mate_real", "ntaxa": 3, "ncross": 4, "nparent": 2, "unique": False,
                  "decn": ["1/2", 0, 0, "1/2", 0, 1], "seed": 6})
        # contribution counts past 127 / 255
        c.append({"kind": "cfg", "enc": "integer", "ntaxa": 4, "ncross": 2, "nparent": 2, "decn": [0, 0, 200, 0], "seed": 1})
        c.append({"kind": "cfg", "enc": "integer", "ntaxa": 3, "ncross": 1, "nparent": 2, "decn": [0, 256, 3], "seed": 2})
        c.append({"kind": "cfg", "enc": "integer", "ntaxa": 3, "ncross": 2, "nparent": 2, "decn": [0, 256, 0], "seed": 2})
        c.append({"kind": "cfg", "enc": "mate_integer", "ntaxa": 3, "ncross": 3, "nparent": 2, "unique": False,
                  "decn": [0, 0, 512, 0, 0, 0], "seed": 3})
        # breeding values that differ by 2^-20 only; exact optimiser; permuted copy
        c.append(dict({"kind": "select", "family": "ebv", "enc": "subset", "algo": "sorting", "ntaxa": 6, "ncross": 1, "nparent": 2,
                       "seed": 71, "nmating": 1, "nprogeny": 1, "bv": [3 + v * 2.0 ** -20 for v in (4, -2, 7, 0, 5, -6)],
                       "unscale": True, "obj_wt": 1, "nobj": 1, "perm": [3, 5, 0, 2, 1, 4],
                       "names2": ["m%d" % i for i in range(6)]}, **pop(6)))
        c.append({"kind": "cfg", "enc": "mate_integer", "ntaxa": 3, "ncross": 2, "nparent": 2, "unique": True,
                  "decn": [0, 300, 0], "seed": 3})
        return c

    def _corpus_round3(self):
        """classes of inputs added in round 3 (one hand-written representative each; the generators vary them)"""
        import random as _r
        rng = _r.Random(20240929)
        c = []

        def pop(n, nv=4, asc=False):
            geno = [[[rng.randint(0, 1) for _ in range(nv)] for _ in range(n)] for _ in range(2)]
            if asc:
                order = sorted(range(n), key=lambda i: sum(geno[0][i]) + sum(geno[1][i]))
                geno = [[geno[ph][i] for i in order] for ph in range(2)]
            return {"geno": geno, "names": ["n%04d" % v for v in rng.sample(range(10000), n)],
                    "u_a": [[rng.choice([1, 2, 3, 5, 8])] for _ in range(nv)],
                    "names2": ["m%04d" % v for v in rng.sample(range(10000), n)], "perm": list(range(n))[::-1]}
        # three- and four-way crosses in which parents may repeat: the cross map has C(n+d-1, d) rows and the best
        # crosses (made of the high-index individuals) sit in its tail; exact optimiser, reversed population
        for n, d in ((5, 3), (4, 4), (6, 3)):
            c.append(dict({"kind": "select", "family": "ohv", "enc": "mate_subset", "algo": "sorting", "ntaxa": n, "ncross": 2,
                           "nparent": d, "seed": 21 + n, "nmating": 1, "nprogeny": 2, "bv": list(range(n)), "unscale": False,
                           "obj_wt": 1, "nobj": 1, "unique": False}, **pop(n, 6, asc=True)))
        # constrained multi-objective run: the front lists points WITH constraint violation before the preferred one
        base = dict({"kind": "select", "algo": "stub", "ntaxa": 4, "ncross": 2, "nparent": 2, "seed": 31, "nmating": 1,
                     "nprogeny": 1, "bv": [7, 3, 9, 1], "unscale": False, "obj_wt": 1, "nobj": 2, "obj_wt_vec": [1, 1],
                     "soln_obj": [[0, 3], [4, 0], [2, 2], [3, 3]], "ndset_wt": 1, "ndset_trans": "sum", "ncv": [1, 1],
                     "soln_cv": [[1, 0], [0, "1/2"], [0, 0], [0, 0]]}, **pop(4))
        base.pop("names2"), base.pop("perm")
        c.append(dict(base, family="ebv", enc="real", soln_decn=[[1, 0, 0, 0], [0, 1, 0, 0], [0, 0, "1/2", "1/2"], ["1/4", "1/4", "1/4", "1/4"]]))
        c.append(dict(base, family="gebv", enc="subset", soln_decn=[[0, 1, 2, 3], [3, 2, 1, 0], [0, 2, 1, 3], [1, 3, 0, 2]][:4]))
        c.append(dict(base, family="ocs", enc="integer", soln_decn=[[4, 0, 0, 0], [0, 4, 0, 0], [2, 2, 0, 0], [1, 1, 1, 1]]))
        c.append(dict(base, family="wgs", enc="binary", soln_decn=[[1, 0, 0, 0], [0, 1, 0, 0], [1, 1, 0, 0], [1, 1, 1, 1]]))
        c.append(dict(base, family="ohv", enc="mate_subset", unique=True, soln_decn=[[0, 1], [2, 3], [4, 5], [1, 4]]))
        c.append(dict(base, family="uc", enc="mate_real", unique=True,
                      soln_decn=[[1, 0, 0, 0, 0, 0], [0, 1, 0, 0, 0, 0], [0, 0, "1/2", "1/2", 0, 0], ["1/4"] * 4 + [0, 0]]))
        c.append(dict(base, family="ohv", enc="mate_integer", unique=False,
                      soln_decn=[[2] + [0] * 9, [0, 2] + [0] * 8, [1, 1] + [0] * 8, [0] * 8 + [1, 1]]))
        c.append(dict(base, family="embv", enc="mate_binary", unique=True,
                      soln_decn=[[1, 0, 0, 0, 0, 0], [0, 1, 0, 0, 0, 0], [0, 0, 1, 1, 0, 0], [1, 1, 0, 0, 0, 0]]))
        # sizes past internal constants: > 127 uses of one candidate cross, > 1024 crosses drawn, > 1024 candidate
        # crosses (OHV's chunk size `mem`), > 127 candidates for the exact optimiser
        c.append({"kind": "cfg", "enc": "mate_subset", "ntaxa": 4, "ncross": 300, "nparent": 2, "unique": True, "decn": [5, 0], "seed": 3})
        c.append({"kind": "cfg", "enc": "mate_integer", "ntaxa": 4, "ncross": 1100, "nparent": 2, "unique": False,
                  "decn": [2, 0, 0, 1, 0, 0, 0, 0, 0, 2], "seed": 4})
        c.append({"kind": "cfg", "enc": "mate_real", "ntaxa": 4, "ncross": 130, "nparent": 2, "unique": True,
                  "decn": ["1/2", 0, "1/4", 0, 1, "1/4"], "seed": 5})
        c.append(dict({"kind": "select", "family": "ebv", "enc": "subset", "algo": "sorting", "ntaxa": 130, "ncross": 5, "nparent": 2,
                       "seed": 7, "nmating": 1, "nprogeny": 1, "bv": rng.sample(range(-500, 500), 130), "unscale": True,
                       "obj_wt": 1, "nobj": 1}, **dict(pop(130), perm=rng.sample(range(130), 130))))
        c.append(dict({"kind": "select", "family": "ohv", "enc": "mate_subset", "algo": "sorting", "ntaxa": 46, "ncross": 3, "nparent": 2,
                       "seed": 8, "nmating": 1, "nprogeny": 1, "bv": list(range(46)), "unscale": True, "obj_wt": 1, "nobj": 1,
                       "unique": True}, **pop(46, 6)))
        # magnitudes: a large common offset with small differences; exact ties
        c.append(dict({"kind": "select", "family": "ebv", "enc": "subset", "algo": "sorting", "ntaxa": 6, "ncross": 1, "nparent": 3,
                       "seed": 9, "nmating": 1, "nprogeny": 1, "bv": [2 ** 30 + 4, 2 ** 30 - 8, 2 ** 30 + 12, 2 ** 30, 2 ** 30 + 8, 2 ** 30 - 4],
                       "unscale": True, "obj_wt": 1, "nobj": 1}, **dict(pop(6), perm=[3, 5, 0, 2, 1, 4])))
        c.append(dict({"kind": "select", "family": "ebv", "enc": "subset", "algo": "sorting", "ntaxa": 6, "ncross": 1, "nparent": 2,
                       "seed": 10, "nmating": 1, "nprogeny": 1, "bv": [5, 9, 9, 1, 9, 5], "unscale": False, "obj_wt": 1, "nobj": 1},
                      **dict(pop(6), perm=[3, 5, 0, 2, 1, 4])))
        # one configuration object sampled repeatedly with its decision re-assigned (rows of a Fortran-ordered int8 /
        # bool solution matrix)
        c.append({"kind": "history", "enc": "binary", "ntaxa": 5, "ncross": 2, "nparent": 2, "seed": 11, "dtype": "bool",
                  "decns": [[1, 0, 1, 0, 0], [0, 0, 0, 1, 1], [1, 1, 1, 1, 1]], "layout": "F",
                  "steps": ["sample", "read", "set1", "sample", "sample_nr", "set2", "sample", "set0", "sample"]})
        c.append({"kind": "history", "enc": "integer", "ntaxa": 4, "ncross": 2, "nparent": 2, "seed": 12, "dtype": "int8",
                  "decns": [[2, 0, 2, 0], [0, 1, 0, 1], [1, 1, 1, 1]], "layout": "strided",
                  "steps": ["sample", "set1", "sample", "set2", "sample_nr", "set0", "sample"], "nmating": [1, 3]})
        c.append({"kind": "history", "enc": "subset", "ntaxa": 6, "ncross": 2, "nparent": 3, "seed": 13, "dtype": "int32",
                  "decns": [[5, 0, 3], [1, 2, 4]], "layout": "F", "steps": ["sample", "set1", "sample", "sample", "set0", "sample_nr"]})
        c.append({"kind": "history", "enc": "real", "ntaxa": 4, "ncross": 2, "nparent": 2, "seed": 14,
                  "decns": [["1/2", 0, "1/2", 0], [0, "1/4", 0, "3/4"]], "layout": "F", "steps": ["sample", "set1", "sample", "set0", "sample"]})
        c.append({"kind": "history", "enc": "mate_subset", "ntaxa": 4, "ncross": 5, "nparent": 3, "unique": False, "seed": 15,
                  "dtype": "int16", "decns": [[19, 3], [0, 7]], "layout": "strided", "xmap_order": "F",
                  "steps": ["sample", "set1", "sample", "read", "sample_nr"]})
        c.append({"kind": "history", "enc": "mate_binary", "ntaxa": 4, "ncross": 4, "nparent": 2, "unique": True, "seed": 16,
                  "dtype": "bool", "decns": [[1, 0, 0, 0, 0, 1], [0, 1, 1, 0, 0, 0]], "layout": "F", "xmap_order": "F",
                  "steps": ["sample", "set1", "sample", "set0", "sample"]})
        return c

    # ------------------------------------------------------------------ generation
    def _gen_cfg(self, rng):
        enc = rng.choice(ENC_IND * 3 + ENC_MATE)
        ntaxa = rng.randint(2, 7)
        nparent = rng.choice([1, 2, 2, 2, 3])
        ncross = rng.randint(1, 4) if nparent < 3 else rng.randint(1, 3)
        multi = rng.random() < 0.22 and not enc.startswith("mate_")
        if multi:       # crosses of 3-4 parents whose parents must repeat: [a,b,a] patterns are unavoidable
            nparent = rng.choice([3, 3, 4])
            ncross = rng.randint(2, 4 if nparent == 3 else 3)
            ntaxa = rng.randint(2, 6)
        wide = rng.random() < 0.03       # candidate indices beyond 127 / 255 (narrow integer buffers)
        many = (not wide) and rng.random() < 0.012 and not enc.startswith("mate_")   # > 32 slots, few members
        if wide:
            ntaxa = rng.choice([17, 24]) if enc.startswith("mate_") else rng.choice([130, 200, 300])
            nparent = 2 if enc.startswith("mate_") else nparent
        if many:
            shapes = [(12, 3), (18, 2), (9, 4)]
            if getattr(self, "_tier", "quick") == "thorough" and rng.random() < 0.12:
                shapes = [(24, 2), (16, 3)]         # ~50 slots: seconds per case, thorough tier only
            ncross, nparent, ntaxa = rng.choice(shapes) + (rng.randint(3, 6),)
        case = {"kind": "cfg", "enc": enc, "ntaxa": ntaxa, "ncross": ncross, "nparent": nparent,
                "seed": rng.randrange(2 ** 31)}
        mate = enc.startswith("mate_")
        if mate:
            case["unique"] = rng.random() < 0.5
            if case["unique"] and nparent > ntaxa:
                case["unique"] = False
            nopt = len(list(_mods()["array"].xmapix(ntaxa, nparent, case["unique"])))
            nslot = ncross
        else:
            nopt = ntaxa
            nslot = ncross * nparent
        b = _base_enc(enc)
        if b == "subset":
            k = rng.choice([1, 2, 3, nslot, nslot, max(1, nslot - 1), nslot + 1, nopt])
            if multi:
                k = rng.choice([2, 2, 3, max(2, nslot // 2)])
            k = max(1, min(k, nopt))
            case["decn"] = rng.sample(range(nopt), k)
            if wide:
                case["decn"] = rng.sample(range(nopt - 40, nopt), min(k, 40))
        elif b == "binary":
            d = [1 if rng.random() < 0.5 else 0 for _ in range(nopt)]
            if not any(d):
                d[rng.randrange(nopt)] = 1
            case["decn"] = d
        elif b == "integer":
            style = rng.random()
            if style < 0.45:       # sum divides the number of slots: whole tiles only
                parts = [0] * nopt
                tot = rng.choice([x for x in range(1, nslot + 1) if nslot % x == 0])
                for _ in range(tot):
                    parts[rng.randrange(nopt)] += 1
                d = parts
            else:
                d = [rng.choice([0, 0, 1, 1, 2, 3, 4]) for _ in range(nopt)]
                if not any(d):
                    d[rng.randrange(nopt)] = rng.randint(1, 3)
            if style > 0.93:        # contribution counts past 127 / 255 (narrow integer buffers) on one or two candidates
                d = [0] * nopt
                for i in rng.sample(range(nopt), rng.choice([1, 1, 2]) if nopt > 1 else 1):
                    d[i] = rng.choice([130, 200, 256, 300])
            case["decn"] = d
        else:
            d = [rng.choice([0, 0, 1, 1, 2, 3, 4, 6]) for _ in range(nopt)]
            if not any(d):
                d[rng.randrange(nopt)] = 2
            den = rng.choice([1, 2, 4, 8])
            scale = Fraction(1)
            if rng.random() < 0.25:     # contributions of a tiny / a huge common magnitude (shares are scale-free)
                scale = rng.choice([Fraction(1, 2 ** 40), Fraction(1, 2 ** 27), Fraction(2 ** 30)])
            case["decn"] = [canon.enc(Fraction(v, den) * scale) for v in d]
            r = rng.random()
            if r < 0.08:
                case["script"] = {"uniform": "zero"}
            elif r < 0.16:
                case["script"] = {"uniform": rng.choice(["1/2", "1/4", "3/4", "1/1024"])}
        if wide and b != "subset":
            d = [0] * nopt
            for i in rng.sample(range(nopt - 40, nopt), rng.randint(1, 3)):
                d[i] = 1 if b in ("binary", "integer") else rng.choice([1, 2, 3])
            if b == "integer" and nslot % sum(d) != 0:
                d = [0] * nopt
                d[nopt - 1 - rng.randrange(30)] = 1
            case["decn"] = d if b != "real" else [canon.enc(Fraction(v, 2)) for v in d]
            case.pop("script", None)
        if mate and not case["unique"] and nparent >= 2 and not wide and rng.random() < 0.6:
            # the chosen solution contains SELF crosses (i,i) / (i,i,j): rows with a repeated parent are candidate
            # crosses like any other and must come out of the configuration as they are
            xm = [list(map(int, r)) for r in _mods()["array"].xmapix(ntaxa, nparent, False)]
            selfs = [i for i, r in enumerate(xm) if len(set(r)) < len(r)]
            pick = rng.sample(selfs, min(len(selfs), rng.randint(1, 2)))
            if b == "subset":
                d = [v for v in case["decn"] if v not in pick]
                case["decn"] = (pick + d)[:max(len(case["decn"]), len(pick))]
                rng.shuffle(case["decn"])
            else:
                d = list(case["decn"])
                for i in pick:
                    if Fraction(d[i]) == 0:
                        d[i] = 1 if b != "real" else canon.enc(Fraction(1, 2))
                case["decn"] = d
        if rng.random() < 0.3:
            case["gen"] = "generator"          # numpy.random.Generator instead of RandomState
        return case

    def _gen_select(self, rng):
        fam = rng.choice(["ebv", "ebv", "ebv", "gebv", "gebv", "random", "ocs", "ocs", "ohv", "ohv", "ohv", "uc",
                          "meh", "mgr", "gwgebv", "wgs", "fam", "l2", "embv", "gb", "mogs", "opv", "pafd", "pau"])
        ntaxa = rng.randint(3, 7)
        nvrnt = rng.choice([4, 6])
        nparent = rng.choice([1, 2, 2, 3])
        vf = None
        if fam == "embv":
            nparent = 2             # two-way DH mating protocol
        elif fam == "uc":
            # the cross type = the variance matrix factory handed to the protocol; it fixes the number of parents per
            # cross AND the expected parental genome contributions (three-way: 1/2, 1/4, 1/4 - unequal)
            vf = rng.choice(["two", "two", "three", "three", "three", "four", "dihybrid"])
            nparent = UC_NPARENT[vf]
            if vf == "four":
                ntaxa = rng.randint(3, 5)
        elif fam == "ohv":
            nparent = rng.choice([1, 2, 2, 3, 3, 4])    # multi-way crosses: cross maps of C(n+d-1, d) rows
            if nparent == 4:
                ntaxa = rng.randint(3, 5)
        ncross = rng.randint(1, 3)
        if fam in ("ohv", "uc", "embv"):
            enc = rng.choice(["mate_subset", "mate_subset", "mate_integer", "mate_binary", "mate_real"])
        elif fam in ("gb", "mogs", "opv", "pafd", "pau"):
            enc = "subset"
        else:
            enc = rng.choice(["subset", "subset", "subset", "integer", "binary", "real"])
        b = _base_enc(enc)
        algo = "sorting" if (b == "subset" and fam in ("ebv", "gebv", "random", "ohv", "uc", "embv", "wgs", "gwgebv")
                             and rng.random() < 0.6) else "stub"
        case = {"kind": "select", "family": fam, "enc": enc, "algo": algo, "ntaxa": ntaxa, "ncross": ncross,
                "nparent": nparent, "seed": rng.randrange(2 ** 31),
                "nmating": rng.choice([1, 2, [rng.randint(1, 3) for _ in range(ncross)]]),
                "nprogeny": rng.choice([1, 5, [rng.randint(1, 9) for _ in range(ncross)]])}
        # population: unique allele pattern per taxon where possible
        geno = [[[rng.randint(0, 1) for _ in range(nvrnt)] for _ in range(ntaxa)] for _ in range(2)]
        case["geno"] = geno
        case["names"] = ["n%02d" % v for v in rng.sample(range(100), ntaxa)]
        case["u_a"] = [[rng.choice([-4, -2, -1, 1, 2, 3, 5, 8])] for _ in range(nvrnt)]
        bvs = rng.sample(range(-20, 40), ntaxa) if rng.random() < 0.8 else [rng.randint(0, 3) for _ in range(ntaxa)]
        mag = rng.random()
        if mag < 0.10:          # a large common offset with small differences (exactly representable)
            off = rng.choice([25000, 2 ** 30])
            bvs = [off + 4 * v for v in rng.sample(range(-8, 9), ntaxa)]
        elif mag < 0.16:        # the best candidates at the HIGH indices / at the LOW indices
            bvs = sorted(bvs, reverse=rng.random() < 0.5)
        elif mag < 0.26:
            # candidates that differ by 2^-20 / 2^-27 only (inside any 1e-3 / 1e-5 / 1e-8 rounding or tolerance), all
            # exactly representable: 'exactly the best' is still well defined
            step = rng.choice([2.0 ** -20, 2.0 ** -27, 2.0 ** -12])
            off = rng.choice([0, 3, 25000])
            bvs = [off + step * v for v in rng.sample(range(-8, 9), ntaxa)]
        case["bv"] = bvs
        case["unscale"] = rng.random() < 0.5
        case["obj_wt"] = rng.choice([1, 1, 1, -1])
        if vf is not None:
            case["vfcty"] = vf
            case["upper_percentile"] = rng.choice(["1/10", "1/10", "1/4", "1/2", "1/20"])
            case["nself"] = rng.choice([0, 0, 1, 2])
        if fam in ("ohv", "uc", "embv"):
            case["unique"] = rng.random() < 0.5
            if case["unique"] and nparent > ntaxa:
                case["unique"] = False
        if fam == "ohv" and rng.random() < 0.3:
            # favourable alleles accumulate with the index: the best crosses sit in the tail of the cross map
            order = sorted(range(ntaxa), key=lambda i: sum(geno[0][i]) + sum(geno[1][i]))
            case["geno"] = geno = [[geno[ph][i] for i in order] for ph in range(2)]
            case["u_a"] = [[abs(r[0])] for r in case["u_a"]]
        if fam == "ocs" and rng.random() < 0.5:
            case["constrained"] = True          # inequality constraint on the kinship norm
        if fam == "fam":
            case["taxa_grp"] = [rng.randint(1, 3) for _ in range(ntaxa)]
        if fam in ("ebv", "gebv", "ohv", "wgs") and rng.random() < 0.12:
            case["no_taxa"] = True
        if fam in ("ebv", "gebv", "random", "ocs", "meh", "mgr", "gwgebv", "wgs", "fam", "ohv", "uc") and rng.random() < 0.3:
            case["gmat_unphased"] = True
        if rng.random() < 0.3:
            case["gen"] = "generator"
        if rng.random() < 0.15:
            case["no_misc"] = True          # select(..., miscout=None)
        if algo == "sorting":
            if enc == "subset" and fam != "random" and ncross * nparent > ntaxa:
                case["ncross"] = ncross = 1
                case["nparent"] = nparent = min(nparent, ntaxa)
                if isinstance(case["nmating"], list):
                    case["nmating"] = 1
                if isinstance(case["nprogeny"], list):
                    case["nprogeny"] = 1
            if enc == "mate_subset":
                nopt = len(self._candidates(case))
                if ncross > nopt:
                    case["ncross"] = ncross = nopt
                    if isinstance(case["nmating"], list):
                        case["nmating"] = 1
                    if isinstance(case["nprogeny"], list):
                        case["nprogeny"] = 1
            case["nobj"] = 1
            case["reuse"] = rng.random() < 0.4      # the permuted population goes through the SAME protocol object
            case["perm"] = rng.sample(range(ntaxa), ntaxa) if rng.random() < 0.8 else list(range(ntaxa))[::-1]
            case["names2"] = ["m%02d" % v for v in rng.sample(range(100), ntaxa)]
            if case["reuse"] and rng.random() < 0.6:
                n2 = ntaxa
                if rng.random() < 0.6 and ntaxa - 1 >= max(2, case["nparent"]):
                    # the second population is a SUB-population (one candidate fewer, reordered): whatever the protocol
                    # object remembers about the first population (cross map, sizes) no longer fits
                    n2 = ntaxa - 1
                    case["perm"] = rng.sample(range(ntaxa), n2)
                    case["names2"] = case["names2"][:n2]
                if enc == "mate_subset":
                    hi = min(4, len(self._candidates(dict(case, ntaxa=n2))))
                elif fam == "random":
                    hi = 4
                else:
                    hi = max(1, n2 // case["nparent"])
                self._gen_b_over(rng, case, hi)
                if n2 != ntaxa:
                    case["b_over"]["ntaxa"] = n2
            if vf in ("three", "four") and rng.random() < 0.5:
                case["perm"] = sorted(case["perm"])     # order-preserving relabelling (see `asym` in the judge)
        else:
            # scripted solution set
            nobj = rng.choice([1, 1, 2, 2, 3])
            if fam == "ocs":
                nobj = 2 if rng.random() < 0.7 else 1
            if fam == "mogs":
                nobj = 2
            case["nobj"] = nobj
            nsoln = 1 if nobj == 1 else rng.randint(1, 5)
            if enc.startswith("mate_"):
                nopt = len(list(_mods()["array"].xmapix(ntaxa, nparent, case["unique"])))
                ksub = ncross
            else:
                nopt = ntaxa
                ksub = ncross * nparent if fam not in ("random", "fam", "l2", "gb", "opv") else nparent
            solns = []
            tries = 0
            while len(solns) < nsoln and tries < 50:
                tries += 1
                if b == "subset":
                    if ksub > nopt:
                        break
                    d = rng.sample(range(nopt), ksub)
                elif b == "binary":
                    d = [1 if rng.random() < 0.5 else 0 for _ in range(nopt)]
                    if not any(d):
                        d[rng.randrange(nopt)] = 1
                elif b == "integer":
                    d = [rng.choice([0, 1, 1, 2]) for _ in range(nopt)]
                    if not any(d):
                        d[rng.randrange(nopt)] = 1
                else:
                    d = [rng.choice([0, 1, 2, 3]) for _ in range(nopt)]
                    if not any(d):
                        d[rng.randrange(nopt)] = 1
                    d = [canon.enc(Fraction(v, case.setdefault("real_den", rng.choice([4, 4, 8, 1024, 2 ** 42])))) for v in d]
                if d not in solns:
                    solns.append(d)
            if not solns:
                case["ncross"], case["nparent"] = 1, 1
                case["nmating"] = 1
                case["nprogeny"] = 1
                solns = [[rng.randrange(nopt)]] if b == "subset" else solns
            case["soln_decn"] = solns
            if rng.random() < 0.3:      # a second select() on the same protocol object with another population
                case["reuse"] = True
                case["perm"] = rng.sample(range(ntaxa), ntaxa)
                case["names2"] = ["m%02d" % v for v in rng.sample(range(100), ntaxa)]
                if rng.random() < 0.6:
                    # (subset encodings: the scripted solutions have the length the first design asks for, so only the
                    #  mating / progeny numbers change there; vector encodings: the number of crosses as well)
                    self._gen_b_over(rng, case, 4 if b != "subset" else 0)
                    n2 = ntaxa - 1
                    nopt2 = (len(list(_mods()["array"].xmapix(n2, nparent, case["unique"]))) if enc.startswith("mate_")
                             else n2)
                    if rng.random() < 0.6 and n2 >= max(2, nparent) and (b != "subset" or ksub <= nopt2) and case.get("soln_decn"):
                        # the second population is a SUB-population: the optimiser's script for it is drawn afresh
                        case["perm"] = rng.sample(range(ntaxa), n2)
                        case["names2"] = case["names2"][:n2]
                        sol2 = []
                        for _ in case["soln_decn"]:
                            if b == "subset":
                                d = rng.sample(range(nopt2), ksub)
                            elif b == "binary":
                                d = [1 if rng.random() < 0.5 else 0 for _ in range(nopt2)]
                                d[rng.randrange(nopt2)] = 1
                            else:
                                d = [rng.choice([0, 1, 1, 2]) for _ in range(nopt2)]
                                d[rng.randrange(nopt2)] = 1
                                if b == "real":
                                    d = [canon.enc(Fraction(v, case["real_den"])) for v in d]
                            sol2.append(d)
                        case["b_over"].update(ntaxa=n2, soln_decn=sol2)
            style = rng.random()
            objs = [[rng.randint(0, 4) for _ in range(nobj)] for _ in solns]
            if style < 0.2 and nobj > 1:        # a constant objective
                for o in objs:
                    o[0] = objs[0][0]
            elif style < 0.4 and len(objs) > 1:  # duplicated point
                objs[-1] = list(objs[0])
            elif style < 0.6 and len(objs) > 1:
                # magnitudes: front points that differ by 2^-20 / 2^-27 (inside any 1e-5 / 1e-8 tolerance), or by 1/2 on
                # a common offset of 10^9 / 25000 — all exactly representable, so the preferred point is well defined
                step, off = rng.choice([(Fraction(1, 2 ** 20), 0), (Fraction(1, 2 ** 27), 0), (Fraction(1, 2), 10 ** 9),
                                        (Fraction(1, 4), 25000)])
                ranks = list(range(len(objs)))
                rng.shuffle(ranks)
                objs = [[canon.enc(off + objs[0][j] + (step * r if j == 0 else 0)) for j in range(nobj)] for r in ranks]
            case["soln_obj"] = objs
            if nobj > 1:     # objectives to be increased / decreased, non-unit weights
                case["obj_wt_vec"] = [rng.choice([1, -1, -1, 2, "1/2", -3]) for _ in range(nobj)]
            if not case.get("constrained") and rng.random() < 0.4:
                # constrained problem: the optimiser's solution set mixes points with and without constraint violation
                ni, ne = rng.choice([(1, 0), (1, 0), (0, 1), (2, 1), (1, 1)])
                case["ncv"] = [ni, ne]
                style = rng.random()
                q = len(solns)
                if style < 0.45:        # violating points first, clean points last
                    nbad = rng.randint(1, max(1, q - 1)) if q > 1 else rng.randint(0, 1)
                    flags = [True] * nbad + [False] * (q - nbad)
                elif style < 0.85:
                    flags = [rng.random() < 0.5 for _ in range(q)]
                else:
                    flags = [True] * q
                case["soln_cv"] = [[(rng.choice([1, 2, "1/2"]) if (f and rng.random() < 0.8) else 0) for _ in range(ni + ne)]
                                   for f in flags]
                for row, f in zip(case["soln_cv"], flags):
                    if f and not any(Fraction(v) for v in row):
                        row[rng.randrange(ni + ne)] = 1
                case["soln_cv"] = [[canon.enc(Fraction(v)) for v in row] for row in case["soln_cv"]]
            case["ndset_wt"] = rng.choice([1, 1, -1, 2, "-1/2"])
            case["ndset_trans"] = rng.choice(["default", "default", "sum", "first", "negmax"])
            if case["ndset_trans"] == "default" and rng.random() < 0.5:
                case["ndset_kwargs"] = {"obj_wt": [rng.choice([1, 1, 2, 3]) for _ in range(nobj)],
                                        "vec_wt": [rng.choice([1, -1]) for _ in range(nobj)]}
        return case

    @staticmethod
    def _gen_b_over(rng, case, hi):
        """design attributes re-assigned on the live protocol object before its second select(): another number of
        crosses (with matching per-cross arrays) or other mating / progeny numbers"""
        nc2 = rng.randint(1, max(1, hi))
        if hi == 0:
            nc2 = case["ncross"]
        elif rng.random() < 0.3:
            nc2 = min(case["ncross"], hi)
        case["b_over"] = {"ncross": nc2,
                          "nmating": rng.choice([1, 3, [rng.randint(1, 4) for _ in range(nc2)]]),
                          "nprogeny": rng.choice([2, 6, [rng.randint(1, 9) for _ in range(nc2)]])}

    def _gen_history(self, rng):
        """one configuration object: constructed, sampled again and again, its decision re-assigned in between;
        the decisions are rows of one 2-D array (C / Fortran / strided) of a chosen integer / bool dtype"""
        enc = rng.choice(ENC_IND * 2 + ENC_MATE)
        mate = enc.startswith("mate_")
        b = _base_enc(enc)
        ntaxa = rng.randint(2, 6)
        nparent = rng.choice([1, 2, 2, 3])
        ncross = rng.randint(1, 6) if mate else rng.randint(1, 3)
        case = {"kind": "history", "enc": enc, "ntaxa": ntaxa, "ncross": ncross, "nparent": nparent,
                "seed": rng.randrange(2 ** 31)}
        if mate:
            case["unique"] = rng.random() < 0.5 and nparent <= ntaxa
            nopt = len(list(_mods()["array"].xmapix(ntaxa, nparent, case["unique"])))
            nslot = ncross
            if rng.random() < 0.3:
                case["xmap_order"] = "F"
        else:
            nopt, nslot = ntaxa, ncross * nparent
        q = rng.randint(2, 3)
        decns = []
        if b == "subset":
            k = max(1, min(nopt, rng.choice([1, 2, 3, nslot, nslot + 1])))
            for _ in range(q):
                decns.append(rng.sample(range(nopt), k))
            case["dtype"] = rng.choice(["int64", "int64", "int32", "int16", "uint8"])
        elif b == "binary":
            for _ in range(q):
                d = [1 if rng.random() < 0.5 else 0 for _ in range(nopt)]
                if not any(d):
                    d[rng.randrange(nopt)] = 1
                decns.append(d)
            case["dtype"] = rng.choice(["int64", "bool", "bool", "int8", "uint8", "int32"])
        elif b == "integer":
            for _ in range(q):      # sums that divide the number of slots (no remainder draw: D20 stays out of this stream)
                d = [0] * nopt
                for _ in range(rng.choice([x for x in range(1, nslot + 1) if nslot % x == 0])):
                    d[rng.randrange(nopt)] += 1
                decns.append(d)
            case["dtype"] = rng.choice(["int64", "int32", "int8", "uint8", "uint16"])
        else:
            den = rng.choice([1, 2, 4, 8])
            for _ in range(q):
                d = [rng.choice([0, 0, 1, 1, 2, 3, 4, 6]) for _ in range(nopt)]
                if not any(d):
                    d[rng.randrange(nopt)] = 2
                decns.append([canon.enc(Fraction(v, den)) for v in d])
        case["decns"] = decns
        case["layout"] = rng.choice([None, "F", "strided"])
        steps = []
        for _ in range(rng.randint(2, 5)):
            steps.append(rng.choice(["sample", "sample", "sample_nr", "read", "set%d" % rng.randrange(q),
                                     "edit%d" % rng.randrange(q), "editsol%d" % rng.randrange(q)]))
        steps += ["set%d" % rng.randrange(1, q), "sample"]       # always: a re-assigned decision, then a fresh sample
        if rng.random() < 0.5:
            steps += ["set0", rng.choice(["sample", "sample_nr"])]
        if rng.random() < 0.6:
            # the decision vector REVISED IN PLACE (through the configuration's own view / through the solution
            # array it is a view of) after the object has been sampled, then sampled again
            steps += [rng.choice(["edit%d", "editsol%d"]) % rng.randrange(q), rng.choice(["sample", "sample_nr"])]
            if rng.random() < 0.4:
                steps += ["sample"]
        case["steps"] = steps
        if rng.random() < 0.3:
            case["gen"] = "generator"
        if not mate and rng.random() < 0.3:
            case["nmating"] = [rng.randint(1, 4) for _ in range(ncross)]
        if rng.random() < 0.15:
            case["rng_none"] = True
        return case

    def _problem_table(self):
        """every concrete protocol class: (family, encoding as the configuration sees it)"""
        out = []
        for (fam, e) in sorted(_mods()["fam"]):
            out.append((fam, ("mate_" + e) if fam in ("ohv", "uc", "embv") else e))
        return out

    def _gen_problem(self, rng, key=None):
        fam, enc = key if key is not None else rng.choice(self._problem_table())
        nparent = 2 if fam in ("uc", "embv") else rng.choice([1, 2, 2, 3])
        ncross = rng.randint(1, 3)
        ntaxa = rng.randint(max(3, ncross * nparent), max(4, ncross * nparent) + 3)
        if enc.startswith("mate_") and nparent == 3:
            ntaxa = min(ntaxa, 6)
        nvrnt = rng.choice([4, 6])
        nobj = 2 if fam in ("mogs", "ocs") and rng.random() < 0.6 else 1
        if fam == "mogs":
            nobj = 2
        case = {"kind": "problem", "family": fam, "enc": enc, "algo": "stub", "ntaxa": ntaxa, "ncross": ncross,
                "nparent": nparent, "seed": rng.randrange(2 ** 31),
                # per-cross arrays with UNEQUAL entries, scalars, and the constant array
                "nmating": rng.choice([1, 3, [rng.randint(1, 4) for _ in range(ncross)], [2] * ncross]),
                "nprogeny": rng.choice([1, 7, [rng.randint(1, 9) for _ in range(ncross)]]),
                "geno": [[[rng.randint(0, 1) for _ in range(nvrnt)] for _ in range(ntaxa)] for _ in range(2)],
                "names": ["n%02d" % v for v in rng.sample(range(100), ntaxa)],
                "u_a": [[rng.choice([-4, -2, -1, 1, 2, 3, 5, 8])] for _ in range(nvrnt)],
                "bv": rng.sample(range(-20, 40), ntaxa), "unscale": rng.random() < 0.5, "obj_wt": rng.choice([1, -1]),
                "nobj": nobj}
        if nobj > 1:
            case["obj_wt_vec"] = [rng.choice([1, -1, 2]) for _ in range(nobj)]
        if fam in ("ohv", "uc", "embv"):
            case["unique"] = rng.random() < 0.5
        if fam == "fam":
            case["taxa_grp"] = [rng.randint(1, 3) for _ in range(ntaxa)]
        if rng.random() < 0.3:
            case["ncv"] = list(rng.choice([(1, 0), (0, 1), (2, 1)]))
        return case

    def generate(self, rng, n, tier):
        self._tier = tier
        out = []
        for n_k in ((2, 1, True), (3, 2, True), (3, 2, False), (4, 3, True), (5, 2, False), (6, 3, True), (4, 1, False),
                    (4, 3, False), (3, 4, False), (5, 4, True)):
            out.append({"kind": "xmapix", "ntaxa": n_k[0], "nparent": n_k[1], "unique": n_k[2]})
        # table-driven: the decision space of EVERY protocol class, once per run
        for key in self._problem_table():
            pc = self._gen_problem(rng, key)
            out.append(pc)
            if "unique" in pc:          # mate-selection families: the other value of unique_parents as well
                out.append(dict(self._gen_problem(rng, key), unique=not pc["unique"]))
        while len(out) < n:
            r = rng.random()
            if r < 0.50:
                out.append(self._gen_cfg(rng))
            elif r < 0.84:
                out.append(self._gen_select(rng))
            elif r < 0.93:
                out.append(self._gen_history(rng))
            elif r < 0.97:
                out.append(self._gen_problem(rng))
            else:
                out.append({"kind": "xmapix", "ntaxa": rng.randint(1, 6), "nparent": rng.randint(1, 4),
                            "unique": rng.random() < 0.5})
        return out

    def exhaustive(self, tier):
        """thorough tier: every decision over 3 candidates in every encoding on the shapes 1x2, 2x1, 2x2, 3x2
        (three generator seeds each), and every cross map with n <= 5, k <= 3"""
        if tier != "thorough":
            return None
        import itertools
        out = []
        shapes = [(1, 2), (2, 1), (2, 2), (3, 2)]
        for nc, npar in shapes:
            for seed in (0, 1, 2):
                for k in (1, 2, 3):
                    for d in itertools.permutations(range(3), k):
                        out.append({"kind": "cfg", "enc": "subset", "ntaxa": 3, "ncross": nc, "nparent": npar,
                                    "decn": list(d), "seed": seed})
                for d in itertools.product(range(3), repeat=3):
                    if any(d):
                        out.append({"kind": "cfg", "enc": "integer", "ntaxa": 3, "ncross": nc, "nparent": npar,
                                    "decn": list(d), "seed": seed})
                        out.append({"kind": "cfg", "enc": "real", "ntaxa": 3, "ncross": nc, "nparent": npar,
                                    "decn": [canon.enc(Fraction(v, 2)) for v in d], "seed": seed})
                        if max(d) <= 1:
                            out.append({"kind": "cfg", "enc": "binary", "ntaxa": 3, "ncross": nc, "nparent": npar,
                                        "decn": list(d), "seed": seed})
        for n in range(1, 6):
            for k in range(1, 4):
                for u in (True, False):
                    out.append({"kind": "xmapix", "ntaxa": n, "nparent": k, "unique": u})
        return out

    # ------------------------------------------------------------------ implementation
    def _xmap(self, case):
        M = _mods()
        return [list(map(int, r)) for r in M["array"].xmapix(case["ntaxa"], case["nparent"], bool(case["unique"]))]

    def _run_cfg(self, case):
        M = _mods()
        enc = case["enc"]
        cls = M["cfgcls"][enc]
        rng = _mkrng(case, case["seed"], case.get("script"))
        pg = _pgmat(case["ntaxa"])
        decn = _decn_array(enc, case["decn"])
        snapshot = decn.copy()
        kw = dict(ncross=case["ncross"], nparent=case["nparent"], nmating=1, nprogeny=1, pgmat=pg,
                  xconfig_decn=decn, rng=rng)
        obs = {}
        if enc.startswith("mate_"):
            xmap = self._xmap(case)
            kw["xconfig_xmap"] = numpy.array(xmap, dtype=int).reshape(len(xmap), case["nparent"])
            obs["xmap"] = xmap
        if case.get("expect_error"):
            try:
                cls(**kw)
                obs["error"] = None
            except Exception as e:  # input meant to be rejected
                obs["error"] = canon.exc_tag(e)
            obs["log"] = rng.log
            return obs
        cfg = cls(**kw)
        obs["xconfig"] = [[int(v) for v in r] for r in cfg.xconfig]
        obs["log"] = rng.log
        obs["decn_untouched"] = bool(numpy.array_equal(snapshot, cfg.xconfig_decn))
        obs["design_ok"] = bool(cfg.ncross == case["ncross"] and cfg.nparent == case["nparent"] and _same_pop(cfg.pgmat, pg))
        return obs

    # -- select ------------------------------------------------------------------------------
    def _world(self, case, perm=None, names=None):
        M = _mods()
        n = case["ntaxa"]
        idx = list(range(n)) if perm is None else list(perm)
        geno = [[case["geno"][ph][i] for i in idx] for ph in range(2)]
        nm = [case["names"][i] for i in idx] if names is None else list(names)
        pg = _pgmat(n, geno, nm)
        if case.get("no_taxa"):     # optional label arrays absent
            pg.taxa = None
        grp = None
        if case.get("taxa_grp"):
            grp = numpy.array([case["taxa_grp"][i] for i in idx])
            pg.taxa_grp = grp
        if case["family"] == "embv":
            pg.vrnt_xoprob = numpy.array([0.5 if j in (0, pg.nvrnt // 2) else 0.125 for j in range(pg.nvrnt)])
        nobj = case.get("nobj", 1)
        ntrait = nobj if case["family"] in ("ebv", "gebv", "random", "ohv", "uc", "gwgebv", "wgs", "fam", "embv") else 1
        if case.get("ntrait"):
            ntrait = int(case["ntrait"])
        bv = numpy.array([[float(case["bv"][i]) + 3.0 * t * ((i * 7) % 5) for t in range(ntrait)] for i in idx])
        loc = numpy.array([2.0] * ntrait)
        scl = numpy.array([4.0] * ntrait)
        bvmat = M["bvmat"]((bv - loc) / scl, location=loc, scale=scl,
                           taxa=None if case.get("no_taxa") else numpy.array(nm, dtype=object), taxa_grp=grp,
                           trait=numpy.array(["y%d" % t for t in range(ntrait)], dtype=object))
        u_a = numpy.array([[float(r[0]) * (1 + t) + t * (j % 3) for t in range(ntrait)] for j, r in enumerate(case["u_a"])])
        gp = M["gpmod"](beta=numpy.array([[1.0] * ntrait]), u_misc=None, u_a=u_a,
                        trait=numpy.array(["y%d" % t for t in range(ntrait)], dtype=object))
        return pg, bvmat, gp, ntrait

    @staticmethod
    def _gmat_of(case, pg):
        """the `gmat` argument: the genomes themselves, or (option `gmat_unphased`) a separate UNPHASED genotype
        matrix of the same individuals — an object that cannot stand in for `pgmat` in the configuration"""
        if not case.get("gmat_unphased"):
            return pg
        M = _mods()
        if "gmatcls" not in M:
            import importlib
            M["gmatcls"] = importlib.import_module("pybrops.popgen.gmat.DenseGenotypeMatrix").DenseGenotypeMatrix
        gm = M["gmatcls"](mat=pg.mat.sum(0).astype("int8"), taxa=pg.taxa, taxa_grp=pg.taxa_grp, vrnt_chrgrp=pg.vrnt_chrgrp,
                          vrnt_phypos=pg.vrnt_phypos, vrnt_genpos=pg.vrnt_genpos, ploidy=2)
        gm.group_vrnt()
        return gm

    def _protocol(self, case, ntrait, soalgo, moalgo, rng, ndset):
        M = _mods()
        fam, enc = case["family"], case["enc"]
        cls = M["fam"][(fam, _base_enc(enc))]
        nobj = case.get("nobj", 1)
        kw = dict(ncross=case["ncross"], nparent=case["nparent"],
                  nmating=case["nmating"] if not isinstance(case["nmating"], list) else numpy.array(case["nmating"]),
                  nprogeny=case["nprogeny"] if not isinstance(case["nprogeny"], list) else numpy.array(case["nprogeny"]),
                  nobj=nobj, obj_wt=float(case.get("obj_wt", 1)) if nobj == 1 else
                  (numpy.array([float(Fraction(v)) for v in case["obj_wt_vec"]]) if case.get("obj_wt_vec") else None),
                  rng=rng, soalgo=soalgo, moalgo=moalgo, **ndset)
        if fam in ("ebv", "gebv"):
            kw.update(ntrait=ntrait, unscale=bool(case["unscale"]))
        elif fam == "random":
            kw.update(ntrait=ntrait)
        elif fam == "ocs":
            kw.update(ntrait=1, unscale=bool(case["unscale"]), cmatfcty=M["cmatfcty"]())
            if nobj == 1:
                kw["obj_trans"] = lambda decnvec, latentvec, **k: latentvec[:1] + latentvec[1:2]
            if case.get("constrained"):
                kw.update(nineqcv=1, ineqcv_wt=1.0,
                          ineqcv_trans=lambda decnvec, latentvec, **k: numpy.maximum(latentvec[:1] - 0.75, 0.0))
        elif fam == "ohv":
            kw.update(ntrait=ntrait, nhaploblk=2, unique_parents=bool(case["unique"]))
        elif fam == "uc":
            kw.update(ntrait=ntrait, nself=int(case.get("nself", 0)),
                      upper_percentile=float(Fraction(case.get("upper_percentile", "1/10"))),
                      vmatfcty=M["vfcty"][case.get("vfcty", "two")](), gmapfn=M["haldane"](),
                      unique_parents=bool(case.get("unique", True)))
        elif fam in ("meh",):
            pass
        elif fam in ("mgr", "l2"):
            kw.update(cmatfcty=M["cmatfcty"]())
        elif fam == "gwgebv":
            kw.update(ntrait=ntrait, alpha=0.5)
        elif fam in ("wgs", "fam"):
            kw.update(ntrait=ntrait)
        elif fam == "embv":
            kw.update(ntrait=ntrait, nrep=2, mateprot=M["dhcross"](rng=numpy.random.RandomState(case["seed"] % 1000)),
                      unique_parents=bool(case.get("unique", True)))
        elif fam in ("gb",):
            kw.update(ntrait=ntrait, nhaploblk=2, nbestfndr=1)
        elif fam in ("opv",):
            kw.update(ntrait=ntrait, nhaploblk=2)
        elif fam in ("mogs", "pafd", "pau"):
            kw.update(ntrait=ntrait, weight=M["weightfn"].weight_absolute, target=M["targetfn"].target_positive)
        ncv = case.get("ncv")
        if ncv:         # constrained problems (a rarely used option): one violation function per constraint
            ni, ne = int(ncv[0]), int(ncv[1])
            if ni:
                kw.update(nineqcv=ni, ineqcv_wt=numpy.ones(ni),
                          ineqcv_trans=lambda decnvec, latentvec, **k: numpy.zeros(ni))
            if ne:
                kw.update(neqcv=ne, eqcv_wt=numpy.ones(ne),
                          eqcv_trans=lambda decnvec, latentvec, **k: numpy.zeros(ne))
        return cls(**kw)

    def _stub_algo(self, case, store):
        M = _mods()
        b = _base_enc(case["enc"])
        base, Soln = M["algobase"][b], M["solncls"][b]
        objs = numpy.array([[float(Fraction(v)) for v in r] for r in case["soln_obj"]], dtype=float)

        class Stub(base):
            def __init__(self):
                pass

            def minimize(self, prob, miscout=None, **kwargs):
                store["prob"] = prob
                script = store.get("ce", case)["soln_decn"]     # (the second population of a re-used protocol has its own)
                decns = numpy.array([[float(Fraction(v)) for v in d] for d in script]) if b == "real" else \
                    numpy.array(script, dtype=int)
                q = len(decns)
                cv = numpy.array([[float(Fraction(v)) for v in r] for r in case["soln_cv"]],
                                 dtype=float).reshape(q, prob.nineqcv + prob.neqcv) if case.get("soln_cv") \
                    else numpy.zeros((q, prob.nineqcv + prob.neqcv))
                store["soln"] = Soln(ndecn=prob.ndecn, decn_space=prob.decn_space, decn_space_lower=prob.decn_space_lower,
                            decn_space_upper=prob.decn_space_upper, nobj=prob.nobj, obj_wt=prob.obj_wt,
                            nineqcv=prob.nineqcv, ineqcv_wt=prob.ineqcv_wt, neqcv=prob.neqcv, eqcv_wt=prob.eqcv_wt,
                            nsoln=q, soln_decn=decns.copy(), soln_obj=objs.copy(),
                            soln_ineqcv=cv[:, :prob.nineqcv].copy(), soln_eqcv=cv[:, prob.nineqcv:].copy())
                return store["soln"]
        return Stub()

    @staticmethod
    def _candidates(case):
        """every admissible candidate of the passed population, enumerated independently of pybrops: individuals
        0..n-1, resp. the ascending parent tuples (strictly ascending when parents must be unique)"""
        import itertools
        n = case["ntaxa"]
        if not case["enc"].startswith("mate_"):
            return [[i] for i in range(n)]
        f = itertools.combinations if case.get("unique", True) else itertools.combinations_with_replacement
        return [list(t) for t in f(range(n), case["nparent"])]

    def _recording_sorting(self, store, case):
        M = _mods()
        Sorting = M["sorting"]
        candidates = self._candidates

        class RecSorting(Sorting):
            def minimize(self, prob, miscout=None, **kwargs):
                ce = store.get("ce", case)
                cands = candidates(ce)
                store["prob"] = prob
                store["single_obj"] = [float(prob.evalfn(numpy.array([e]))[0][0]) for e in prob.decn_space]
                store["space"] = [int(e) for e in prob.decn_space]
                # the criterion of EVERY candidate, whether or not the problem offers it to the optimiser
                xm = getattr(prob, "decn_space_xmap", None)
                if xm is None:
                    loc = {(i,): i for i in range(ce["ntaxa"])}
                else:
                    loc = {}
                    for i, r in enumerate(numpy.asarray(xm).tolist()):
                        loc.setdefault(tuple(sorted(int(v) for v in r)), i)
                full = []
                for t in cands:
                    i = loc.get(tuple(t))
                    try:
                        full.append(None if i is None else float(prob.evalfn(numpy.array([i]))[0][0]))
                    except Exception:
                        full.append(None)
                store["full_obj"] = full
                return super().minimize(prob, miscout=miscout, **kwargs)
        return RecSorting()

    def _ndset(self, case):
        t = case.get("ndset_trans", "default")
        d = {"ndset_wt": float(Fraction(case.get("ndset_wt", 1)))}
        if t == "sum":
            d["ndset_trans"] = lambda mat, **kw: mat.sum(1)
            d["ndset_trans_kwargs"] = {}
        elif t == "first":
            d["ndset_trans"] = lambda mat, **kw: mat[:, 0].copy()
            d["ndset_trans_kwargs"] = {}
        elif t == "negmax":
            d["ndset_trans"] = lambda mat, **kw: -mat.max(1)
            d["ndset_trans_kwargs"] = {}
        elif case.get("ndset_kwargs"):
            d["ndset_trans_kwargs"] = {k: numpy.array(v, dtype=float) for k, v in case["ndset_kwargs"].items()}
        return d

    @staticmethod
    def _eff(case, key):
        """the design parameters in force for the second select() of a re-used protocol object"""
        return dict(case, **case["b_over"]) if (key == "b" and case.get("b_over")) else case

    def _one_select(self, case, perm=None, names=None, keep=None, over=None):
        M = _mods()
        ce = dict(case, **over) if over else case
        pg, bvmat, gp, ntrait = self._world(case, perm, names)
        stray = RecRNG(case["seed"] + 1)            # stands in for the module-level global generator
        if keep is not None and keep.get("prot") is not None:
            # ONE protocol object used for a second select() on another population
            prot, rng, store = keep["prot"], keep["rng"], keep["store"]
            store.clear()
            store["ce"] = ce
            if over:        # design attributes RE-ASSIGNED on the live protocol object between two select() calls
                def arr(v):
                    return numpy.array(v) if isinstance(v, list) else v
                if "ncross" in over:
                    prot.ncross = int(over["ncross"])
                if "nmating" in over:
                    prot.nmating = arr(over["nmating"])
                if "nprogeny" in over:
                    prot.nprogeny = arr(over["nprogeny"])
        else:
            store = {}
            rng = _mkrng(case, case["seed"])            # the protocol's own generator (RandomState or Generator)
            if case["algo"] == "sorting":
                so, mo = self._recording_sorting(store, case), None
            else:
                st = self._stub_algo(case, store)
                so, mo = st, st
            prot = self._protocol(case, ntrait, so, mo, rng, self._ndset(case))
            if keep is not None:
                keep.update(prot=prot, rng=rng, store=store)
        mark = len(rng.log)
        misc = None if case.get("no_misc") else {}     # miscout is optional: None = nothing is handed out
        # since fix 166b95e8 select() hands the protocol's generator to the configuration; any draw that
        # still reaches the module-level global generator (the pre-repair rng=None path) lands on `stray`
        with _patch(M["mixin"], "global_prng", stray):
            cfg = prot.select(pgmat=pg, gmat=self._gmat_of(case, pg), ptdf=None, bvmat=bvmat, gpmod=gp, t_cur=0, t_max=1,
                              miscout=misc)
        log = [e for e in rng.log[mark:]]
        enc = case["enc"]
        b = _base_enc(enc)
        decn = cfg.xconfig_decn
        r = {"xconfig": [[int(v) for v in row] for row in cfg.xconfig],
             "decn": [canon.enc(float(v)) for v in decn] if b == "real" else [int(v) for v in decn],
             "log": log,
             "names": [str(pg.taxa[i]) for i in range(pg.ntaxa)] if pg.taxa is not None else
             (list(case["names2"]) if perm is not None else list(case["names"])),
             "nmating": [int(v) for v in cfg.nmating], "nprogeny": [int(v) for v in cfg.nprogeny],
             "design_ok": bool(cfg.ncross == ce["ncross"] and cfg.nparent == ce["nparent"] and _same_pop(cfg.pgmat, pg)),
             "has_soln": misc is None or ("sosoln" in misc) or ("mosoln" in misc),
             "own_generator": bool(cfg.rng is rng), "stray_draws": len(stray.log)}
        if case["family"] in ("uc", "embv") and enc == "mate_integer" and "prob" in store:
            r["uc_upper"] = [int(v) for v in store["prob"].decn_space_upper]
            r["uc_lower"] = [int(v) for v in store["prob"].decn_space_lower]
            r["uc_int"] = bool(store["prob"].decn_space_upper.dtype.kind in "iu" and
                               store["prob"].decn_space_lower.dtype.kind in "iu")
        if enc.startswith("mate_"):
            r["xmap"] = [[int(v) for v in row] for row in cfg.xconfig_xmap]
        if case["family"] == "uc" and case["algo"] == "sorting":
            # the public pieces the usefulness criterion of a candidate cross is made of, obtained independently of the
            # selection problem: the variance matrix of the cross type (its entries and its declared expected parental
            # genome contributions); the breeding values are recomputed exactly from the raw inputs by the judge
            vobj = M["vfcty"][case.get("vfcty", "two")]().from_gmod(
                gmod=gp, pgmat=pg, ncross=1, nprogeny=1, nself=int(case.get("nself", 0)), gmapfn=M["haldane"]())
            r["uc_epgc"] = [canon.enc(float(v)) for v in vobj.epgc]
            r["uc_pvar"] = [canon.enc(float(vobj.mat[tuple(c) + (0,)])) for c in self._candidates(ce)]
        if "single_obj" in store:
            r["single_obj"] = [canon.enc(v) for v in store["single_obj"]]
            r["space"] = store["space"]
            r["full_obj"] = [None if v is None else canon.enc(v) for v in store["full_obj"]]
        # two-object aliasing: the configuration's decision is (a view of) a row of the solution object handed
        # out through miscout; sampling must leave the solution as the optimiser returned it
        misc = misc or {}
        soln0 = misc.get("sosoln", misc.get("mosoln"))
        if soln0 is None and case["algo"] == "stub" and store.get("soln") is not None:
            soln0 = store["soln"]           # (miscout=None: the solution object as the stub built it)
        if soln0 is not None and case["algo"] == "stub":
            want = numpy.array([[float(Fraction(v)) for v in d] for d in ce["soln_decn"]], dtype=float)
            r["soln_untouched"] = bool(numpy.array_equal(numpy.asarray(soln0.soln_decn, dtype=float), want))
            before = numpy.array(cfg.xconfig_decn, copy=True)
            again = cfg.sample_xconfig(return_xconfig=True)     # a second configuration from the same object
            r["again"] = [[int(v) for v in row] for row in again]
            r["again_log"] = [e for e in rng.log[mark + len(log):]]
            r["again_untouched"] = bool(numpy.array_equal(before, cfg.xconfig_decn)
                                        and numpy.array_equal(numpy.asarray(soln0.soln_decn, dtype=float), want))
        soln = misc.get("sosoln", misc.get("mosoln"))
        if soln is None and case["algo"] == "stub":
            soln = store.get("soln")
        if soln is not None and case["algo"] == "stub":
            tv = prot.ndset_trans(soln.soln_obj, **prot.ndset_trans_kwargs) if case.get("nobj", 1) > 1 else None
            r["tvals"] = None if tv is None else [canon.enc(float(v)) for v in tv]
        return r

    def _run_select(self, case):
        keep = {} if case.get("reuse") else None
        obs = {"a": self._one_select(case, keep=keep)}
        if case["algo"] == "sorting" or case.get("reuse"):
            obs["b"] = self._one_select(case, case["perm"], case["names2"], keep=keep, over=case.get("b_over"))
        return obs

    # -- history: ONE configuration object, sampled repeatedly, its decision re-assigned in between --------
    @staticmethod
    def _decn_matrix(enc, decns, dtype, layout):
        """the decisions as rows of one 2-D array (what a Solution object holds); `layout` decides the memory
        order, so a row is a contiguous or a strided view"""
        b = _base_enc(enc)
        if b == "real":
            mat = numpy.array([[float(Fraction(v)) for v in d] for d in decns], dtype=float)
        else:
            mat = numpy.array([[int(v) for v in d] for d in decns], dtype=(dtype or "int64"))
        if layout == "F":
            mat = numpy.asfortranarray(mat)
        elif layout == "strided":
            big = numpy.zeros((mat.shape[0], 2 * mat.shape[1] + 1), dtype=mat.dtype)
            big[:, 1::2] = mat
            mat = big[:, 1::2]
        return mat

    def _run_history(self, case):
        M = _mods()
        enc = case["enc"]
        cls = M["cfgcls"][enc]
        rng = _mkrng(case, case["seed"], case.get("script"))
        pg = _pgmat(case["ntaxa"])
        mat = self._decn_matrix(enc, case["decns"], case.get("dtype"), case.get("layout"))
        snap = mat.copy()
        nm = case.get("nmating", 1)
        kw = dict(ncross=case["ncross"], nparent=case["nparent"],
                  nmating=numpy.array(nm) if isinstance(nm, list) else nm, nprogeny=1, pgmat=pg,
                  xconfig_decn=mat[0], rng=None if case.get("rng_none") else rng)
        obs = {}
        xm = None
        if enc.startswith("mate_"):
            xmap = self._xmap(case)
            xm = numpy.array(xmap, dtype=int).reshape(len(xmap), case["nparent"])
            if case.get("xmap_order") == "F":
                xm = numpy.asfortranarray(xm)
            kw["xconfig_xmap"] = xm
            obs["xmap"] = xmap
        xm_snap = None if xm is None else xm.copy()
        cur = 0
        samples = []
        kept = []               # earlier results and copies of them: a later sample must not rewrite an earlier table
        mark = 0
        rowvals = [list(d) for d in case["decns"]]      # what every row of the solution array holds NOW
        # rng=None (the default of the optional argument) means the module-level global generator
        with _patch(M["mixin"], "global_prng", rng):
            cfg = cls(**kw)

        def own_decn():
            """the decision the configuration itself reports (what its next table has to follow), as exact values"""
            d = numpy.array(cfg.xconfig_decn, copy=True)
            return [canon.enc(float(v)) for v in d] if _base_enc(enc) == "real" else [int(v) for v in d]

        def record(tab, decn_before, returned_ok=True):
            nonlocal mark
            samples.append({"cur": cur, "decn": decn_before, "decn_is_row": decn_before == [
                                (canon.enc(float(Fraction(v))) if _base_enc(enc) == "real" else int(v)) for v in rowvals[cur]],
                            "xconfig": [[int(v) for v in r] for r in tab],
                            "log": rng.log[mark:], "returned_ok": bool(returned_ok)})
            mark = len(rng.log)
            kept.append((tab, numpy.array(tab, copy=True)))
        record(cfg.xconfig, [(canon.enc(float(Fraction(v))) if _base_enc(enc) == "real" else int(v)) for v in rowvals[0]])
        for st in case["steps"]:
            if st == "sample":
                db = own_decn()
                out = cfg.sample_xconfig(return_xconfig=True)
                record(cfg.xconfig, db, out is not None and numpy.array_equal(out, cfg.xconfig))
            elif st == "sample_nr":
                db = own_decn()
                out = cfg.sample_xconfig(return_xconfig=False)
                record(cfg.xconfig, db, out is None)
            elif st == "read":              # read-only properties between samples
                _ = (cfg.xconfig_decn, cfg.ncross, cfg.nparent, cfg.nmating, cfg.nprogeny, cfg.pgmat)
            elif st.startswith("set"):
                cur = int(st[3:])
                cfg.xconfig_decn = mat[cur]
            elif st.startswith("editsol"):          # the solution array is revised: the configuration's decision is a view of it
                src = int(st[7:])
                mat[cur, :] = self._decn_matrix(enc, [case["decns"][src]], case.get("dtype"), None)[0]
                rowvals[cur] = list(case["decns"][src])
            elif st.startswith("edit"):             # the decision vector is revised in place through the configuration
                src = int(st[4:])
                cfg.xconfig_decn[...] = self._decn_matrix(enc, [case["decns"][src]], case.get("dtype"), None)[0]
                rowvals[cur] = list(case["decns"][src])
            else:
                raise ValueError(st)
        obs["samples"] = samples
        want = self._decn_matrix(enc, rowvals, case.get("dtype"), None)
        obs["decn_untouched"] = bool(numpy.array_equal(mat, want) and numpy.array_equal(cfg.xconfig_decn, want[cur])
                                     and (xm is None or numpy.array_equal(xm, xm_snap)))
        obs["earlier_tables_intact"] = all(numpy.array_equal(a, b) for a, b in kept)
        nmv = nm if isinstance(nm, list) else [nm] * case["ncross"]
        obs["design_ok"] = bool(cfg.ncross == case["ncross"] and cfg.nparent == case["nparent"] and _same_pop(cfg.pgmat, pg)
                                and [int(v) for v in cfg.nmating] == nmv)
        return obs

    # -- problem: the decision space every protocol class hands to its optimiser ------------------------
    def _run_problem(self, case):
        pg, bvmat, gp, ntrait = self._world(case)
        prot = self._protocol(case, ntrait, None, None, numpy.random.RandomState(case["seed"] % 1000), {})
        prob = prot.problem(pgmat=pg, gmat=self._gmat_of(case, pg), ptdf=None, bvmat=bvmat, gpmod=gp, t_cur=0, t_max=1)
        b = _base_enc(case["enc"])
        ds = numpy.asarray(prob.decn_space)
        lo, up = numpy.asarray(prob.decn_space_lower), numpy.asarray(prob.decn_space_upper)
        obs = {"ndecn": int(prob.ndecn), "nobj": int(prob.nobj), "nineqcv": int(prob.nineqcv), "neqcv": int(prob.neqcv),
               "space_shape": list(ds.shape), "space_kind": ds.dtype.kind, "lower_kind": lo.dtype.kind, "upper_kind": up.dtype.kind,
               "lower": [canon.enc(float(v)) for v in lo], "upper": [canon.enc(float(v)) for v in up]}
        if b == "subset":
            obs["space"] = [int(v) for v in ds]
        else:
            obs["space_rows"] = [[canon.enc(float(v)) for v in r] for r in ds]
        xm = getattr(prob, "decn_space_xmap", None)
        if xm is not None:
            obs["xmap"] = [[int(v) for v in r] for r in numpy.asarray(xm)]
        # the problem can be evaluated at a point of its own space: three vectors of the declared lengths
        if b == "subset":
            x = numpy.array([obs["space"][i % len(obs["space"])] for i in range(prob.ndecn)])
        else:
            x = up.copy()
        ev = prob.evalfn(x)
        obs["eval_lens"] = [int(numpy.asarray(v).size) for v in ev]
        return obs

    @staticmethod
    def _problem_expect(case):
        """(nopt, ndecn, integer upper bound) of the as-is code, by family"""
        fam, enc = case["family"], case["enc"]
        b = _base_enc(enc)
        n, nc, npar = case["ntaxa"], case["ncross"], case["nparent"]
        mate = enc.startswith("mate_")
        if mate:
            nopt = math.comb(n, npar) if case.get("unique", True) else math.comb(n + npar - 1, npar)
        else:
            nopt = n
        if b == "subset":
            if mate:
                ndecn = nc
            else:
                ndecn = npar if fam in ("random", "fam", "l2", "gb", "opv") else nc * npar
            return nopt, ndecn, None
        nm = case["nmating"] if isinstance(case["nmating"], list) else [case["nmating"]] * nc
        npg = case["nprogeny"] if isinstance(case["nprogeny"], list) else [case["nprogeny"]] * nc
        if b == "integer":
            ub = {"random": sum(nm), "uc": nc * npar * max(nm), "embv": nc * npar * max(nm),
                  "ohv": sum(a * b for a, b in zip(nm, npg))}.get(fam, n)
        else:
            ub = 1
        return nopt, nopt, ub

    def _problem_requests(self, case, obs):
        b = _base_enc(case["enc"])
        nopt, ndecn, ub = self._problem_expect(case)
        reqs = [{"op": "c07.space", "subset": b == "subset", "nopt": nopt, "ndecn": ndecn, "ub": ub or 1}]
        integral = all(Fraction(v).denominator == 1 and Fraction(v) >= 0 for v in canon.dec(obs["lower"]) + canon.dec(obs["upper"]))
        obs["_integral"] = integral
        if integral:
            reqs.append({"op": "c07.spec_space", "subset": b == "subset", "nopt": nopt, "ndecn": obs["ndecn"],
                         "space": obs.get("space", []), "lower": [int(Fraction(v)) for v in canon.dec(obs["lower"])],
                         "upper": [int(Fraction(v)) for v in canon.dec(obs["upper"])]})
        if case["enc"].startswith("mate_"):
            reqs.append({"op": "c07.xmapix", "ntaxa": case["ntaxa"], "nparent": case["nparent"],
                         "unique": bool(case.get("unique", True))})
            if b == "subset":
                reqs.append({"op": "c07.spec_cover", "cands": self._candidates(case), "xmap": obs.get("xmap", []),
                             "space": obs.get("space", [])})
        return reqs

    def _judge_problem(self, case, obs, answers):
        b = _base_enc(case["enc"])
        mate = case["enc"].startswith("mate_")
        nopt, ndecn, ub = self._problem_expect(case)
        m = self._ok(answers[0])
        i = 1
        lower = [Fraction(v) for v in canon.dec(obs["lower"])]
        upper = [Fraction(v) for v in canon.dec(obs["upper"])]
        if obs["_integral"]:
            spec = bool(self._ok(answers[i]))
            i += 1
        else:           # fractional bounds (not produced by the unchanged tree): the same clauses in Python
            spec = (len(lower) == obs["ndecn"] == len(upper) and all(l <= u for l, u in zip(lower, upper))
                    and b != "subset" and obs["ndecn"] == nopt and all(u > 0 for u in upper))
        # dtype the problem constructors demand, and an evaluable problem
        need_int = b in ("subset", "integer", "binary")
        kinds_ok = (not need_int) or (obs["space_kind"] in "iu" and obs["lower_kind"] in "iu" and obs["upper_kind"] in "iu")
        nobj = case.get("nobj", 1)
        ncv = case.get("ncv") or [1 if case.get("constrained") else 0, 0]
        eval_ok = len(obs["eval_lens"]) == 3 and obs["nobj"] == nobj \
            and [obs["nineqcv"], obs["neqcv"]] == [int(ncv[0]), int(ncv[1])]
        spec = spec and kinds_ok and eval_ok
        corr = (obs["ndecn"] == m["ndecn"] and lower == [Fraction(v) for v in m["lower"]]
                and upper == [Fraction(v) for v in m["upper"]])
        if b == "subset":
            corr = corr and obs.get("space") == m["space"]
        else:
            corr = corr and obs["space_shape"] == [2, nopt]
        det = (f"problem[{case['family']}/{case['enc']}] ndecn={obs['ndecn']} lower={obs['lower'][:3]}.. upper={obs['upper'][:3]}.. "
               f"model={ {k: (v[:3] if isinstance(v, list) else v) for k, v in m.items()} } space_ok={spec} dtypes_ok={kinds_ok} "
               f"evaluable={eval_ok}")
        if mate:
            lx = self._ok(answers[i])
            i += 1
            xm_ok = obs.get("xmap") == lx
            corr = corr and xm_ok
            if b == "subset":
                cover = bool(self._ok(answers[i]))
                spec = spec and cover
                det += f" covers_cross_map={cover}"
            else:
                # vector encodings: one variable per candidate cross of the population
                spec = spec and sorted(map(tuple, map(sorted, obs.get("xmap", [])))) == sorted(map(tuple, lx))
            det += f" xmap_is_model={xm_ok}"
        return {"corr": corr, "spec": spec, "nontrivial": case["ntaxa"] >= 3, "detail": det}

    def run_impl(self, case):
        k = case["kind"]
        if k == "cfg":
            return self._run_cfg(case)
        if k == "select":
            return self._run_select(case)
        if k == "history":
            return self._run_history(case)
        if k == "problem":
            return self._run_problem(case)
        if k == "xmapix":
            M = _mods()
            return {"rows": [[int(v) for v in r] for r in M["array"].xmapix(case["ntaxa"], case["nparent"], bool(case["unique"]))]}
        raise ValueError(k)

    # ------------------------------------------------------------------ model requests
    def _sample_spec_reqs(self, enc, ncross, nparent, decn, xmap, log, xconfig):
        b = _base_enc(enc)
        reqs = []
        base = {"enc": enc, "ncross": ncross, "nparent": nparent}
        if xmap is not None:
            base["xmap"] = xmap
        orc = _parse_log(enc, log, ncross, nparent)
        if orc is not None:
            r = {"op": "c07.sample", **base, **orc}
            if b != "real":
                r["decn"] = [int(v) for v in decn]
            else:
                # the sampler is inside the model: exact weights and numpy's own (unstable) descending sort order
                r["w"] = _weights(enc, decn)
                r["sigma"] = [int(v) for v in _decn_array(enc, decn).argsort()[::-1]]
            reqs.append(r)
        s = {"op": "c07.spec", **base, "xconfig": xconfig}
        if b == "subset":
            s["decn"] = [int(v) for v in decn]
        else:
            s["w"] = _weights(enc, decn)
        reqs.append(s)
        return reqs

    def requests(self, case, obs):
        k = case["kind"]
        if k == "xmapix":
            return [{"op": "c07.xmapix", "ntaxa": case["ntaxa"], "nparent": case["nparent"], "unique": bool(case["unique"])}]
        if k == "cfg":
            if case.get("expect_error"):
                enc = case["enc"]
                r = {"op": "c07.sample", "enc": enc, "ncross": case["ncross"], "nparent": case["nparent"],
                     "decn": [int(v) for v in case["decn"]], "rem": [], "perm": [], "perm2": [], "orders": [],
                     "rowperms": []}
                if enc.startswith("mate_"):
                    r["xmap"] = obs["xmap"]
                return [r]
            return self._sample_spec_reqs(case["enc"], case["ncross"], case["nparent"], case["decn"], obs.get("xmap"),
                                          obs["log"], obs["xconfig"])
        if k == "select":
            return self._select_requests(case, obs)
        if k == "history":
            reqs = []
            for smp in obs["samples"]:
                rr = self._sample_spec_reqs(case["enc"], case["ncross"], case["nparent"], smp["decn"],
                                            obs.get("xmap"), smp["log"], smp["xconfig"])
                smp["_nreq"] = len(rr)
                reqs += rr
            return reqs
        if k == "problem":
            return self._problem_requests(case, obs)
        raise ValueError(k)

    def _select_requests(self, case, obs):
        """tagged requests: obs["_tags"] lists, in order, what each driver answer is"""
        reqs, tags = [], []

        def add(tag, rr):
            for r in (rr if isinstance(rr, list) else [rr]):
                reqs.append(r)
                tags.append(tag)
        enc = case["enc"]
        mate = enc.startswith("mate_")
        for key in ("a", "b"):
            if key not in obs:
                continue
            o = obs[key]
            ce = self._eff(case, key)
            add(key + ".cfg", self._sample_spec_reqs(enc, ce["ncross"], ce["nparent"], o["decn"], o.get("xmap"),
                                                    [e for e in o["log"]], o["xconfig"]))
            if "again" in o:
                add(key + ".again", self._sample_spec_reqs(enc, ce["ncross"], ce["nparent"], o["decn"], o.get("xmap"),
                                                          [e for e in o["again_log"]], o["again"]))
            if case["algo"] == "sorting":
                add(key + ".sorting", {"op": "c07.sorting", "obj": o["single_obj"], "k": len(o["decn"])})
                # numpy's own argsort of the recorded objective column (what `obj.argsort(0)` saw: an (n,1) float array),
                # validated by the driver: the model's decision is then the implementation's, ties included
                col = numpy.array([float(Fraction(v)) for v in canon.dec(o["single_obj"])], dtype=float).reshape(-1, 1)
                add(key + ".sorting_with", {"op": "c07.sorting_with", "obj": o["single_obj"], "k": len(o["decn"]),
                                            "sigma": [int(v) for v in col.argsort(0)[:, 0]]})
                add(key + ".topk", {"op": "c07.spec_topk", "obj": o["single_obj"], "k": len(o["decn"]), "decn": o["decn"]})
                cands = self._candidates(ce)
                xmap = o["xmap"] if mate else cands
                add(key + ".cover", {"op": "c07.spec_cover", "cands": cands, "xmap": xmap, "space": o["space"]})
                # the decision expressed as positions in the independent candidate list
                loc = {tuple(t): i for i, t in enumerate(cands)}
                pos = [loc.get(tuple(sorted(xmap[d])) if 0 <= d < len(xmap) else None) for d in o["decn"]]
                o["_pos_full"] = pos
                if all(v is not None for v in o["full_obj"]) and all(v is not None for v in pos):
                    add(key + ".topk_full", {"op": "c07.spec_topk", "obj": o["full_obj"], "k": len(pos), "decn": pos})
                if "uc_pvar" in o:
                    # exact part of the criterion in the model: epgc of the cross type . exact breeding values
                    add(key + ".uc_pmean", {"op": "c07.uc_pmean", "cross_type": case.get("vfcty", "two"),
                                            "bv": [canon.enc(v) for v in self._exact_gebv(case, key)], "xmap": cands})
        if mate:
            for key in ("a", "b"):
                if key in obs:
                    add(key + ".xmapix", {"op": "c07.xmapix", "ntaxa": self._eff(case, key)["ntaxa"],
                                          "nparent": case["nparent"], "unique": bool(case.get("unique", True))})
        if case["family"] in ("uc", "embv") and enc == "mate_integer":
            nm = case["nmating"] if isinstance(case["nmating"], list) else [case["nmating"]] * case["ncross"]
            add("uc_bounds", {"op": "c07.uc_bounds" if case["family"] == "uc" else "c07.embv_bounds",
                              "ncross": case["ncross"], "nparent": case["nparent"],
                              "nmating": nm, "nxmap": len(obs["a"]["xmap"])})
        if case["family"] == "fam" and _base_enc(enc) != "subset":
            add("family_bounds", {"op": "c07.family_bounds", "nparent": case["nparent"], "ntaxa": case["ntaxa"]})
        if case["algo"] == "stub" and case.get("nobj", 1) > 1:
            for key in ("a", "b"):
                if key not in obs:
                    continue
                dec = [[int(Fraction(v) * case.get("real_den", 4)) if _base_enc(enc) == "real" else int(v) for v in d]
                       for d in self._eff(case, key)["soln_decn"]]
                add(key + ".mo_choice", {"op": "c07.mo_choice", "wt": canon.enc(Fraction(case["ndset_wt"])),
                                         "tvals": obs[key]["tvals"], "decns": dec})
            if case["ndset_trans"] == "default":
                kw = case.get("ndset_kwargs") or {"obj_wt": [1] * case["nobj"], "vec_wt": [1] * case["nobj"]}
                add("ndset_dist", {"op": "c07.ndset_dist", "mat": case["soln_obj"], "obj_wt": kw["obj_wt"],
                                   "vec_wt": kw["vec_wt"]})
        obs["_tags"] = tags
        return reqs

    # ------------------------------------------------------------------ judge
    @staticmethod
    def _ok(a):
        if "err" in a:
            raise RuntimeError("driver error: " + a["err"])
        return a["ok"]

    @staticmethod
    def _sus_near_tie(decn, k, offset):
        """is some pointer within binary64 rounding distance of a cumulative-weight boundary (or the offset within
        rounding distance of 0 / of the spacing)?  Then the exact-arithmetic model and the binary64 computation
        may legitimately resolve the comparison differently; only exact (dyadic-spacing) cases are compared then."""
        p = sorted((Fraction(v) for v in decn), reverse=True)
        tot = sum(p)
        d = tot / k
        o = Fraction(offset)
        eps = tot / (1 << 40)
        if o <= eps or d - o <= eps or abs(2 * o - d) <= eps:
            return True
        cs, acc = [], Fraction(0)
        for v in p:
            acc += v
            cs.append(acc)
        return any(abs(o + j * d - c) <= eps for j in range(k) for c in cs)

    @staticmethod
    def _d20_like(enc, ncross, nparent, decn, xconfig):
        """could this table have come out of the as-is integer sampler (finding D20)?  Integer encoding, the counts do
        not tile the slots, some count >= 2, and (individual-based) every use count lies in [q d_i, (q+1) d_i] - the
        exact set of attainable count vectors (theorem C07.integer_use_counts_iff)"""
        if _base_enc(enc) != "integer" or decn is None:
            return False
        try:
            d = [int(Fraction(v)) for v in decn]
        except (ValueError, TypeError):
            return False
        tot = sum(d)
        nslot = ncross * (1 if enc.startswith("mate_") else nparent)
        if tot <= 0 or nslot % tot == 0 or max(d) < 2:
            return False
        if enc.startswith("mate_"):
            return True
        q = nslot // tot
        flat = [v for r in xconfig for v in r]
        return all(q * d[i] <= flat.count(i) <= (q + 1) * d[i] for i in range(len(d)))

    def _judge_sample_spec(self, enc, ncross, nparent, log, xconfig, answers, decn=None):
        """-> (corr, spec, detail, share_only) for one configuration; share_only = the share clause alone fails AND
        the table is one the as-is integer sampler can produce (known finding D20)"""
        out = self._judge_sample_spec0(enc, ncross, nparent, log, xconfig, answers, decn)
        return out[0], out[1], out[2], bool(out[3] and self._d20_like(enc, ncross, nparent, decn, xconfig))

    def _judge_sample_spec0(self, enc, ncross, nparent, log, xconfig, answers, decn=None):
        orc = _parse_log(enc, log, ncross, nparent)
        i = 0
        if (orc is not None and _base_enc(enc) == "real" and decn is not None and "ok" in answers[0]
                and answers[0]["ok"].get("rows") != xconfig):
            k = ncross if enc.startswith("mate_") else ncross * nparent
            d = sum(Fraction(v) for v in canon.dec(decn)) / k
            dyadic = d.denominator & (d.denominator - 1) == 0
            if not dyadic and self._sus_near_tie(canon.dec(decn), k, canon.dec(orc["offset"])):
                s = self._ok(answers[1])
                share_only = (not s["ok"]) and s.get("others") is True and s.get("share") is False
                return True, bool(s["ok"]), (f"model={answers[0]['ok']} impl={xconfig} [pointer within binary64 rounding "
                                             f"of a boundary, spacing not dyadic: comparison waived] spec[{s['detail']}]"), share_only
        if orc is not None and str(answers[0].get("err", "")).startswith("oracle:"):
            # the recorded draws are not what the modelled code would have asked its generator for
            i = 1
            corr = False
            md = "recorded draws do not fit the model (" + answers[0]["err"] + ")"
        elif orc is not None:
            m = self._ok(answers[0])
            i = 1
            corr = m.get("rows") == xconfig
            md = m.get("rows", m.get("error"))
        else:
            corr = False
            md = "generator call pattern differs from the model's"
        s = self._ok(answers[i])
        share_only = (not s["ok"]) and s.get("others") is True and s.get("share") is False
        return corr, bool(s["ok"]), f"model={md} impl={xconfig} spec[{s['detail']}]", share_only

    def judge(self, case, obs, answers):
        k = case["kind"]
        if k == "xmapix":
            m = self._ok(answers[0])
            rows = obs["rows"]
            n, kk, u = case["ntaxa"], case["nparent"], case["unique"]
            # Spec: exactly the sorted k-tuples over range(n) (strict if unique), each once, lexicographic
            import itertools
            want = [list(t) for t in (itertools.combinations(range(n), kk) if u else
                                      itertools.combinations_with_replacement(range(n), kk))]
            return {"corr": m == rows, "spec": rows == want, "nontrivial": len(rows) >= 2,
                    "detail": f"xmapix model={m} impl={rows}"}
        if k == "cfg":
            if case.get("expect_error"):
                m = self._ok(answers[0])
                corr = ("error" in m) and obs["error"] is not None
                return {"corr": corr, "spec": True, "nontrivial": False,
                        "detail": f"rejected input: model={m} impl={obs['error']}"}
            corr, spec, detail, share_only = self._judge_sample_spec(
                case["enc"], case["ncross"], case["nparent"], obs["log"], obs["xconfig"], answers, case["decn"])
            spec = spec and obs["design_ok"]
            share_only = share_only and obs["design_ok"]       # nothing but the share clause fails
            corr = corr and obs["decn_untouched"]      # not a clause of the statement: a broken correspondence only
            flat = [v for r in obs["xconfig"] for v in r]
            nontriv = (case["ncross"] >= 2 or case["nparent"] >= 2) and len(set(flat)) >= 2
            return {"corr": corr, "spec": spec, "nontrivial": nontriv, "share_only": share_only,
                    "detail": f"cfg[{case['enc']}] {detail} untouched={obs['decn_untouched']} design={obs['design_ok']}"}
        if k == "select":
            return self._judge_select(case, obs, answers)
        if k == "history":
            return self._judge_history(case, obs, answers)
        if k == "problem":
            return self._judge_problem(case, obs, answers)
        raise ValueError(k)

    def _judge_history(self, case, obs, answers):
        corr, spec, details, share_only = True, True, [], False
        hard = False            # some clause other than a D20-like share deviation fails
        pos = 0
        for j, smp in enumerate(obs["samples"]):
            n = smp["_nreq"]
            c, s, d, so = self._judge_sample_spec(case["enc"], case["ncross"], case["nparent"], smp["log"], smp["xconfig"],
                                                   answers[pos:pos + n], smp["decn"])
            pos += n
            share_only = share_only or so
            hard = hard or (not s and not so)
            # (the table is judged against the decision the configuration itself reported before sampling; that this
            #  is the row of the solution array it was given is a matter of correspondence only)
            corr = corr and c and smp["returned_ok"] and smp.get("decn_is_row", True)
            spec = spec and s
            if not (c and s and smp["returned_ok"] and smp.get("decn_is_row", True)):
                details.append(f"sample {j} (decision {smp['decn']}, row {smp['cur']} of the solution array: {smp.get('decn_is_row', True)}): {d} returned_ok={smp['returned_ok']}")
        spec = spec and obs["design_ok"]
        hard = hard or not obs["design_ok"]
        corr = corr and obs["earlier_tables_intact"] and obs["decn_untouched"]
        flat = [v for smp in obs["samples"] for r in smp["xconfig"] for v in r]
        return {"corr": corr, "spec": spec, "nontrivial": len(obs["samples"]) >= 2 and len(set(flat)) >= 2,
                "share_only": share_only and not hard,
                "detail": f"history[{case['enc']} dtype={case.get('dtype')} layout={case.get('layout')}] steps={case['steps']} "
                          f"{len(obs['samples'])} samples; " + (" | ".join(details) if details else "all samples ok")
                          + f" untouched={obs['decn_untouched']} design={obs['design_ok']} earlier_tables_intact={obs['earlier_tables_intact']}"}

    def _judge_select(self, case, obs, answers):
        enc = case["enc"]
        mate = enc.startswith("mate_")
        by = {}
        for t, a in zip(obs["_tags"], answers):
            by.setdefault(t, []).append(a)
        corr, spec, details = True, True, []
        share_only = False
        st = {"hard": False}        # some clause other than a D20-like share deviation fails

        def need(x):
            if not x:
                st["hard"] = True
            return bool(x)
        per = {}
        for key in ("a", "b"):
            if key not in obs:
                continue
            o = obs[key]
            ce = self._eff(case, key)
            lean_xmap = self._ok(by[key + ".xmapix"][0]) if mate else None
            c, s, d, so = self._judge_sample_spec(enc, ce["ncross"], ce["nparent"], o["log"], o["xconfig"],
                                                   by[key + ".cfg"], o["decn"])
            share_only = share_only or so
            need(s or so)
            # design parameters carried over (for the second call on a re-used protocol: the re-assigned ones)
            nm = ce["nmating"] if isinstance(ce["nmating"], list) else [ce["nmating"]] * ce["ncross"]
            npg = ce["nprogeny"] if isinstance(ce["nprogeny"], list) else [ce["nprogeny"]] * ce["ncross"]
            design = o["design_ok"] and o["nmating"] == nm and o["nprogeny"] == npg and o["has_soln"]
            s = s and need(design)
            # the configuration is sampled from the generator the protocol was constructed with
            own = o["own_generator"] and o["stray_draws"] == 0
            c = c and own
            details.append(f"{key}: {d} design={design} draws_from_protocol_generator={own}")
            if "again" in o:
                # a second configuration sampled from the same object: same clauses, solution object untouched
                c2, s2, d2, so2 = self._judge_sample_spec(enc, ce["ncross"], ce["nparent"], o["again_log"], o["again"],
                                                          by[key + ".again"], o["decn"])
                share_only = share_only or so2
                need(s2 or so2)
                c = c and c2 and o["soln_untouched"] and o["again_untouched"]
                s = s and s2
                if not (c2 and s2 and o["soln_untouched"] and o["again_untouched"]):
                    details.append(f"{key}: second sample from the same configuration: {d2} solution_untouched="
                                   f"{o['soln_untouched']}/{o['again_untouched']}")
            if mate:
                # the cross map of the configuration is the cross map of the passed population
                xm_ok = o["xmap"] == lean_xmap
                c = c and xm_ok
                if not xm_ok:
                    details.append(f"{key}: cross map differs from xmapix model: impl={o['xmap']} model={lean_xmap}")
            if case["algo"] == "sorting":
                m = self._ok(by[key + ".sorting"][0])
                topk = self._ok(by[key + ".topk"][0])
                cover = self._ok(by[key + ".cover"][0])
                so_vals = [Fraction(v) for v in canon.dec(o["single_obj"])]
                same_vals = [so_vals[i] for i in m] == [so_vals[i] for i in o["decn"]]
                distinct = len(set(so_vals)) == len(so_vals)
                c = c and (m == o["decn"] if distinct else same_vals)
                mw = by[key + ".sorting_with"][0]
                c = c and mw.get("ok") == o["decn"]     # exact, ties included (numpy's tie order as a validated oracle)
                c = c and o["space"] == list(range(len(self._candidates(ce))))
                kexp = min(self._problem_expect(ce)[1], len(so_vals))
                c = c and len(o["decn"]) == kexp       # as many members as the design in force asks for
                s = s and need(bool(topk) and bool(cover))
                details.append(f"{key}: sorting model={m} impl={o['decn']} topk={topk} "
                               f"decision_space_covers_all_candidates={cover}")
                if key + ".topk_full" in by:
                    tf = self._ok(by[key + ".topk_full"][0])
                    s = s and need(bool(tf))
                    details.append(f"{key}: best among ALL {len(o['full_obj'])} candidates={tf}")
                elif not cover:
                    miss = [t for t, v in zip(self._candidates(ce), o["full_obj"]) if v is None]
                    details.append(f"{key}: candidates missing from the problem: {miss[:6]}")
                else:
                    s = need(False)
                    details.append(f"{key}: chosen decision {o['decn']} is not a candidate of the population")
                if key + ".uc_pmean" in by:
                    cu, su, du = self._judge_uc(case, ce, o, self._ok(by[key + ".uc_pmean"][0]))
                    c = c and cu
                    s = s and need(su)
                    details.append(f"{key}: {du}")
                per[key] = {"vals": sorted(so_vals[i] for i in o["decn"]), "distinct": distinct}
            corr = corr and c
            spec = spec and s
        if "uc_bounds" in by:
            ub = self._ok(by["uc_bounds"][0])
            ubok = ("error" not in ub and ub.get("upper") == obs["a"].get("uc_upper")
                    and ub.get("lower") == obs["a"].get("uc_lower") and obs["a"].get("uc_int") is True)
            corr = corr and ubok
            details.append(f"uc integer upper bound model={ub.get('upper', ub.get('error'))} impl={obs['a'].get('uc_upper')}")
        if "family_bounds" in by:
            fb = self._ok(by["family_bounds"][0])
            corr = corr and "error" not in fb       # the implementation built its problem: so must the model
            details.append(f"family bounds model={fb}")
        nontriv = True
        if case["algo"] == "sorting":
            a, b = obs["a"], obs["b"]
            # independent criterion (EBV: the breeding values themselves; GEBV: X u exactly)
            indep = self._independent_criterion(case)
            if indep is not None:
                chosen = set(a["decn"])
                w = Fraction(case.get("obj_wt", 1))
                ok = all(w * (-indep[i]) <= w * (-indep[j]) for i in chosen for j in range(case["ntaxa"]) if j not in chosen)
                spec = spec and need(ok)
                details.append(f"independent criterion ok={ok}")
            # equivariance under permutation + relabelling
            rnd = case["family"] in ("random", "embv")      # the criterion itself is redrawn / re-simulated in every run
            sub = len(case["perm"]) != case["ntaxa"]        # second population = a sub-population: nothing to compare
            # three-way crosses: a candidate is an ORDERED role assignment (recurrent = lowest index of the ascending
            # tuple, contributions 1/2, 1/4, 1/4); a permutation of the individuals that is not order preserving does not
            # map candidate crosses to candidate crosses, so only order-preserving relabellings are compared there
            # (four-way crosses likewise: the variance of (p0 x p1) x (p2 x p3) depends on the pairing)
            asym = (case["family"] == "uc" and case.get("vfcty") in ("three", "four")
                    and list(case["perm"]) != sorted(case["perm"]))
            rnd = rnd or sub or asym
            kk = min(len(per["a"]["vals"]), len(per["b"]["vals"]))     # (a re-assigned ncross: the best kk of both)
            eq_vals = rnd or canon.close(per["a"]["vals"][:kk], per["b"]["vals"][:kk], rel=1e-9, abs_=1e-9)
            spec = spec and need(eq_vals)
            details.append(f"chosen criterion values agree={eq_vals}")
            if per["a"]["distinct"] and not rnd:
                if mate:
                    ca = sorted(tuple(sorted(case["names"][t] for t in a["xmap"][d])) for d in a["decn"])
                    inv = {case["names2"][i]: case["names"][case["perm"][i]] for i in range(case["ntaxa"])}
                    cb = sorted(tuple(sorted(inv[b["names"][t]] for t in b["xmap"][d])) for d in b["decn"])
                else:
                    ca = sorted(case["names"][i] for i in a["decn"])
                    inv = {case["names2"][i]: case["names"][case["perm"][i]] for i in range(case["ntaxa"])}
                    cb = sorted(inv[b["names"][i]] for i in b["decn"])
                eqv = ca == cb if len(ca) == len(cb) else (set(ca) <= set(cb) or set(cb) <= set(ca))
                spec = spec and need(eqv)
                details.append(f"equivariance {ca} vs {cb}")
            nopt = len(a["single_obj"])
            nontriv = nopt >= 2 and len(set(a["decn"])) < nopt
        else:
          for key in ("a", "b"):
            if key not in obs:
                continue
            o = obs[key]
            b = _base_enc(enc)
            nobj = case.get("nobj", 1)
            dec_impl = [Fraction(v) for v in canon.dec(o["decn"])] if b == "real" else o["decn"]
            cand = [[Fraction(v) for v in d] for d in self._eff(case, key)["soln_decn"]]
            if b == "subset":       # a subset decision is a set: the order of its members carries no meaning
                dec_impl = sorted(dec_impl)
                cand = [sorted(d) for d in cand]
            if nobj == 1:
                ok = [Fraction(v) for v in dec_impl] == cand[0]
                spec = spec and need(ok)
                details.append(f"{key}: decision is soln_decn[0]: {ok}")
                nontriv = True
            else:
                m = self._ok(by[key + ".mo_choice"][0])
                wt = Fraction(case["ndset_wt"])
                hit = [i for i, d in enumerate(cand) if d == [Fraction(v) for v in dec_impl]]
                if case["ndset_trans"] == "default":
                    d2 = self._ok(by["ndset_dist"][0])
                    score = None if d2 is None else [float(wt) * math.sqrt(float(Fraction(v))) for v in canon.dec(d2)]
                else:
                    mat = [[Fraction(v) for v in r] for r in case["soln_obj"]]
                    t = {"sum": lambda r: sum(r), "first": lambda r: r[0], "negmax": lambda r: -max(r)}[case["ndset_trans"]]
                    score = [wt * t(r) for r in mat]        # exact: integer / dyadic objective values, sums exact in binary64
                if score is None or not hit:
                    okmax = False
                    ix_impl = hit[0] if hit else None
                else:
                    mx = max(score)
                    tol = 1e-9 * max(1.0, abs(mx)) if case["ndset_trans"] == "default" else 0
                    # duplicated decisions in the front: the configuration is right if ANY front member with
                    # this decision maximises the preference transformation
                    good = [i for i in hit if score[i] >= mx - tol]
                    okmax = bool(good)
                    ix_impl = good[0] if good else hit[0]
                spec = spec and need(okmax)
                near_tie = score is not None and sum(1 for v in score if v >= max(score) - (
                    1e-9 * max(1.0, abs(max(score))) if case["ndset_trans"] == "default" else 0)) > 1
                cm = m is not None and (m["ix"] in hit or (near_tie and okmax))
                corr = corr and cm
                details.append(f"{key}: mo choice model={m} impl_ix={ix_impl} score={None if score is None else [float(v) for v in score]} argmax_ok={okmax}"
                               + (f" cv={case['soln_cv']}" if case.get("soln_cv") else ""))
                nontriv = len(cand) >= 2
        return {"corr": corr, "spec": spec, "nontrivial": nontriv, "share_only": share_only and not st["hard"],
                "detail": f"select[{case['family']}/{enc}/{case['algo']}] " + " | ".join(details)}

    @staticmethod
    def _exact_gebv(case, key):
        """genomic estimated breeding values (trait 0) of the population of run `key`, exactly, from the raw inputs of
        `_world`: beta = 1, u_a = case["u_a"], genotype = sum of the two phases"""
        idx = list(range(case["ntaxa"])) if key == "a" else list(case["perm"])
        return [1 + sum(Fraction(case["u_a"][j][0]) * (case["geno"][0][i][j] + case["geno"][1][i][j])
                        for j in range(len(case["u_a"]))) for i in idx]

    def _judge_uc(self, case, ce, o, u):
        """the usefulness criterion of every candidate cross, independently of the selection problem:
        (expected parental genome contributions of the cross type) . (exact breeding values of the parents, Lean)
        + intensity * sqrt(max(variance of the cross, 0)); the chosen crosses must be the best by it"""
        cands = self._candidates(ce)
        epgc_ok = [Fraction(v) for v in canon.dec(o["uc_epgc"])] == [Fraction(v) for v in canon.dec(u["epgc"])]
        inten = _uc_intensity(case)
        crit = [float(Fraction(pm)) + inten * math.sqrt(max(float(Fraction(pv)), 0.0))
                for pm, pv in zip(canon.dec(u["pmean"]), canon.dec(o["uc_pvar"]))]
        w = float(Fraction(case.get("obj_wt", 1)))
        loc = {tuple(t): i for i, t in enumerate(cands)}
        xmap = o["xmap"]
        pos = [loc.get(tuple(sorted(xmap[d])) if 0 <= d < len(xmap) else None) for d in o["decn"]]
        tol = 1e-9 * max([1.0] + [abs(v) for v in crit])
        if len(crit) != len(cands) or any(v is None for v in pos):
            return epgc_ok, False, f"usefulness criterion: chosen decision {o['decn']} is not a candidate cross"
        chosen = set(pos)
        worst_in = min(w * crit[i] for i in chosen)
        out = [w * crit[j] for j in range(len(cands)) if j not in chosen]
        ok = (not out) or worst_in >= max(out) - tol
        # correspondence: the objective the problem reports for every candidate is the negated weighted criterion
        full = [None if v is None else float(Fraction(v)) for v in canon.dec(o["full_obj"])]
        same = all(v is not None for v in full) and canon.close(full, [-w * v for v in crit], rel=1e-9, abs_=1e-9)
        better = sorted(range(len(cands)), key=lambda j: -w * crit[j])[:len(pos)]
        return (epgc_ok and same), ok, (
            f"usefulness criterion [{case.get('vfcty', 'two')}-way, epgc={[str(Fraction(v)) for v in canon.dec(u['epgc'])]}, "
            f"p={case.get('upper_percentile', '1/10')}, nself={case.get('nself', 0)}] recomputed from breeding values and the "
            f"variance matrix: chosen crosses {[cands[i] for i in pos]} (criterion {[round(crit[i], 6) for i in pos]}) are the "
            f"best={ok}" + ("" if ok else f"; the best are {[cands[i] for i in better]} (criterion {[round(crit[i], 6) for i in better]})")
            + f" problem_objective_is_the_criterion={same} epgc_as_model={epgc_ok}")

    @staticmethod
    def _independent_criterion(case):
        fam = case["family"]
        if fam == "ebv" and case["enc"] == "subset":
            return [Fraction(v) for v in case["bv"]]
        if fam == "gebv" and case["enc"] == "subset":
            n = case["ntaxa"]
            g = []
            for i in range(n):
                g.append(sum(Fraction(case["u_a"][j][0]) * (case["geno"][0][i][j] + case["geno"][1][i][j])
                             for j in range(len(case["u_a"]))))
            return g
        return None

    # ------------------------------------------------------------------ findings
    def signature(self, case, obs, verdict):
        sig = {"kind": case.get("kind"), "enc": case.get("enc")}
        enc = case.get("enc") or ""
        b = _base_enc(enc)
        nslot = case.get("ncross", 0) * (1 if enc.startswith("mate_") else case.get("nparent", 0))
        if case.get("kind") in ("select", "problem") and isinstance(obs, dict) and "__exception__" in obs:
            fam, exc, text = case.get("family"), obs["__exception__"], obs.get("text", "")
            if fam == "l2" and exc == "type" and "mkrwt" in text and "afreq" in text:
                sig.update(site="L2NormGenomicSelection.problem", cond="from_gmat_called_without_mkrwt_afreq")
        if b == "integer" and isinstance(verdict, dict) and verdict.get("share_only"):
            # (share_only: every failing clause is a share deviation of a table the as-is integer sampler can produce,
            #  judged per table against the decision and the number of slots in force when it was sampled)
            sig["site"] = "IntegerSelectionConfiguration.sample_xconfig"
            sig["cond"] = "remainder_drawn_from_repeated_options"
        return sig

    def shrink(self, case):
        k = case.get("kind")
        if k == "history":
            st = case["steps"]
            for i in range(len(st)):            # any step list is a valid history
                c = dict(case)
                c["steps"] = st[:i] + st[i + 1:]
                yield c
            if case.get("layout") or case.get("xmap_order"):
                c = dict(case)
                c.pop("layout", None), c.pop("xmap_order", None)
                yield c
        if k == "cfg":
            # mate-selection encodings: the decision indexes the cross map of (ntaxa, nparent): only ncross may shrink
            for key in (("ncross",) if case["enc"].startswith("mate_") else ("ncross", "nparent")):
                if case[key] > 1:
                    c = dict(case)
                    c[key] = case[key] - 1
                    yield c
            d = case["decn"]
            b = _base_enc(case["enc"])
            if b == "subset" and len(d) > 1:
                for i in range(len(d)):
                    c = dict(case)
                    c["decn"] = d[:i] + d[i + 1:]
                    yield c
            if b in ("integer", "real", "binary"):
                for i in range(len(d)):
                    if Fraction(d[i]) != 0 and sum(1 for v in d if Fraction(v) != 0) > 1:
                        c = dict(case)
                        c["decn"] = d[:i] + [0] + d[i + 1:]
                        yield c
            for s in (0, 1, 2, 3):
                if case["seed"] != s:
                    c = dict(case)
                    c["seed"] = s
                    yield c
        elif k == "select":
            if case["ncross"] > 1 and not isinstance(case["nmating"], list) and not isinstance(case["nprogeny"], list) \
                    and case["algo"] == "sorting":
                c = dict(case)
                c["ncross"] = case["ncross"] - 1
                yield c
            if case["algo"] == "stub" and len(case.get("soln_decn", [])) > 1:
                for i in range(len(case["soln_decn"])):
                    c = dict(case)
                    c["soln_decn"] = case["soln_decn"][:i] + case["soln_decn"][i + 1:]
                    c["soln_obj"] = case["soln_obj"][:i] + case["soln_obj"][i + 1:]
                    if case.get("soln_cv"):
                        c["soln_cv"] = case["soln_cv"][:i] + case["soln_cv"][i + 1:]
                    yield c

    # ------------------------------------------------------------------ self-test mutants
    def mutants(self):
        M = _mods()
        ind_mods = [M["cfgmod"][e] for e in ENC_IND]
        tiled_mods = [M["cfgmod"][e] for e in ("subset", "integer", "binary", "mate_subset", "mate_integer", "mate_binary")]
        sampling = M["sampling"]
        real_tiled = sampling.tiled_choice
        real_axis = sampling.axis_shuffle

        def tiled_replace(a, size=None, replace=True, p=None, rng=None):
            return real_tiled(a, size=size, replace=True, p=p, rng=rng)

        def no_outcross(xconfig, rng=None):
            return None

        def axis1(a, axis=None, rng=None):
            return real_axis(a, 1, rng=rng)

        def argmin_select(orig_cls_mod):
            """select() with `score.argmin()` in the multi-objective branch"""
            cls = getattr(orig_cls_mod, orig_cls_mod.__name__.split(".")[-1])
            orig = cls.select

            def select(self, pgmat, gmat, ptdf, bvmat, gpmod, t_cur, t_max, miscout=None, **kwargs):
                if self.nobj <= 1:
                    return orig(self, pgmat, gmat, ptdf, bvmat, gpmod, t_cur, t_max, miscout=miscout, **kwargs)
                real_trans = self.ndset_trans
                try:
                    self._ndset_trans = lambda mat, **kw: -real_trans(mat, **kw)
                    return orig(self, pgmat, gmat, ptdf, bvmat, gpmod, t_cur, t_max, miscout=miscout, **kwargs)
                finally:
                    self._ndset_trans = real_trans
            return _patch(cls, "select", select)

        def shifted_sosolve(mod):
            cls = getattr(mod, mod.__name__.split(".")[-1])
            orig = cls.sosolve

            def sosolve(self, *a, **kw):
                out = orig(self, *a, **kw)
                d = out.soln_decn
                if d.dtype.kind in "iu" and len(out.decn_space) == len(numpy.unique(out.decn_space)) and d.shape[1] != len(out.decn_space):
                    out.soln_decn = (d + 1) % len(out.decn_space)      # subset encodings
                else:
                    out.soln_decn = numpy.roll(d, 1, axis=1)              # vector encodings
                return out
            return _patch(cls, "sosolve", sosolve)

        Sorting = M["sorting"]
        orig_min = Sorting.minimize

        def sorting_off_by_one(self, prob, miscout=None, **kwargs):
            out = orig_min(self, prob, miscout=miscout, **kwargs)
            evals = numpy.stack([prob.evalfn(numpy.array([e]))[0] for e in prob.decn_space])
            ix = evals.argsort(0)
            sel = prob.decn_space[ix[1:prob.ndecn + 1, 0]]
            if len(sel) == prob.ndecn:
                out.soln_decn = numpy.stack([sel])
            return out

        def mate_lookup_off_by_one(mod):
            cls = getattr(mod, mod.__name__.split(".")[-1])
            orig = cls.sample_xconfig

            def sample_xconfig(self, return_xconfig=True):
                real = self._xconfig_xmap
                try:
                    self._xconfig_xmap = numpy.roll(real, -1, axis=0)
                    return orig(self, return_xconfig)
                finally:
                    self._xconfig_xmap = real
            return _patch(cls, "sample_xconfig", sample_xconfig)

        def neighbour_outcross(xconfig, rng=None):
            """outcross_shuffle whose objective counts equal *neighbouring* entries only (seeded change C07-a1)"""
            if rng is None:
                rng = sampling.global_prng

            def objfn(x):
                return int(numpy.count_nonzero(x[:, 1:] == x[:, :-1]))
            xravel = xconfig.ravel()
            best = objfn(xconfig)
            exchix = numpy.array([[i, j] for i in range(len(xravel)) for j in range(i + 1, len(xravel))])
            iterate = True
            while iterate:
                rng.shuffle(exchix)
                local = True
                for i, j in exchix:
                    xravel[i], xravel[j] = xravel[j], xravel[i]
                    sc = objfn(xconfig)
                    if sc < best:
                        best = sc
                        local = False
                        break
                    xravel[i], xravel[j] = xravel[j], xravel[i]
                iterate = not local

        def front_over_objwt(mod):
            """multi-objective branch sees soln_obj / obj_wt (seeded change C07-a2)"""
            cls = getattr(mod, mod.__name__.split(".")[-1])
            orig = cls.select

            def select(self, pgmat, gmat, ptdf, bvmat, gpmod, t_cur, t_max, miscout=None, **kwargs):
                if self.nobj <= 1:
                    return orig(self, pgmat, gmat, ptdf, bvmat, gpmod, t_cur, t_max, miscout=miscout, **kwargs)
                real_trans = self.ndset_trans
                wt = numpy.asarray(self.obj_wt, dtype=float)
                try:
                    self._ndset_trans = lambda mat, **kw: real_trans(mat / wt, **kw)
                    return orig(self, pgmat, gmat, ptdf, bvmat, gpmod, t_cur, t_max, miscout=miscout, **kwargs)
                finally:
                    self._ndset_trans = real_trans
            return _patch(cls, "select", select)

        EbvSubset = M["fam"][("ebv", "subset")]
        orig_problem = EbvSubset.problem

        def problem_sorted_labels(self, pgmat, gmat, ptdf, bvmat, gpmod, t_cur, t_max, **kwargs):
            """breeding values 'aligned' by position in the sorted label array (seeded change C07-a3)"""
            if pgmat is not None and pgmat.taxa is not None and bvmat.taxa is not None:
                bvmat = bvmat.select_taxa(numpy.searchsorted(numpy.sort(bvmat.taxa), pgmat.taxa))
            return orig_problem(self, pgmat, gmat, ptdf, bvmat, gpmod, t_cur, t_max, **kwargs)

        arr = M["array"]
        real_triudix = arr.triudix
        import importlib
        importlib_import = importlib.import_module

        def triudix_wrong(n, k):
            for t in real_triudix(n, k):
                yield t[::-1]

        # ---- round 3: one mutant per class of histories / options / sizes / magnitudes added to the generators
        def feasible_misindexed(mod):
            """multi-objective branch scores only the points without constraint violation but uses the position inside
            the filtered array to index the unfiltered solution set (class of seeded change C07-c1)"""
            cls = getattr(mod, mod.__name__.split(".")[-1])
            orig_mosolve, orig_select = cls.mosolve, cls.select

            def mosolve(self, *a, **kw):
                out = orig_mosolve(self, *a, **kw)
                self._c07_cv = numpy.asarray(out.soln_ineqcv).sum(1) + numpy.asarray(out.soln_eqcv).sum(1)
                return out

            def select(self, pgmat, gmat, ptdf, bvmat, gpmod, t_cur, t_max, miscout=None, **kwargs):
                if self.nobj <= 1:
                    return orig_select(self, pgmat, gmat, ptdf, bvmat, gpmod, t_cur, t_max, miscout=miscout, **kwargs)
                real_trans = self.ndset_trans

                def trans(mat, **kw):
                    feas = numpy.flatnonzero(self._c07_cv <= 0.0)
                    if len(feas) == 0:
                        feas = numpy.arange(len(mat))
                    ix = int((self.ndset_wt * real_trans(mat[feas], **kw)).argmax())
                    out = numpy.zeros(len(mat))
                    out[ix] = 1.0 if self.ndset_wt > 0 else -1.0
                    return out
                try:
                    self._ndset_trans = trans
                    return orig_select(self, pgmat, gmat, ptdf, bvmat, gpmod, t_cur, t_max, miscout=miscout, **kwargs)
                finally:
                    self._ndset_trans = real_trans
            return _many(_patch(cls, "mosolve", mosolve), _patch(cls, "select", select))

        OhvSubset = M["fam"][("ohv", "subset")]
        orig_ohv_problem = OhvSubset.problem

        def ohv_problem_prefix(self, pgmat, *a, **kw):
            """decision space sized by the closed form comb(n,d)+n, right for d = 2 only (class of C07-b1)"""
            prob = orig_ohv_problem(self, pgmat, *a, **kw)
            if not self.unique_parents:
                n = math.comb(pgmat.ntaxa, self.nparent) + pgmat.ntaxa
                if n < len(prob.decn_space):
                    prob._decn_space = prob.decn_space[:n]
            return prob

        ohv_probmod = importlib_import("pybrops.breed.prot.sel.prob.OptimalHaploidValueSelectionProblem")
        ohv_probcls = [getattr(ohv_probmod, "OptimalHaploidValue%sSelectionProblem" % e) for e in ("Subset", "Integer", "Binary", "Real")]

        def ohv_xmap_unique_only(ntaxa, nparent, unique_parents=True):
            return numpy.array(list(arr.triudix(ntaxa, nparent)))

        def options_cached(mod):
            """the option pool is computed from the decision the object was constructed with and reused after the
            decision has been re-assigned"""
            cls = getattr(mod, mod.__name__.split(".")[-1])
            orig = cls.sample_xconfig

            def sample_xconfig(self, return_xconfig=True):
                if getattr(self, "_c07_first", None) is None:
                    self._c07_first = self._xconfig_decn
                real = self._xconfig_decn
                try:
                    self._xconfig_decn = self._c07_first
                    return orig(self, return_xconfig)
                finally:
                    self._xconfig_decn = real
            return _patch(cls, "sample_xconfig", sample_xconfig)

        def decision_rewritten(mod):
            """sampling reorders the decision vector in place (it is a view of the solution object's row)"""
            cls = getattr(mod, mod.__name__.split(".")[-1])
            orig = cls.sample_xconfig

            def sample_xconfig(self, return_xconfig=True):
                out = orig(self, return_xconfig)
                self._xconfig_decn[...] = numpy.roll(self._xconfig_decn, 1)
                return out
            return _patch(cls, "sample_xconfig", sample_xconfig)

        binmod = M["cfgmod"]["binary"]

        def binary_mask_lookup(self, return_xconfig=True):
            """numpy.arange(n)[decn]: a mask lookup for bool vectors, fancy indexing for 0/1 integers (class of C07-b3)"""
            options = numpy.arange(len(self.xconfig_decn))[self.xconfig_decn]
            out = binmod.tiled_choice(options, size=(self.ncross, self.nparent), replace=False, rng=self.rng)
            binmod.outcross_shuffle(out, rng=self.rng)
            binmod.axis_shuffle(out, 0, rng=self.rng)
            self.xconfig = out
            if return_xconfig:
                return out

        def sorting_tolerant(self, prob, miscout=None, **kwargs):
            """objective values within 1e-5 (relative) count as equal and are ordered by position"""
            out = orig_min(self, prob, miscout=miscout, **kwargs)
            ev = numpy.array([float(prob.evalfn(numpy.array([e]))[0][0]) for e in prob.decn_space])
            q = numpy.round(ev / (1e-5 * max(1.0, float(numpy.abs(ev).max()))))
            ix = numpy.argsort(q, kind="stable")
            out.soln_decn = numpy.stack([prob.decn_space[ix[:prob.ndecn]]])
            return out

        MgrInt = M["fam"][("mgr", "integer")]

        def problem_float_bounds(self, *a, **kw):
            raise TypeError("ndarray 'decn_space' must have an integer dtype")

        # ---- round 4: in-place revisions, generator type, self crosses, re-assigned design, near-tied fronts
        def stale_decision_values(mod):
            """the decision's values are snapshotted when the vector is assigned and reused as long as the SAME array
            object is held: an in-place revision of the vector (or of the solution it is a view of) goes unnoticed
            (class of C07-d1)"""
            cls = getattr(mod, mod.__name__.split(".")[-1])
            orig = cls.sample_xconfig

            def sample_xconfig(self, return_xconfig=True):
                c = getattr(self, "_c07_cache", None)
                if c is None or c[0] is not self._xconfig_decn:
                    c = (self._xconfig_decn, self._xconfig_decn.copy())
                    self._c07_cache = c
                real = self._xconfig_decn
                try:
                    self._xconfig_decn = c[1]
                    return orig(self, return_xconfig)
                finally:
                    self._xconfig_decn = real
            return _patch(cls, "sample_xconfig", sample_xconfig)

        def axis_permuted_for_generator(a, axis=None, rng=None):
            """'vectorised' path for a Generator: permuted(axis=0) shuffles every parent column ACROSS crosses
            (class of C07-d2); RandomState keeps the loop"""
            if isinstance(rng, numpy.random.Generator) and a.ndim == 2 and axis in (0, (0,)):
                rng.permuted(a, axis=0, out=a)
                return
            return real_axis(a, axis, rng=rng)

        def mate_outcrossed(mod):
            """mate-selection configuration passed through outcross_shuffle after the cross-map lookup: self crosses
            of the solution are broken up into crosses that were not chosen (class of C07-d3, all four encodings)"""
            cls = getattr(mod, mod.__name__.split(".")[-1])
            orig = cls.sample_xconfig

            def sample_xconfig(self, return_xconfig=True):
                out = orig(self, True)
                if out.size <= 40:          # (keeps the self-test fast on the 300 / 1100-cross corpus cases)
                    sampling.outcross_shuffle(out, rng=self.rng)
                self.xconfig = out
                if return_xconfig:
                    return out
            return _patch(cls, "sample_xconfig", sample_xconfig)

        def design_frozen_at_first_select(mod):
            """mating / progeny numbers captured by the first select() and reused afterwards although the attributes
            of the protocol object have been re-assigned"""
            cls = getattr(mod, mod.__name__.split(".")[-1])
            orig = cls.select

            def select(self, *a, **kw):
                cfg = orig(self, *a, **kw)
                fr = getattr(self, "_c07_frozen", None)
                if fr is None:
                    self._c07_frozen = (numpy.array(cfg.nmating), numpy.array(cfg.nprogeny))
                elif len(fr[0]) == cfg.ncross:
                    cfg.nmating, cfg.nprogeny = fr[0].copy(), fr[1].copy()
                else:
                    cfg.nmating = numpy.repeat(fr[0][:1], cfg.ncross)
                    cfg.nprogeny = numpy.repeat(fr[1][:1], cfg.ncross)
                return cfg
            return _patch(cls, "select", select)

        def tolerant_front(mod):
            """preference scores within 1e-5 (relative) count as equal: the first of them is taken"""
            cls = getattr(mod, mod.__name__.split(".")[-1])
            orig = cls.select

            def select(self, pgmat, gmat, ptdf, bvmat, gpmod, t_cur, t_max, miscout=None, **kwargs):
                if self.nobj <= 1:
                    return orig(self, pgmat, gmat, ptdf, bvmat, gpmod, t_cur, t_max, miscout=miscout, **kwargs)
                real_trans = self.ndset_trans

                def trans(mat, **kw):
                    v = numpy.asarray(real_trans(mat, **kw), dtype=float)
                    return numpy.round(v / (1e-5 * max(1.0, float(numpy.abs(v).max()))))
                try:
                    self._ndset_trans = trans
                    return orig(self, pgmat, gmat, ptdf, bvmat, gpmod, t_cur, t_max, miscout=miscout, **kwargs)
                finally:
                    self._ndset_trans = real_trans
            return _patch(cls, "select", select)

        def first_point_without_miscout(mod):
            """`select(..., miscout=None)` takes a short cut: the first point of the solution set instead of the preferred one"""
            cls = getattr(mod, mod.__name__.split(".")[-1])
            orig = cls.select

            def select(self, pgmat, gmat, ptdf, bvmat, gpmod, t_cur, t_max, miscout=None, **kwargs):
                if self.nobj <= 1 or miscout is not None:
                    return orig(self, pgmat, gmat, ptdf, bvmat, gpmod, t_cur, t_max, miscout=miscout, **kwargs)
                real_trans = self.ndset_trans
                try:
                    self._ndset_trans = lambda mat, **kw: numpy.zeros(len(mat))
                    return orig(self, pgmat, gmat, ptdf, bvmat, gpmod, t_cur, t_max, miscout=miscout, **kwargs)
                finally:
                    self._ndset_trans = real_trans
            return _patch(cls, "select", select)

        # ---- round 5: the criterion of a candidate cross for cross types with unequal parental contributions
        UcMixin = M["ucprob"].UsefulnessCriterionSelectionProblemMixin
        orig_calc_uc = UcMixin.__dict__["_calc_uc"].__func__

        def calc_uc_midparent(vmatfcty, ncross, nprogeny, nself, gmapfn, selection_intensity, pgmat, gmod, xmap):
            """progeny mean 'simplified' to the mid-parent value (class of C07-e2): right for equal contributions only"""
            uc = orig_calc_uc(vmatfcty, ncross, nprogeny, nself, gmapfn, selection_intensity, pgmat, gmod, xmap)
            vobj = vmatfcty.from_gmod(gmod=gmod, pgmat=pgmat, ncross=ncross, nprogeny=nprogeny, nself=nself, gmapfn=gmapfn)
            bv = gmod.gebv(pgmat).unscale()
            epgc = numpy.array(vobj.epgc)
            for i, cc in enumerate(xmap):
                uc[i, :] += bv[cc, :].mean(0) - epgc.dot(bv[cc, :])
            return uc

        muts = [
            ("uc_progeny_mean_is_the_midparent_value", lambda: _patch(UcMixin, "_calc_uc", staticmethod(calc_uc_midparent))),
            ("mo_choice_skipped_when_miscout_is_None", lambda: _many(*[first_point_without_miscout(M["protmod"][e]) for e in M["protmod"]])),
            ("decision_values_stale_after_in_place_revision", lambda: _many(*[stale_decision_values(M["cfgmod"][e]) for e in M["cfgmod"]])),
            ("axis_shuffle_permutes_columns_for_a_Generator", lambda: _many(*[_patch(m, "axis_shuffle", axis_permuted_for_generator) for m in ind_mods])),
            ("mate_configuration_outcross_shuffled", lambda: _many(*[mate_outcrossed(M["cfgmod"][e]) for e in ENC_MATE])),
            ("design_numbers_frozen_at_first_select", lambda: _many(*[design_frozen_at_first_select(M["protmod"][e]) for e in M["protmod"]])),
            ("mo_choice_with_tolerant_comparison", lambda: _many(*[tolerant_front(M["protmod"][e]) for e in M["protmod"]])),
            ("mo_choice_over_feasible_points_misindexed", lambda: _many(*[feasible_misindexed(M["protmod"][e]) for e in M["protmod"]])),
            ("ohv_decision_space_is_a_prefix_of_the_cross_map", lambda: _patch(OhvSubset, "problem", ohv_problem_prefix)),
            ("ohv_cross_map_ignores_unique_parents_false", lambda: _many(*[_patch(k, "_calc_xmap", staticmethod(ohv_xmap_unique_only)) for k in ohv_probcls])),
            ("option_pool_cached_across_reassigned_decisions", lambda: _many(*[options_cached(M["cfgmod"][e]) for e in M["cfgmod"]])),
            ("sampling_rewrites_the_decision_in_place", lambda: _many(*[decision_rewritten(M["cfgmod"][e]) for e in M["cfgmod"]])),
            ("binary_decision_used_as_index_mask", lambda: _patch(M["cfgcls"]["binary"], "sample_xconfig", binary_mask_lookup)),
            ("sorting_optimiser_with_tolerant_ties", lambda: _patch(Sorting, "minimize", sorting_tolerant)),
            ("integer_problem_handed_float_bounds", lambda: _patch(MgrInt, "problem", problem_float_bounds)),
            ("decision_not_the_solution", lambda: _many(*[shifted_sosolve(M["protmod"][e]) for e in M["protmod"]])),
            ("sorting_ix_off_by_one", lambda: _patch(Sorting, "minimize", sorting_off_by_one)),
            ("mo_choice_argmin", lambda: _many(*[argmin_select(M["protmod"][e]) for e in M["protmod"]])),
            ("tiled_choice_with_replacement", lambda: _many(*[_patch(m, "tiled_choice", tiled_replace) for m in tiled_mods])),
            ("skip_outcross_shuffle", lambda: _many(*[_patch(m, "outcross_shuffle", no_outcross) for m in ind_mods])),
            ("axis_shuffle_across_crosses", lambda: _many(*[_patch(m, "axis_shuffle", axis1) for m in ind_mods])),
            ("outcross_objective_neighbours_only", lambda: _many(*[_patch(m, "outcross_shuffle", neighbour_outcross) for m in ind_mods])),
            ("mo_front_divided_by_obj_wt", lambda: _many(*[front_over_objwt(M["protmod"][e]) for e in M["protmod"]])),
            ("ebv_subset_values_by_sorted_labels", lambda: _patch(EbvSubset, "problem", problem_sorted_labels)),
            ("xmap_row_off_by_one", lambda: _many(*[mate_lookup_off_by_one(M["cfgmod"][e]) for e in ENC_MATE])),
            ("triudix_reversed_rows", lambda: _patch(arr, "triudix", triudix_wrong)),
        ]
        return muts


PROP = C07()
